#!/bin/sh
# Build the verification tooling from files on disk only (offline) and warm the dependency cache.
set -e
cd "$(dirname "$0")"
unset RUSTUP_TOOLCHAIN
export CARGO_NET_OFFLINE=true
(cd tools/ecfacts && cargo +nightly build --offline)
if [ -d tools/ecsyn ]; then (cd tools/ecsyn && cargo build --offline --release); fi
python3 - <<'PY'
import sys
sys.path.insert(0, '.')
from sa import facts
print('facts(default):', facts.extract('default'))
PY
