//! Scratch witnesses for findings anticipated in /verif/DESIGN.md. Not part of any check.
use crate::{
    Command, PduStorage,
    eeprom::{EepromRange, file_provider::EepromFile},
    pdu_loop::frame_element::received_frame::ReceivedFrame,
    subdevice::ports::Ports,
    timer_factory::MAX_TIMEOUT,
};
use core::ops::Deref;

// C01/C16: trim_front advances the pointer without shrinking len.
#[test]
fn w_trim_front_overreads() {
    let storage = PduStorage::<1, { PduStorage::element_size(8) }>::new();
    let (mut tx, mut rx, pdu_loop) = storage.try_split().unwrap();
    let mut frame = pdu_loop.alloc_frame().unwrap();
    let handle = frame
        .push_pdu(Command::fprd(0x1000, 0).into(), [1u8, 2, 3, 4, 5, 6, 7, 8], None)
        .unwrap();
    let fut = frame.mark_sendable(&pdu_loop, MAX_TIMEOUT, 0);
    let mut fut = core::pin::pin!(fut);
    let waker = futures_lite::future::block_on(core::future::poll_fn(|cx| core::task::Poll::Ready(cx.waker().clone())));
    let mut cx = core::task::Context::from_waker(&waker);
    assert!(core::future::Future::poll(fut.as_mut(), &mut cx).is_pending());
    let mut wire = vec![];
    tx.next_sendable_frame().unwrap().send_blocking(|b| { wire = b.to_vec(); Ok(b.len()) }).unwrap();
    // Response: flip source MAC, set wkc = 0xBEEF
    wire[6] = 0x12;
    let n = wire.len();
    wire[n - 2] = 0xEF; wire[n - 1] = 0xBE;
    rx.receive_frame(&wire).unwrap();
    let received = match core::future::Future::poll(fut.as_mut(), &mut cx) { core::task::Poll::Ready(r) => r.unwrap(), _ => panic!() };
    let mut pdu = received.first_pdu(handle).unwrap();
    assert_eq!(pdu.deref(), &[1, 2, 3, 4, 5, 6, 7, 8]);
    pdu.trim_front(2);
    eprintln!("after trim_front(2): len={} bytes={:02x?}", pdu.len(), pdu.deref());
    // If the view were correct this would be [3,4,5,6,7,8]. Observed: 8 bytes incl. the WKC.
    assert_eq!(pdu.deref(), &[3, 4, 5, 6, 7, 8, 0xEF, 0xBE], "view shows working counter bytes beyond data area");
}

// C01/C20: first_pdu returns a view into a slot that is already free.
#[test]
fn w_first_pdu_view_dangles() {
    let storage = PduStorage::<1, { PduStorage::element_size(8) }>::new();
    let (mut tx, mut rx, pdu_loop) = storage.try_split().unwrap();
    let mut frame = pdu_loop.alloc_frame().unwrap();
    let handle = frame.push_pdu(Command::fprd(0x1000, 0).into(), [9u8; 8], None).unwrap();
    let fut = frame.mark_sendable(&pdu_loop, MAX_TIMEOUT, 0);
    let mut fut = core::pin::pin!(fut);
    let waker = futures_lite::future::block_on(core::future::poll_fn(|cx| core::task::Poll::Ready(cx.waker().clone())));
    let mut cx = core::task::Context::from_waker(&waker);
    assert!(core::future::Future::poll(fut.as_mut(), &mut cx).is_pending());
    let mut wire = vec![];
    tx.next_sendable_frame().unwrap().send_blocking(|b| { wire = b.to_vec(); Ok(b.len()) }).unwrap();
    wire[6] = 0x12;
    rx.receive_frame(&wire).unwrap();
    let received = match core::future::Future::poll(fut.as_mut(), &mut cx) { core::task::Poll::Ready(r) => r.unwrap(), _ => panic!() };
    let pdu = received.first_pdu(handle).unwrap();
    assert_eq!(pdu.deref(), &[9u8; 8]);
    // The only slot is free again although `pdu` still points into it:
    let second = pdu_loop.alloc_frame().expect("slot already released while view is alive");
    eprintln!("view after another request claimed the slot: {:02x?}", pdu.deref());
    assert_eq!(pdu.deref(), &[0u8; 8], "view now shows the new owner's zero-filled buffer");
    drop(second);
}

// C06: dropping the future while the transmit side is inside the buffer hands the slot to someone else.
#[test]
fn w_drop_while_sending_reallocates() {
    let storage = PduStorage::<1, { PduStorage::element_size(8) }>::new();
    let (mut tx, _rx, pdu_loop) = storage.try_split().unwrap();
    let mut frame = pdu_loop.alloc_frame().unwrap();
    frame.push_pdu(Command::fpwr(0x1000, 0).into(), [0xAAu8; 8], None).unwrap();
    let fut = frame.mark_sendable(&pdu_loop, MAX_TIMEOUT, 0);
    let mut fut = Some(fut);
    let sending = tx.next_sendable_frame().unwrap();
    let mut before = vec![];
    let mut after = vec![];
    let res = sending.send_blocking(|bytes| {
        before = bytes.to_vec();
        // request abandoned (e.g. wrapped in an outer timeout) while the NIC call is in progress
        drop(fut.take());
        let mut other = pdu_loop.alloc_frame().expect("second request got the slot the transmitter is reading");
        other.push_pdu(Command::fpwr(0x2000, 0).into(), [0x55u8; 8], None).unwrap();
        after = bytes.to_vec();
        core::mem::forget(other);
        Ok(bytes.len())
    });
    assert!(res.is_ok());
    eprintln!("tx bytes before {:02x?}\ntx bytes after  {:02x?}", &before[16..], &after[16..]);
    assert_ne!(before, after, "buffer changed under the transmitter");
}

// C17: a device reporting no open port panics instead of producing an error.
#[test]
#[should_panic(expected = "Invalid topology")]
fn w_topology_no_ports_panics() {
    let p = Ports::new(false, false, false, false);
    let _ = p.topology();
}

// C13: category chain with a huge length overflows the word address.
#[test]
fn w_category_walk_overflow() {
    // 0x40 words of header (128 bytes), then category type 0x0001 (unknown) with len 0xFFF0 words
    let mut img = vec![0u8; 0x80];
    img.extend_from_slice(&[0x01, 0x00, 0xF0, 0xFF, 0, 0, 0, 0]);
    img.resize(0x200, 0xAB);
    let img: &'static [u8] = Box::leak(img.into_boxed_slice());
    let e = crate::subdevice::eeprom_for_witness(EepromFile::new(img));
    let r = std::panic::catch_unwind(std::panic::AssertUnwindSafe(|| {
        futures_lite::future::block_on(e.sync_managers())
    }));
    eprintln!("category walk result: {:?}", r.as_ref().map(|r| r.as_ref().map(|v| v.len())));
    assert!(r.is_err(), "expected arithmetic overflow panic in debug build");
}

// C13: EEPROM size word >= 511 overflows u16.
#[test]
fn w_size_overflow() {
    let mut img = vec![0u8; 0x100];
    img[0x7c] = 0xFF; img[0x7d] = 0x01; // word 0x3e = 0x01FF
    let img: &'static [u8] = Box::leak(img.into_boxed_slice());
    let e = crate::subdevice::eeprom_for_witness(EepromFile::new(img));
    let r = std::panic::catch_unwind(std::panic::AssertUnwindSafe(|| futures_lite::future::block_on(e.size())));
    eprintln!("size result: {:?}", r);
    assert!(r.is_err());
}

// C12/C13: start word >= 0x8000 overflows the u16 byte cursor.
#[test]
fn w_range_new_overflow() {
    let img: &'static [u8] = Box::leak(vec![0u8; 64].into_boxed_slice());
    let r = std::panic::catch_unwind(|| { let _ = EepromRange::new(EepromFile::new(img), 0x8000, 1); });
    assert!(r.is_err());
}

// C01 (S8): a timed-out slot keeps its first-PDU marker; the state-blind lookup prefers it over a live slot
// carrying the same wire index (index space wrapped; emulated here by resetting the shared counter).
#[test]
fn w_stale_marker_shadows_live_slot() {
    use core::sync::atomic::Ordering;
    let storage = PduStorage::<2, { PduStorage::element_size(8) }>::new();
    let (mut tx, mut rx, pdu_loop) = storage.try_split().unwrap();
    // Request A in slot 0 with wire index 0, abandoned (timeout) after being sent.
    let mut a = pdu_loop.alloc_frame().unwrap();
    a.push_pdu(Command::fprd(0x1000, 0).into(), [0u8; 8], None).unwrap();
    let fut_a = a.mark_sendable(&pdu_loop, MAX_TIMEOUT, 0);
    tx.next_sendable_frame().unwrap().send_blocking(|b| Ok(b.len())).unwrap();
    drop(fut_a);
    let s = pdu_loop.test_only_storage_ref();

    // 256 datagram indices later (emulated) request B lands in slot 1 with wire index 0.
    s.pdu_idx.store(0, Ordering::Relaxed);
    let mut b = pdu_loop.alloc_frame().unwrap();
    assert_eq!(b.storage_slot_index(), 1);
    b.push_pdu(Command::fprd(0x1001, 0).into(), [0u8; 8], None).unwrap();
    let fut_b = b.mark_sendable(&pdu_loop, MAX_TIMEOUT, 0);
    let mut wire = vec![];
    tx.next_sendable_frame().unwrap().send_blocking(|by| { wire = by.to_vec(); Ok(by.len()) }).unwrap();
    wire[6] = 0x12;
    let r = rx.receive_frame(&wire);
    eprintln!("response to live request B: {:?}", r);
    assert!(r.is_err(), "B's genuine response is rejected because the stale slot 0 shadows it");
    drop(fut_b);
}
