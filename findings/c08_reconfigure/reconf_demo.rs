//! Demonstration for property C08: "process data of one SubDevice reaches that SubDevice and
//! nothing else".
//!
//! A tiny simulated EtherCAT segment (register memory, SII EEPROM, CoE mailbox with expedited SDO
//! uploads, FMMU based LRW handling) is configured through the normal group code path
//! (`into_pre_op_pdi`). The network has two SubDevices in one group:
//!
//! - `0x1000`: CoE device with one output SM (SM2, 16 bits) and TWO input SMs (SM3 32 bits, SM4 16
//!   bits) which share the single "Inputs" FMMU.
//! - `0x1001`: Simple EEPROM-only device with 8 bits of outputs (SM0) and 16 bits of inputs (SM1).
//!
//! The test then checks that every SubDevice's input/output window has exactly the byte length its
//! PDO configuration requires, that the FMMUs programmed into the device cover exactly that window,
//! and that a process data cycle moves the device's process memory into/out of exactly that window.

use super::*;
use crate::{
    MainDeviceConfig, PduStorage, Timeouts,
    ethernet::{EthernetAddress, EthernetFrame},
    fmmu::Fmmu,
    subdevice::Mailbox,
    sync_manager_channel::SyncManagerChannel,
};
use core::sync::atomic::{AtomicBool, Ordering};
use core::time::Duration;
use ethercrab_wire::EtherCrabWireRead;
use std::{
    sync::{Arc, Mutex},
    thread,
};

const FPRD: u8 = 0x04;
const FPWR: u8 = 0x05;
const LRW: u8 = 0x0c;

const REG_FMMU0: usize = 0x0600;
const REG_SM0: usize = 0x0800;
const REG_AL_STATUS: usize = 0x0130;
const REG_AL_CONTROL: u16 = 0x0120;
const REG_SII_CONTROL: u16 = 0x0502;
const REG_SII_DATA: u16 = 0x0508;

fn u16le(b: &[u8]) -> u16 {
    u16::from_le_bytes([b[0], b[1]])
}

/// What the (simulated) device's own PDO configuration requires.
#[derive(Debug, Clone, Copy)]
struct Expected {
    input_bytes: usize,
    input_phys: usize,
    output_bytes: usize,
    output_phys: usize,
}

struct SimMailbox {
    write_addr: u16,
    read_addr: u16,
    read_sm: u8,
    reply: Option<Vec<u8>>,
}

struct SimDevice {
    addr: u16,
    mem: Vec<u8>,
    eeprom: Vec<u8>,
    sii_word: u16,
    /// CoE object dictionary: (index, sub index) -> little endian value (1..=4 bytes)
    od: Vec<((u16, u8), Vec<u8>)>,
    mailbox: Option<SimMailbox>,
    expected: Expected,
}

impl SimDevice {
    fn new(addr: u16, eeprom: Vec<u8>, expected: Expected) -> Self {
        let mut mem = vec![0u8; 0x10000];

        // PRE-OP, no error
        mem[REG_AL_STATUS] = 0x02;

        Self {
            addr,
            mem,
            eeprom,
            sii_word: 0,
            od: Vec::new(),
            mailbox: None,
            expected,
        }
    }

    fn read(&mut self, ado: u16, out: &mut [u8]) {
        if ado == REG_SII_CONTROL {
            // Not busy, no errors, 4 octet reads
            out.fill(0);
        } else if ado == REG_SII_DATA {
            let start = usize::from(self.sii_word) * 2;

            for (i, b) in out.iter_mut().enumerate() {
                *b = self.eeprom.get(start + i).copied().unwrap_or(0xff);
            }
        } else if let Some(mbox) = self
            .mailbox
            .as_mut()
            .filter(|m| m.read_addr == ado && m.reply.is_some())
        {
            let reply = mbox.reply.take().unwrap();

            out.fill(0);
            out[0..reply.len()].copy_from_slice(&reply);

            // Mailbox was read: no longer full
            self.mem[REG_SM0 + 8 * usize::from(mbox.read_sm) + 5] &= !0x08;
        } else {
            out.copy_from_slice(&self.mem[usize::from(ado)..usize::from(ado) + out.len()]);
        }
    }

    fn write(&mut self, ado: u16, data: &[u8]) {
        if ado == REG_SII_CONTROL {
            self.sii_word = u16le(&data[2..4]);
        } else if self.mailbox.as_ref().is_some_and(|m| m.write_addr == ado) {
            let reply = self.sdo_reply(data);
            let mbox = self.mailbox.as_mut().unwrap();

            mbox.reply = Some(reply);

            self.mem[REG_SM0 + 8 * usize::from(mbox.read_sm) + 5] |= 0x08;
        } else if ado == REG_AL_CONTROL {
            // The device follows every state request at once
            self.mem[REG_AL_STATUS] = data[0] & 0x0f;
        } else {
            self.mem[usize::from(ado)..usize::from(ado) + data.len()].copy_from_slice(data);
        }
    }

    /// Answer an SDO upload request with an expedited upload response (or an abort).
    fn sdo_reply(&self, req: &[u8]) -> Vec<u8> {
        let index = u16le(&req[9..11]);
        let sub = req[11];

        let mut r = vec![0u8; 16];

        // Mailbox header: length 10, address 0, CoE + same counter as the request
        r[0] = 10;
        r[5] = req[5];
        // CoE header: SDO response
        r[7] = 0x30;
        r[9..11].copy_from_slice(&index.to_le_bytes());
        r[11] = sub;

        match self.od.iter().find(|(k, _)| *k == (index, sub)) {
            Some((_, value)) => {
                // Size indicator, expedited, size = number of unused bytes, upload response
                r[8] = 0x43 | (((4 - value.len()) as u8) << 2);
                r[12..12 + value.len()].copy_from_slice(value);
            }
            None => {
                // Abort: object does not exist
                r[8] = 0x80;
                r[12..16].copy_from_slice(&0x0602_0000u32.to_le_bytes());
            }
        }

        r
    }

    fn fmmus(&self) -> Vec<Fmmu> {
        (0..16)
            .map(|i| Fmmu::unpack_from_slice(&self.mem[REG_FMMU0 + 16 * i..]).unwrap())
            .filter(|f| f.enable)
            .collect()
    }

    /// Logical read/write through this device's FMMUs. Returns working counter increment.
    fn lrw(&mut self, logical: u32, data: &mut [u8]) -> u16 {
        let mut wkc = 0;

        for fmmu in self.fmmus() {
            let mut hit = false;

            for i in 0..u32::from(fmmu.length_bytes) {
                let l = fmmu.logical_start_address + i;

                if l < logical || l >= logical + data.len() as u32 {
                    continue;
                }

                hit = true;

                let d = (l - logical) as usize;
                let p = usize::from(fmmu.physical_start_address) + i as usize;

                if fmmu.read_enable {
                    data[d] = self.mem[p];
                }

                if fmmu.write_enable {
                    self.mem[p] = data[d];
                }
            }

            if hit {
                wkc += u16::from(fmmu.read_enable) + 2 * u16::from(fmmu.write_enable);
            }
        }

        wkc
    }
}

/// Pass one Ethernet frame through all devices, like a real segment would.
fn process_frame(frame: &mut [u8], devices: &mut [SimDevice]) {
    let mut pos = 16;

    loop {
        let cmd = frame[pos];
        let adp = u16le(&frame[pos + 2..]);
        let ado = u16le(&frame[pos + 4..]);
        let logical = u32::from_le_bytes(frame[pos + 2..pos + 6].try_into().unwrap());
        let flags = u16le(&frame[pos + 6..]);
        let len = usize::from(flags & 0x07ff);
        let more = flags & 0x8000 != 0;

        let (data, rest) = frame[pos + 10..].split_at_mut(len);
        let mut wkc = u16le(rest);

        match cmd {
            FPRD => {
                if let Some(d) = devices.iter_mut().find(|d| d.addr == adp) {
                    d.read(ado, data);
                    wkc += 1;
                }
            }
            FPWR => {
                if let Some(d) = devices.iter_mut().find(|d| d.addr == adp) {
                    d.write(ado, data);
                    wkc += 1;
                }
            }
            LRW => {
                for d in devices.iter_mut() {
                    wkc += d.lrw(logical, data);
                }
            }
            other => panic!("simulator does not implement command {:#04x}", other),
        }

        rest[0..2].copy_from_slice(&wkc.to_le_bytes());

        pos += 12 + len;

        if !more {
            break;
        }
    }
}

/// Build an SII image: 0x80 bytes of (zeroed) fixed area followed by the given categories.
fn eeprom_image(categories: &[(u16, &[u8])]) -> Vec<u8> {
    let mut image = vec![0u8; 0x80];

    for (ty, data) in categories {
        assert_eq!(data.len() % 2, 0, "category data must be whole words");

        image.extend_from_slice(&ty.to_le_bytes());
        image.extend_from_slice(&((data.len() / 2) as u16).to_le_bytes());
        image.extend_from_slice(data);
    }

    // End marker
    image.extend_from_slice(&[0xff, 0xff, 0xff, 0xff]);

    image
}

fn sm(start: u16, len: u16, control: u8, ty: u8) -> [u8; 8] {
    let s = start.to_le_bytes();
    let l = len.to_le_bytes();

    // start, length, control, status, enable, type
    [s[0], s[1], l[0], l[1], control, 0x00, 0x01, ty]
}

fn pdo(index: u16, sync_manager: u8, bit_len: u8) -> [u8; 16] {
    let i = index.to_le_bytes();

    [
        // PDO: index, 1 entry, SM, DC sync, name, flags
        i[0],
        i[1],
        1,
        sync_manager,
        0,
        0,
        0,
        0,
        // Entry: index, sub index, name, data type, bit length, flags
        0x00,
        0x60,
        0x01,
        0x00,
        0x00,
        bit_len,
        0x00,
        0x00,
    ]
}

const CAT_FMMU: u16 = 40;
const CAT_SM: u16 = 41;
const CAT_TXPDO: u16 = 50;
const CAT_RXPDO: u16 = 51;

/// CoE device: SM2 outputs (0x1600, 16 bits), SM3 inputs (0x1a00, 32 bits), SM4 inputs (0x1a10, 16
/// bits). One Outputs FMMU, one Inputs FMMU, as is usual.
fn coe_device(addr: u16) -> SimDevice {
    let sms = [
        sm(0x1000, 48, 0x26, 1),
        sm(0x1080, 48, 0x22, 2),
        sm(0x1100, 0, 0x64, 3),
        sm(0x1400, 0, 0x20, 4),
        // Directly behind SM3's 4 bytes
        sm(0x1404, 0, 0x20, 4),
    ]
    .concat();

    let eeprom = eeprom_image(&[(CAT_SM, &sms), (CAT_FMMU, &[0x01, 0x02, 0x03, 0x00])]);

    let mut d = SimDevice::new(
        addr,
        eeprom,
        Expected {
            input_bytes: 4 + 2,
            input_phys: 0x1400,
            output_bytes: 2,
            output_phys: 0x1100,
        },
    );

    d.mailbox = Some(SimMailbox {
        write_addr: 0x1000,
        read_addr: 0x1080,
        read_sm: 1,
        reply: None,
    });

    d.od = vec![
        // SM2 PDO assignment
        ((0x1c12, 0), vec![1]),
        ((0x1c12, 1), 0x1600u16.to_le_bytes().to_vec()),
        ((0x1600, 0), vec![1]),
        ((0x1600, 1), vec![16, 0x01, 0x00, 0x70]),
        // SM3 PDO assignment
        ((0x1c13, 0), vec![1]),
        ((0x1c13, 1), 0x1a00u16.to_le_bytes().to_vec()),
        ((0x1a00, 0), vec![1]),
        ((0x1a00, 1), vec![32, 0x01, 0x00, 0x60]),
        // SM4 PDO assignment
        ((0x1c14, 0), vec![1]),
        ((0x1c14, 1), 0x1a10u16.to_le_bytes().to_vec()),
        ((0x1a10, 0), vec![1]),
        ((0x1a10, 1), vec![16, 0x01, 0x10, 0x60]),
    ];

    d
}

/// Simple device without mailbox: SM0 outputs 8 bits, SM1 inputs 16 bits.
fn simple_device(addr: u16) -> SimDevice {
    let sms = [sm(0x0f00, 0, 0x44, 3), sm(0x1000, 0, 0x00, 4)].concat();

    let eeprom = eeprom_image(&[
        (CAT_SM, &sms),
        (CAT_FMMU, &[0x01, 0x02]),
        (CAT_TXPDO, &pdo(0x1a00, 1, 16)),
        (CAT_RXPDO, &pdo(0x1600, 0, 8)),
    ]);

    SimDevice::new(
        addr,
        eeprom,
        Expected {
            input_bytes: 2,
            input_phys: 0x1000,
            output_bytes: 1,
            output_phys: 0x0f00,
        },
    )
}

#[tokio::test(flavor = "multi_thread", worker_threads = 2)]
async fn reconfigure_after_returning_to_pre_op() {
    const MAX_SUBDEVICES: usize = 2;
    const MAX_PDI: usize = 16;
    const MAX_FRAMES: usize = 16;
    const MAX_PDU_DATA: usize = PduStorage::element_size(128);

    static PDU_STORAGE: PduStorage<MAX_FRAMES, MAX_PDU_DATA> = PduStorage::new();

    crate::test_logger();

    let (mut tx, mut rx, pdu_loop) = PDU_STORAGE.try_split().expect("can only split once");

    let devices = Arc::new(Mutex::new(vec![coe_device(0x1000), simple_device(0x1001)]));

    let stop = Arc::new(AtomicBool::new(false));

    // The "network": take every sent frame, run it through the simulated segment, hand it back.
    let net = {
        let devices = devices.clone();
        let stop = stop.clone();

        thread::spawn(move || {
            while !stop.load(Ordering::Relaxed) {
                let mut sent = Vec::new();

                while let Some(frame) = tx.next_sendable_frame() {
                    frame
                        .send_blocking(|bytes| {
                            sent.push(bytes.to_vec());

                            Ok(bytes.len())
                        })
                        .unwrap();
                }

                for mut bytes in sent {
                    process_frame(&mut bytes, &mut devices.lock().unwrap());

                    let bytes = {
                        let mut frame = EthernetFrame::new_checked(bytes).unwrap();
                        frame.set_src_addr(EthernetAddress([0x12, 0x10, 0x10, 0x10, 0x10, 0x10]));
                        frame.into_inner()
                    };

                    rx.receive_frame(&bytes).expect("receive frame");
                }

                thread::sleep(Duration::from_micros(100));
            }
        })
    };

    let maindevice = MainDevice::new(
        pdu_loop,
        Timeouts {
            pdu: Duration::from_secs(2),
            eeprom: Duration::from_secs(5),
            mailbox_echo: Duration::from_secs(5),
            mailbox_response: Duration::from_secs(5),
            wait_loop_delay: Duration::ZERO,
            ..Timeouts::default()
        },
        MainDeviceConfig::default(),
    );

    // SubDevices as they are after `MainDevice::init` (PRE-OP, mailboxes known)
    let mut coe_sd = SubDevice {
        configured_address: 0x1000,
        ..SubDevice::default()
    };

    coe_sd.config.mailbox.write = Some(Mailbox {
        address: 0x1000,
        len: 48,
        sync_manager: 0,
    });
    coe_sd.config.mailbox.read = Some(Mailbox {
        address: 0x1080,
        len: 48,
        sync_manager: 1,
    });
    coe_sd.config.mailbox.supported_protocols = crate::eeprom::types::MailboxProtocols::COE;
    coe_sd.config.mailbox.has_coe = true;

    let subdevices = heapless::Vec::<SubDevice, MAX_SUBDEVICES>::from_slice(&[
        coe_sd,
        SubDevice {
            configured_address: 0x1001,
            ..SubDevice::default()
        },
    ])
    .unwrap();

    let group = SubDeviceGroup::<MAX_SUBDEVICES, MAX_PDI, crate::DefaultLock, PreOp, NoDc> {
        id: GroupId(0),
        pdi: RwLock::new(MySyncUnsafeCell::new([0u8; MAX_PDI])),
        read_pdi_len: 0,
        pdi_len: 0,
        inner: MySyncUnsafeCell::new(GroupInner {
            subdevices,
            pdi_start: PdiOffset::default(),
        }),
        dc_conf: NoDc,
        _state: PhantomData,
    };

    // PRE-OP -> SAFE-OP configures SMs and FMMUs
    let group = group.into_safe_op(&maindevice).await.expect("PRE-OP -> SAFE-OP");

    let first: Vec<Vec<Fmmu>> = devices.lock().unwrap().iter().map(|d| d.fmmus()).collect();

    // Back to PRE-OP (e.g. to change an SDO), then to SAFE-OP again: configured a second time
    let group = group.into_pre_op(&maindevice).await.expect("SAFE-OP -> PRE-OP");
    let group = group.into_safe_op(&maindevice).await.expect("PRE-OP -> SAFE-OP again");

    let second: Vec<Vec<Fmmu>> = devices.lock().unwrap().iter().map(|d| d.fmmus()).collect();

    println!("FMMUs after first configuration:  {:?}", first);
    println!("FMMUs after second configuration: {:?}", second);

    let mut problems: Vec<String> = Vec::new();

    // --- Layout: windows have the length the PDO config requires, FMMUs/SMs cover exactly them

    let mut windows: Vec<core::ops::Range<usize>> = Vec::new();

    for (i, sd) in group.iter(&maindevice).enumerate() {
        let sim = &devices.lock().unwrap()[i];
        let exp = sim.expected;
        let io = sd.io_segments().clone();

        println!(
            "SubDevice {:#06x}: inputs {:?}, outputs {:?}, FMMUs {:?}",
            sim.addr,
            io.input.bytes,
            io.output.bytes,
            sim.fmmus()
        );

        for (name, window, want_len, read) in [
            ("input", io.input.bytes.clone(), exp.input_bytes, true),
            ("output", io.output.bytes.clone(), exp.output_bytes, false),
        ] {
            if window.len() != want_len {
                problems.push(format!(
                    "{:#06x} {} window {:?} is {} bytes but the PDO configuration requires {}",
                    sim.addr,
                    name,
                    window,
                    window.len(),
                    want_len
                ));
            }

            if window.end > group.pdi_len || group.pdi_len > MAX_PDI {
                problems.push(format!(
                    "{:#06x} {} window {:?} outside the image",
                    sim.addr, name, window
                ));
            }

            // Logical bytes mapped by the FMMUs of this direction
            let mut mapped: Vec<usize> = sim
                .fmmus()
                .iter()
                .filter(|f| f.read_enable == read && f.write_enable != read)
                .flat_map(|f| {
                    let start = f.logical_start_address as usize;

                    start..start + usize::from(f.length_bytes)
                })
                .collect();

            mapped.sort();

            if mapped != window.clone().collect::<Vec<_>>() {
                problems.push(format!(
                    "{:#06x} {} FMMUs map logical bytes {:?} but the window is {:?}",
                    sim.addr, name, mapped, window
                ));
            }

            windows.push(window);
        }

        // Sync manager lengths must add up to the PDO lengths too
        let sm_total = |ty_read: bool| -> usize {
            (0..8)
                .map(|n| SyncManagerChannel::unpack_from_slice(&sim.mem[REG_SM0 + 8 * n..]).unwrap())
                .filter(|sm| sm.enable.enable)
                .filter(|sm| {
                    let is_read =
                        sm.control.direction == crate::sync_manager_channel::Direction::MasterRead;

                    is_read == ty_read
                })
                .map(|sm| usize::from(sm.length_bytes))
                .sum()
        };

        if sm_total(true) != exp.input_bytes || sm_total(false) != exp.output_bytes {
            problems.push(format!(
                "{:#06x} SM lengths in {} / out {} do not match PDO configuration {:?}",
                sim.addr,
                sm_total(true),
                sm_total(false),
                exp
            ));
        }
    }

    for (a, wa) in windows.iter().enumerate() {
        for wb in windows.iter().skip(a + 1) {
            if wa.start < wb.end && wb.start < wa.end {
                problems.push(format!("windows {:?} and {:?} overlap", wa, wb));
            }
        }
    }

    // --- Data: one process data cycle moves exactly the device's process memory

    // Distinct, non-zero patterns in every device's input memory
    for (i, sim) in devices.lock().unwrap().iter_mut().enumerate() {
        let exp = sim.expected;

        for b in 0..exp.input_bytes {
            sim.mem[exp.input_phys + b] = 0xa0 + (i as u8) * 0x10 + b as u8;
        }
    }

    // Distinct patterns in every SubDevice's outputs
    for (i, sd) in group.iter(&maindevice).enumerate() {
        for (b, byte) in sd.io_raw_mut().outputs().iter_mut().enumerate() {
            *byte = 0x51 + (i as u8) * 0x10 + b as u8;
        }
    }

    group.tx_rx(&maindevice).await.expect("tx_rx");

    for (i, sd) in group.iter(&maindevice).enumerate() {
        let sim = &devices.lock().unwrap()[i];
        let exp = sim.expected;

        let io = sd.io_raw();

        let device_inputs = &sim.mem[exp.input_phys..exp.input_phys + exp.input_bytes];
        let device_outputs = &sim.mem[exp.output_phys..exp.output_phys + exp.output_bytes];

        if io.inputs() != device_inputs {
            problems.push(format!(
                "{:#06x} input memory is {:02x?} but its inputs read {:02x?}",
                sim.addr,
                device_inputs,
                io.inputs()
            ));
        }

        if io.outputs() != device_outputs {
            problems.push(format!(
                "{:#06x} outputs were set to {:02x?} but its output memory holds {:02x?}",
                sim.addr,
                io.outputs(),
                device_outputs
            ));
        }
    }

    stop.store(true, Ordering::Relaxed);
    net.join().unwrap();

    // NOTE: Printed as well as asserted: other tests in this binary replace the panic hook, which
    // can swallow the assertion message when the whole suite is run.
    for problem in problems.iter() {
        println!("PROBLEM: {}", problem);
    }

    assert!(
        problems.is_empty(),
        "process data layout is wrong (group image {} bytes, {} input bytes):\n  {}",
        group.pdi_len,
        group.read_pdi_len,
        problems.join("\n  ")
    );

    // What the layout must be for this network
    assert_eq!(group.read_pdi_len, 8);
    assert_eq!(group.pdi_len, 11);
}
