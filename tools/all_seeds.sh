#!/bin/sh
# Apply every seeded change in /verif/seeded (the rebased variant where one exists) to /repo in turn, run the
# quick check of its property and print whether it was caught. /repo is restored after each one.
cd /verif
for d in seeded/seed-*; do
  id=$(basename $d); prop=${id#seed-}
  p=/verif/$d/patch.diff; [ -f /verif/$d/patch_rebased.diff ] && p=/verif/$d/patch_rebased.diff
  out=$(tools/try_seed.sh $p $prop 2>&1)
  if echo "$out" | grep -q "VIOLATION property=$prop"; then echo "$id caught"; else echo "$id MISSED"; echo "$out" | tail -3; fi
done
