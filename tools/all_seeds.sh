#!/bin/sh
# Apply every seeded change in /verif/seeded (round 1: seed-Cxx, round 2: seed2-Cxx-A/B; the rebased variant where one
# exists) to a scratch copy of /repo in turn (tools/try_diff.py; /repo itself is not touched), run the quick check of
# its property and print whether it was caught, with the first violation key.
cd /verif
for d in seeded/seed-* seeded/seed2-* seeded/seed3-*; do
  id=$(basename $d); prop=$(echo $id | sed 's/seed[23]\?-\(C[0-9]*\).*/\1/')
  p=/verif/$d/patch.diff; [ -f /verif/$d/patch_rebased.diff ] && p=/verif/$d/patch_rebased.diff
  out=$(tools/try_diff.py $p $prop --slot seeds 2>&1)
  if echo "$out" | grep -q "^$prop VIOLATION"; then echo "$id caught: $(echo "$out" | grep 'violation:' | head -1 | sed 's/.*violation: \[\([^]]*\)\].*/\1/')"; else echo "$id MISSED"; echo "$out" | tail -3; fi
done
