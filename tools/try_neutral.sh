#!/bin/sh
# usage: tools/try_neutral.sh <Cxx> : runs all 20 quick checks against each neutral diff in seeded/neutral/<Cxx>/
P=$1
for f in /verif/seeded/neutral/$P/n*.diff; do
  echo "##### $P $(basename $f)"
  /verif/tools/try_diff.py $f --slot neutral 2>&1 | grep -v " silent$" | cut -c1-500
done
echo "##### done $P"
