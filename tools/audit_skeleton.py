#!/usr/bin/env python3
"""Print the undischarged NOPANIC sinks of a property as a JSON skeleton for tables/audited_sites.json."""
import json, os, subprocess, sys, tempfile
pid = sys.argv[1]
tmp = tempfile.mkdtemp()
env = dict(os.environ, VERIF_EVIDENCE_DIR=tmp + "/ev", VERIF_REPORT_DIR=tmp)
subprocess.run([os.path.join(os.path.dirname(__file__), "..", "check"), pid], env=env, capture_output=True)
try:
    rep = json.load(open(os.path.join(tmp, pid + ".json")))
except Exception:
    print("no violations"); sys.exit(0)
out = {}
for v in rep["violations"]:
    k = v["key"]
    if k.startswith(pid + ".np|"):
        out[k[len(pid) + 4:]] = {"reason": "TODO", "_at": v["loc"]}
    else:
        print("other:", k, v["msg"][:200])
print(json.dumps(out, indent=1))
