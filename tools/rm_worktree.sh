#!/bin/sh
# usage: tools/rm_worktree.sh <name>...
for N in "$@"; do git -C /repo worktree remove --force /tmp/ecwt/$N 2>/dev/null; rm -rf /tmp/ecwt/$N; done
git -C /repo worktree prune
