#!/usr/bin/env python3
"""usage: tools/try_diff.py <patch.diff> [Cxx ...] [--slot N]
Applies a diff to a scratch copy of /repo (outside /repo and /verif), runs the given quick checks (default:
all 20) against the copy in parallel and prints, per property, `silent` or the violation keys. /repo itself is
not touched; evidence and reports are diverted. The scratch copy is reused (rsync) and lives in /tmp/ecscratch."""
import json, os, subprocess, sys, tempfile, shutil, glob
from concurrent.futures import ThreadPoolExecutor
VERIF = os.path.dirname(os.path.dirname(os.path.abspath(__file__)))
args = sys.argv[1:]
slot = "0"
if "--slot" in args:
    i = args.index("--slot"); slot = args[i + 1]; del args[i:i + 2]
patch = os.path.abspath(args[0])
props = [a.upper() for a in args[1:]] or ["C%02d" % i for i in range(1, 21)]
scratch = "/tmp/ecscratch/%s/repo" % slot
os.makedirs(scratch, exist_ok=True)
subprocess.check_call(["rsync", "-a", "--delete", "--exclude", "target", "--exclude", ".git", "--exclude", "dumps", "--exclude", "*.pcapng", "/repo/", scratch + "/"])
r = subprocess.run(["git", "apply", "--whitespace=nowarn", patch], cwd=scratch, capture_output=True, text=True)
if r.returncode != 0:
    print("APPLY-FAILED", r.stderr.strip()[:400]); sys.exit(2)
tmp = tempfile.mkdtemp(prefix="ectry-")
env = dict(os.environ, VERIF_REPO=scratch, VERIF_EVIDENCE_DIR=tmp + "/ev", VERIF_REPORT_DIR=tmp)
def run(p):
    r = subprocess.run([os.path.join(VERIF, "check"), p], env=env, capture_output=True, text=True)
    return p, r.returncode, r.stdout + r.stderr
# first one performs the extraction
res = [run(props[0])]
with ThreadPoolExecutor(8) as ex:
    res += list(ex.map(run, props[1:]))
rc = 0
for p, code, out in res:
    if "extraction failed" in out or "does not compile" in out:
        print(p, "DOES-NOT-COMPILE"); print(out[-1500:]); rc = 3; break
    keys = [l.strip()[:300] for l in out.splitlines() if l.strip().startswith("violation:")]
    if code == 0 and "VIOLATION property=" not in out:
        print(p, "silent")
    else:
        rc = 1
        print(p, "VIOLATION rc=%d" % code)
        for k in keys[:12]:
            print("    ", k)
        if not keys:
            print("    " + "\n    ".join(out.strip().splitlines()[-6:]))
shutil.rmtree(tmp, ignore_errors=True)
sys.exit(rc)
