#!/usr/bin/env python3
"""usage: tools/mk_seed3.py <Cxx> <caught_by key> [missed]
Stores a confirmed round-3 seeded change from /tmp/ecseeds3/<Cxx>-A (patch.diff, demo.diff, the agent's meta.json,
confirm.log written by tools/confirm2.sh) as seeded/seed3-<Cxx>-A/ with a meta.json in the format of the earlier rounds."""
import json, os, re, shutil, sys
pid, caught = sys.argv[1], sys.argv[2]
missed = len(sys.argv) > 3 and sys.argv[3] == "missed"
src = "/tmp/ecseeds3/%s-A" % pid
dst = os.path.join(os.path.dirname(os.path.dirname(os.path.abspath(__file__))), "seeded", "seed3-%s-A" % pid)
os.makedirs(dst, exist_ok=True)
for f in ("patch.diff", "demo.diff", "confirm.log"):
    shutil.copy(os.path.join(src, f), os.path.join(dst, f))
am = json.load(open(os.path.join(src, "meta.json")))
json.dump(am, open(os.path.join(dst, "agent_meta.json"), "w"), indent=1)
log = open(os.path.join(src, "confirm.log")).read()
m = re.search(r"passed=(\d+) failed=(\d+)", log)
reruns = re.findall(r"rerun\d? (\S+): (\S+)", log)
suite = "passed=%s failed=%s" % (m.group(1), m.group(2)) if m else "not run"
if reruns:
    suite += "; failing tests re-run alone: " + ", ".join("%s %s" % r for r in reruns)
json.dump({
    "property": pid,
    "breaks": am.get("summary"),
    "needs_to_manifest": am.get("needs"),
    "demonstration": am.get("demo_cmd"),
    "what_i_ran": [
        "tools/confirm2.sh <seed> demo : demonstration with the change (fails) and without it (passes), in the scratch worktree /tmp/ecwt/confirm",
        "tools/confirm2.sh <seed> suite: cargo test --workspace --no-fail-fast --offline with the change and the demonstration removed (%s)" % suite,
        "tools/try_diff.py patch.diff %s : quick check of the property on a scratch copy of /repo with the change applied" % pid,
    ],
    "caught_by": caught,
    "missed_by_own_check_when_it_arrived": missed,
    "round": 3,
}, open(os.path.join(dst, "meta.json"), "w"), indent=1)
print(dst)
