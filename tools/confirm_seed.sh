#!/bin/sh
# usage: tools/confirm_seed.sh <worktree> <seed-id>
# Confirms a seeded change in its scratch worktree: the demonstration fails with the change and
# passes without it, and the existing suite still passes with the change (demonstration removed).
WT="$1"; ID="$2"
OUT=/verif/seeded/$ID
mkdir -p $OUT
cp $WT/SEED/patch.diff $WT/SEED/demo.diff $OUT/
cp $WT/SEED/meta.json $OUT/agent_meta.json
LOG=$OUT/confirm.log
: > $LOG
export RUSTUP_TOOLCHAIN=1.88.0 CARGO_NET_OFFLINE=true
cd $WT || exit 2
DEMO=$(python3 -c "import json;print(json.load(open('$WT/SEED/meta.json'))['demo_cmd'])")
# normalise state: both diffs applied
git checkout -q -- . ; git clean -fdq -e SEED -e target
git apply SEED/patch.diff && git apply SEED/demo.diff || { echo "APPLY FAILED" >> $LOG; exit 1; }
echo "### demo WITH change: $DEMO" >> $LOG
( eval "$DEMO" ) > $OUT/demo_with.log 2>&1; echo "exit=$?" >> $LOG; grep -E "^test result|panicked|FAILED|failed" $OUT/demo_with.log | head -8 >> $LOG
git apply -R SEED/patch.diff
echo "### demo WITHOUT change" >> $LOG
( eval "$DEMO" ) > $OUT/demo_without.log 2>&1; echo "exit=$?" >> $LOG; grep -E "^test result|panicked|FAILED|failed" $OUT/demo_without.log | head -8 >> $LOG
git apply SEED/patch.diff; git apply -R SEED/demo.diff
echo "### existing suite WITH change (demo removed)" >> $LOG
cargo test --workspace --no-fail-fast --offline > $OUT/suite_with.log 2>&1; echo "exit=$?" >> $LOG
grep -E "^test result" $OUT/suite_with.log | awk '{p+=$4; f+=$6} END {print "passed="p" failed="f}' >> $LOG
grep -E "^test .* FAILED|^    [a-z_:]+$" $OUT/suite_with.log | head -10 >> $LOG
git apply SEED/demo.diff
echo done >> $LOG
