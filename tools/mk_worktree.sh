#!/bin/sh
# usage: tools/mk_worktree.sh <name> [template-worktree-with-warm-target]
# Creates a scratch git worktree of /repo's HEAD under /tmp/ecwt/<name>; if a template is given its target/
# directory is copied in so that the first build is warm. Remove with tools/rm_worktree.sh <name>.
set -e
N="$1"; T="$2"
mkdir -p /tmp/ecwt
git -C /repo worktree add --detach /tmp/ecwt/$N HEAD >/dev/null 2>&1
if [ -n "$T" ] && [ -d "$T/target" ]; then cp -a "$T/target" /tmp/ecwt/$N/target; fi
echo /tmp/ecwt/$N
