#!/bin/bash
# usage: tools/confirm2.sh <seed-dir> [demo|suite|both]   (seed-dir holds patch.diff demo.diff meta.json)
# Confirms a seeded change in the scratch worktree /tmp/ecwt/confirm: demo fails with the change and passes
# without it; with `suite`, the existing suite passes with the change (failing tests are re-run alone up to 3 times:
# the replay tests time out under load).
SD="$1"; MODE="${2:-demo}"
WT=/tmp/ecwt/confirm
export RUSTUP_TOOLCHAIN=1.88.0 CARGO_NET_OFFLINE=true
cd $WT || exit 2
LOG=$SD/confirm.log
reset() { git checkout -q -- . ; git clean -fdq -e target; }
DEMO=$(python3 - "$SD/meta.json" <<'PY'
import json,sys,re
c=json.load(open(sys.argv[1]))['demo_cmd']
# drop leading `cd ... &&` and `git apply ... &&` parts the agents sometimes include
parts=[p.strip() for p in c.split('&&')]
parts=[p for p in parts if not p.startswith('cd ') and not p.startswith('git apply')]
print(' && '.join(parts))
PY
)
if [ "$MODE" != "suite" ]; then
  : > $LOG
  reset; git apply --whitespace=nowarn $SD/patch.diff && git apply --whitespace=nowarn $SD/demo.diff || { echo "APPLY FAILED" >> $LOG; exit 1; }
  echo "### demo WITH change: $DEMO" >> $LOG
  ( timeout 900 bash -c "$DEMO" ) > $SD/demo_with.log 2>&1; echo "exit=$?" >> $LOG; grep -E "^test result|panicked|FAILED|failed" $SD/demo_with.log | head -6 >> $LOG
  reset; git apply --whitespace=nowarn $SD/demo.diff
  echo "### demo WITHOUT change" >> $LOG
  ( timeout 900 bash -c "$DEMO" ) > $SD/demo_without.log 2>&1; echo "exit=$?" >> $LOG; grep -E "^test result|panicked|FAILED|failed" $SD/demo_without.log | head -6 >> $LOG
fi
if [ "$MODE" != "demo" ]; then
  reset; git apply --whitespace=nowarn $SD/patch.diff
  echo "### existing suite WITH change (demo removed)" >> $LOG
  timeout 3000 cargo test --workspace --no-fail-fast --offline > $SD/suite_with.log 2>&1; echo "exit=$?" >> $LOG
  grep -E "^test result" $SD/suite_with.log | awk '{p+=$4; f+=$6} END {print "passed="p" failed="f}' >> $LOG
  FAILED=$(grep -E "^test .* \.\.\. FAILED" $SD/suite_with.log | awk '{print $2}' | sort -u)
  for t in $FAILED; do
    ok=0
    for i in 1 2 3; do
      if timeout 600 cargo test --workspace --offline -- --exact $t > $SD/rerun_$t.log 2>&1 || grep -q "test $t ... ok" $SD/rerun_$t.log; then
        grep -q "test $t ... ok" $SD/rerun_$t.log && { ok=1; break; }
      fi
    done
    echo "rerun $t: $([ $ok = 1 ] && echo passes-alone || echo STILL-FAILS)" >> $LOG
  done
fi
reset
echo done >> $LOG
