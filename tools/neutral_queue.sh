#!/bin/sh
# processes every seeded/neutral/<Cxx>/ that has no results.txt yet, one after the other (single instance via flock)
exec 9>/tmp/neutral_queue.lock
flock -n 9 || exit 0
while :; do
  todo=""
  for d in /verif/seeded/neutral/C*; do [ -f $d/results.txt ] || { todo=$d; break; }; done
  [ -z "$todo" ] && break
  /verif/tools/try_neutral.sh $(basename $todo) > $todo/results.tmp 2>&1
  mv $todo/results.tmp $todo/results.txt
done
