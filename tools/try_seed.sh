#!/bin/sh
# usage: tools/try_seed.sh <patch.diff> <Cxx> [Cyy ...]
# Applies a seeded change to /repo, runs the given quick checks (evidence diverted), and undoes it.
set -e
PATCH="$1"; shift
cd /repo
git diff --quiet || { echo "/repo has uncommitted changes"; exit 2; }
git apply "$PATCH"
T=$(mktemp -d)
for P in "$@"; do
  echo "== $P"
  (cd /verif && VERIF_EVIDENCE_DIR=$T/ev VERIF_REPORT_DIR=$T ./check $P 2>&1 | grep -E "violation:|VIOLATION|KNOWN|obligations|extraction failed" | cut -c1-400) || true
done
git -C /repo checkout -- .
git -C /repo status --short | head -3
rm -rf $T
