#!/usr/bin/env python3
"""Regenerate tables/known_fns.json from the reference tree (/repo as it is now). Run only when the reference
tree itself changes (a `fix:` commit); the list is what sa/inline.py compares later trees against."""
import os, sys
sys.path.insert(0, os.path.dirname(os.path.dirname(os.path.abspath(__file__))))
from sa import facts, inline
raw = facts.load_raw(facts.extract("default"))
inline.write_known(raw)
print(len(inline.fn_index(raw)), "functions")
