#!/usr/bin/env python3
"""Regenerate tables/known_fns.json from the reference tree (/repo as it is now). Run only when the reference
tree itself changes (a `fix:` commit); the list is what sa/inline.py compares later trees against."""
import os, sys
sys.path.insert(0, os.path.dirname(os.path.dirname(os.path.abspath(__file__))))
from sa import facts, inline
idx = {}
for cfg in facts.CONFIGS:  # the union over every analysed configuration: a cfg-only function is known, not a new helper
    raw = facts.load_raw(facts.extract(cfg))
    for k, v in inline.fn_index(raw).items():
        idx.setdefault(k, v)
inline.write_known(None, index=idx)
print(len(idx), "functions")
