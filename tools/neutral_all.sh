#!/bin/sh
# Re-runs all 20 quick checks against every behaviour-preserving edit in seeded/neutral2 and seeded/neutral (scratch copy,
# /repo untouched) and rewrites each set's results.txt: one "##### <set> <diff>" header per edit followed by the checks
# that were NOT silent (none = the edit raised no alarm).
for root in neutral2 neutral; do
  for d in /verif/seeded/$root/C*; do
    P=$(basename $d)
    {
      for f in $d/n*.diff; do
        echo "##### $P $(basename $f)"
        /verif/tools/try_diff.py $f --slot neutral 2>&1 | grep -v " silent$" | cut -c1-400
      done
      echo "##### done $P"
    } > $d/results.tmp 2>&1
    mv $d/results.tmp $d/results.txt
  done
done
