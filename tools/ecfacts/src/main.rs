//! ecfacts: rustc_private driver that dumps the resolved program (MIR as built, before borrowck and
//! before the coroutine transform) of selected crates as JSON facts for the python analyses in
//! /verif/sa. Injected with RUSTC_WORKSPACE_WRAPPER under `cargo +nightly check`.
//!
//! env: ECFACTS_OUT   = directory receiving <crate>-<pid>.json (one write per process)
//!      ECFACTS_CRATES= comma separated crate names to dump (others compile untouched)
#![feature(rustc_private)]
#![allow(clippy::all)]

extern crate rustc_abi;
extern crate rustc_driver;
extern crate rustc_hir;
extern crate rustc_interface;
extern crate rustc_middle;
extern crate rustc_session;
extern crate rustc_span;

use rustc_driver::{Callbacks, Compilation};
use rustc_hir::def::DefKind;
use rustc_hir::def_id::{DefId, LocalDefId};
use rustc_interface::interface::Compiler;
use rustc_middle::mir::{
    self, AggregateKind, BasicBlock, Body, BorrowKind, CastKind, Const as MirConst, ConstValue,
    Operand, Place, ProjectionElem, Rvalue, StatementKind, TerminatorKind,
};
use rustc_middle::ty::print::with_no_trimmed_paths;
use rustc_middle::ty::util::IntTypeExt;
use rustc_middle::ty::{self, Instance, Ty, TyCtxt, TypeVisitableExt, TypingEnv};
use rustc_span::Span;
use std::fmt::Write as _;

fn esc(s: &str) -> String {
    let mut o = String::with_capacity(s.len() + 2);
    o.push('"');
    for c in s.chars() {
        match c {
            '"' => o.push_str("\\\""),
            '\\' => o.push_str("\\\\"),
            '\n' => o.push_str("\\n"),
            '\r' => o.push_str("\\r"),
            '\t' => o.push_str("\\t"),
            c if (c as u32) < 0x20 => {
                let _ = write!(o, "\\u{:04x}", c as u32);
            }
            c => o.push(c),
        }
    }
    o.push('"');
    o
}

struct Cx<'tcx> {
    tcx: TyCtxt<'tcx>,
    krate: String,
}

impl<'tcx> Cx<'tcx> {
    fn path(&self, did: DefId) -> String {
        let s = with_no_trimmed_paths!(self.tcx.def_path_str(did));
        if did.is_local() {
            format!("{}::{}", self.krate, s)
        } else {
            s
        }
    }

    fn ty(&self, t: Ty<'tcx>) -> String {
        with_no_trimmed_paths!(format!("{}", t))
    }

    fn span(&self, sp: Span) -> String {
        let sm = self.tcx.sess.source_map();
        // use the call-site for macro expansions so that reports point into the crate
        let sp2 = sp.source_callsite();
        let lo = sm.lookup_char_pos(sp2.lo());
        let f = match &lo.file.name {
            rustc_span::FileName::Real(r) => match r.local_path() {
                Some(p) => p.to_string_lossy().to_string(),
                None => format!("{:?}", lo.file.name),
            },
            o => format!("{:?}", o),
        };
        format!("{}:{}:{}", f, lo.line, lo.col.0 + 1)
    }

    fn expn(&self, sp: Span) -> String {
        if !sp.from_expansion() {
            return "null".into();
        }
        let d = sp.ctxt().outer_expn_data();
        let name = match d.kind {
            rustc_span::ExpnKind::Macro(_, n) => n.to_string(),
            rustc_span::ExpnKind::Desugaring(k) => format!("desugar:{:?}", k),
            rustc_span::ExpnKind::AstPass(k) => format!("astpass:{:?}", k),
            rustc_span::ExpnKind::Root => "root".to_string(),
        };
        esc(&name)
    }

    fn adt_field_name(&self, base: Ty<'tcx>, variant: Option<rustc_abi::VariantIdx>, f: usize) -> Option<(String, String)> {
        match base.kind() {
            ty::Adt(adt, _) => {
                let v = match variant {
                    Some(v) => adt.variant(v),
                    None => {
                        if adt.is_enum() {
                            return None;
                        }
                        adt.non_enum_variant()
                    }
                };
                let fd = v.fields.iter().nth(f)?;
                Some((self.path(adt.did()), fd.name.to_string()))
            }
            _ => None,
        }
    }

    fn place(&self, body: &Body<'tcx>, p: &Place<'tcx>) -> String {
        let mut o = String::new();
        let _ = write!(o, "{{\"l\":{},\"p\":[", p.local.as_usize());
        let mut first = true;
        for (base, elem) in p.iter_projections() {
            if !first {
                o.push(',');
            }
            first = false;
            let bty = base.ty(&body.local_decls, self.tcx);
            match elem {
                ProjectionElem::Deref => o.push_str("\"*\""),
                ProjectionElem::Field(f, fty) => {
                    let idx = f.as_usize();
                    match self.adt_field_name(bty.ty, bty.variant_index, idx) {
                        Some((adt, name)) => {
                            let _ = write!(o, "{{\"f\":{},\"n\":{},\"adt\":{}", idx, esc(&name), esc(&adt));
                        }
                        None => {
                            let kind = match bty.ty.kind() {
                                ty::Closure(..) | ty::Coroutine(..) | ty::CoroutineClosure(..) => "upvar",
                                ty::Tuple(..) => "tuple",
                                _ => "other",
                            };
                            let _ = write!(o, "{{\"f\":{},\"k\":{}", idx, esc(kind));
                        }
                    }
                    let _ = write!(o, ",\"ty\":{}}}", esc(&self.ty(fty)));
                }
                ProjectionElem::Index(l) => {
                    let _ = write!(o, "{{\"idx\":{}}}", l.as_usize());
                }
                ProjectionElem::ConstantIndex { offset, min_length, from_end } => {
                    let _ = write!(o, "{{\"cidx\":{},\"min\":{},\"from_end\":{}}}", offset, min_length, from_end);
                }
                ProjectionElem::Subslice { from, to, from_end } => {
                    let _ = write!(o, "{{\"sub\":[{},{}],\"from_end\":{}}}", from, to, from_end);
                }
                ProjectionElem::Downcast(name, vi) => {
                    let n = match name {
                        Some(s) => s.to_string(),
                        None => match bty.ty.kind() {
                            ty::Adt(adt, _) => adt.variant(vi).name.to_string(),
                            _ => format!("{}", vi.as_usize()),
                        },
                    };
                    let _ = write!(o, "{{\"dc\":{},\"vi\":{}}}", esc(&n), vi.as_usize());
                }
                ProjectionElem::OpaqueCast(_) => o.push_str("\"opaque\""),
                ProjectionElem::UnwrapUnsafeBinder(_) => o.push_str("\"unwrap_binder\""),
            }
        }
        o.push_str("]}");
        o
    }

    fn scalar_of_ty(&self, t: Ty<'tcx>, bits: u128, size: u64) -> String {
        // signed interpretation where the type is a signed int
        match t.kind() {
            ty::Int(_) => {
                let sh = 128 - size * 8;
                let v = if size == 0 { 0 } else { ((bits << sh) as i128) >> sh };
                format!("{}", v)
            }
            _ => format!("{}", bits),
        }
    }

    fn konst(&self, env: TypingEnv<'tcx>, c: &mir::ConstOperand<'tcx>) -> String {
        let t = c.const_.ty();
        let mut o = String::new();
        let _ = write!(o, "{{\"ty\":{}", esc(&self.ty(t)));
        match t.kind() {
            ty::FnDef(did, args) => {
                let _ = write!(o, ",\"fn\":{}", esc(&self.path(*did)));
                let _ = write!(o, ",\"res\":{}", self.resolve(env, *did, args));
            }
            _ => {}
        }
        match c.const_ {
            MirConst::Unevaluated(uv, _) => {
                let _ = write!(o, ",\"def\":{}", esc(&self.path(uv.def)));
                if !uv.args.is_empty() {
                    let _ = write!(o, ",\"cargs\":{}", esc(&with_no_trimmed_paths!(format!("{:?}", uv.args))));
                }
                if uv.promoted.is_some() {
                    o.push_str(",\"promoted\":true");
                }
            }
            MirConst::Ty(_, ct) => {
                let _ = write!(o, ",\"tyconst\":{}", esc(&with_no_trimmed_paths!(format!("{}", ct))));
            }
            MirConst::Val(..) => {}
        }
        // evaluate scalars where possible (never for promoteds of this body: mir_promoted steals)
        let is_promoted = matches!(c.const_, MirConst::Unevaluated(uv, _) if uv.promoted.is_some());
        if !is_promoted && (t.is_integral() || t.is_bool() || t.is_char() || matches!(t.kind(), ty::Adt(a, _) if a.is_enum())) {
            let needs_subst = matches!(c.const_, MirConst::Unevaluated(uv, _) if uv.args.iter().any(|a| a.has_param()))
                || matches!(c.const_, MirConst::Ty(..));
            if !needs_subst || t.is_integral() {
                if let Some(si) = self.try_scalar(env, c) {
                    let size = si.size().bytes();
                    let bits = si.to_bits(si.size());
                    let _ = write!(o, ",\"v\":{}", self.scalar_of_ty(t, bits, size));
                    if let ty::Adt(a, _) = t.kind() {
                        if a.is_enum() {
                            for (vi, d) in a.discriminants(self.tcx) {
                                if d.val == bits {
                                    let _ = write!(o, ",\"variant\":{}", esc(&a.variant(vi).name.to_string()));
                                }
                            }
                        }
                    }
                }
            }
        } else if let MirConst::Val(ConstValue::Slice { .. }, _) = c.const_ {
            // string literal
            if let ty::Ref(_, inner, _) = t.kind() {
                if inner.is_str() {
                    if let Some(b) = match c.const_ { MirConst::Val(v, _) => v.try_get_slice_bytes_for_diagnostics(self.tcx), _ => None } {
                        let s = String::from_utf8_lossy(b);
                        let s: String = s.chars().take(120).collect();
                        let _ = write!(o, ",\"str\":{}", esc(&s));
                    }
                }
            }
        }
        o.push('}');
        o
    }

    fn try_scalar(&self, env: TypingEnv<'tcx>, c: &mir::ConstOperand<'tcx>) -> Option<ty::ScalarInt> {
        match c.const_ {
            MirConst::Val(ConstValue::Scalar(mir::interpret::Scalar::Int(i)), _) => Some(i),
            MirConst::Val(..) => None,
            MirConst::Ty(_, ct) => ct.try_to_leaf(),
            MirConst::Unevaluated(uv, _) => {
                if uv.args.iter().any(|a| a.has_param()) {
                    return None;
                }
                match self.tcx.const_eval_resolve(env, uv, c.span) {
                    Ok(ConstValue::Scalar(mir::interpret::Scalar::Int(i))) => Some(i),
                    _ => None,
                }
            }
        }
    }

    fn resolve(&self, env: TypingEnv<'tcx>, did: DefId, args: ty::GenericArgsRef<'tcx>) -> String {
        // only trait methods need resolution
        if self.tcx.trait_of_assoc(did).is_none() {
            return "null".into();
        }
        let r = std::panic::catch_unwind(std::panic::AssertUnwindSafe(|| Instance::try_resolve(self.tcx, env, did, args)));
        match r {
            Ok(Ok(Some(inst))) => {
                let rd = inst.def_id();
                if rd == did {
                    "null".into()
                } else {
                    esc(&self.path(rd))
                }
            }
            _ => "null".into(),
        }
    }

    fn operand(&self, body: &Body<'tcx>, env: TypingEnv<'tcx>, op: &Operand<'tcx>) -> String {
        match op {
            Operand::Copy(p) => format!("{{\"copy\":{}}}", self.place(body, p)),
            Operand::Move(p) => format!("{{\"move\":{}}}", self.place(body, p)),
            Operand::Constant(c) => format!("{{\"const\":{}}}", self.konst(env, c)),
            #[allow(unreachable_patterns)]
            _ => "{\"other\":true}".into(),
        }
    }

    fn rvalue(&self, body: &Body<'tcx>, env: TypingEnv<'tcx>, rv: &Rvalue<'tcx>) -> String {
        let op = |o: &Operand<'tcx>| self.operand(body, env, o);
        match rv {
            Rvalue::Use(o, _) => format!("{{\"k\":\"use\",\"a\":[{}]}}", op(o)),
            Rvalue::Repeat(o, n) => format!(
                "{{\"k\":\"repeat\",\"a\":[{}],\"n\":{}}}",
                op(o),
                esc(&with_no_trimmed_paths!(format!("{}", n)))
            ),
            Rvalue::Ref(_, bk, p) => {
                let m = match bk {
                    BorrowKind::Shared => "shared",
                    BorrowKind::Fake(_) => "fake",
                    BorrowKind::Mut { .. } => "mut",
                };
                format!("{{\"k\":\"ref\",\"m\":\"{}\",\"place\":{}}}", m, self.place(body, p))
            }
            Rvalue::RawPtr(k, p) => format!(
                "{{\"k\":\"rawptr\",\"m\":{},\"place\":{}}}",
                esc(&format!("{:?}", k)),
                self.place(body, p)
            ),
            Rvalue::ThreadLocalRef(d) => format!("{{\"k\":\"tls\",\"def\":{}}}", esc(&self.path(*d))),
            Rvalue::Cast(ck, o, t) => {
                let k = match ck {
                    CastKind::IntToInt => "IntToInt".to_string(),
                    CastKind::Transmute => "Transmute".to_string(),
                    CastKind::PtrToPtr => "PtrToPtr".to_string(),
                    CastKind::FnPtrToPtr => "FnPtrToPtr".to_string(),
                    CastKind::PointerCoercion(pc, _) => format!("Coerce:{:?}", pc),
                    other => format!("{:?}", other),
                };
                let from = o.ty(&body.local_decls, self.tcx);
                format!(
                    "{{\"k\":\"cast\",\"ck\":{},\"a\":[{}],\"from\":{},\"to\":{}}}",
                    esc(&k),
                    op(o),
                    esc(&self.ty(from)),
                    esc(&self.ty(*t))
                )
            }
            Rvalue::BinaryOp(b, ops) => {
                let lt = ops.0.ty(&body.local_decls, self.tcx);
                format!(
                    "{{\"k\":\"bin\",\"op\":\"{:?}\",\"a\":[{},{}],\"lty\":{}}}",
                    b,
                    op(&ops.0),
                    op(&ops.1),
                    esc(&self.ty(lt))
                )
            }
            Rvalue::UnaryOp(u, o) => {
                let lt = o.ty(&body.local_decls, self.tcx);
                format!("{{\"k\":\"un\",\"op\":\"{:?}\",\"a\":[{}],\"lty\":{}}}", u, op(o), esc(&self.ty(lt)))
            }
            Rvalue::Discriminant(p) => {
                let t = p.ty(&body.local_decls, self.tcx).ty;
                format!("{{\"k\":\"discr\",\"place\":{},\"of\":{}}}", self.place(body, p), esc(&self.ty(t)))
            }
            Rvalue::Aggregate(ak, ops) => {
                let mut o = String::from("{\"k\":\"agg\",");
                match &**ak {
                    AggregateKind::Array(t) => {
                        let _ = write!(o, "\"ak\":\"array\",\"elem\":{}", esc(&self.ty(*t)));
                    }
                    AggregateKind::Tuple => o.push_str("\"ak\":\"tuple\""),
                    AggregateKind::Adt(did, vi, args, _, active) => {
                        let adt = self.tcx.adt_def(*did);
                        let v = adt.variant(*vi);
                        let _ = write!(
                            o,
                            "\"ak\":\"adt\",\"adt\":{},\"variant\":{},\"vi\":{},\"is_enum\":{},\"args\":{}",
                            esc(&self.path(*did)),
                            esc(&v.name.to_string()),
                            vi.as_usize(),
                            adt.is_enum(),
                            esc(&with_no_trimmed_paths!(format!("{:?}", args)))
                        );
                        o.push_str(",\"fields\":[");
                        if let Some(a) = active {
                            let _ = write!(o, "{}", esc(&v.fields[*a].name.to_string()));
                        } else {
                            for (i, f) in v.fields.iter().enumerate() {
                                if i > 0 {
                                    o.push(',');
                                }
                                o.push_str(&esc(&f.name.to_string()));
                            }
                        }
                        o.push(']');
                    }
                    AggregateKind::Closure(did, _) => {
                        let _ = write!(o, "\"ak\":\"closure\",\"def\":{}", esc(&self.path(*did)));
                    }
                    AggregateKind::Coroutine(did, _) => {
                        let _ = write!(o, "\"ak\":\"coroutine\",\"def\":{}", esc(&self.path(*did)));
                    }
                    AggregateKind::CoroutineClosure(did, _) => {
                        let _ = write!(o, "\"ak\":\"coroutine_closure\",\"def\":{}", esc(&self.path(*did)));
                    }
                    AggregateKind::RawPtr(t, _) => {
                        let _ = write!(o, "\"ak\":\"rawptr\",\"elem\":{}", esc(&self.ty(*t)));
                    }
                }
                o.push_str(",\"a\":[");
                for (i, x) in ops.iter().enumerate() {
                    if i > 0 {
                        o.push(',');
                    }
                    o.push_str(&op(x));
                }
                o.push_str("]}");
                o
            }
            Rvalue::CopyForDeref(p) => format!("{{\"k\":\"use\",\"a\":[{{\"copy\":{}}}]}}", self.place(body, p)),
            Rvalue::WrapUnsafeBinder(o, _) => format!("{{\"k\":\"use\",\"a\":[{}]}}", op(o)),
            #[allow(unreachable_patterns)]
            other => format!("{{\"k\":\"other\",\"dbg\":{}}}", esc(&format!("{:?}", other))),
        }
    }

    fn body_json(&self, def: LocalDefId, body: &Body<'tcx>) -> String {
        let tcx = self.tcx;
        let did = def.to_def_id();
        let env = TypingEnv::post_analysis(tcx, did);
        let mut o = String::with_capacity(8192);
        let kind = tcx.def_kind(did);
        let root = tcx.typeck_root_def_id(did);
        let _ = write!(o, "{{\"path\":{},\"kind\":{}", esc(&self.path(did)), esc(&format!("{:?}", kind)));
        let _ = write!(o, ",\"root\":{}", esc(&self.path(root)));
        if let Some(p) = tcx.opt_parent(did) {
            if did != root {
                let _ = write!(o, ",\"parent\":{}", esc(&self.path(p)));
            }
        }
        let is_cor = tcx.is_coroutine(did);
        let _ = write!(o, ",\"coroutine\":{}", is_cor);
        if is_cor {
            let _ = write!(o, ",\"coroutine_kind\":{}", esc(&format!("{:?}", tcx.coroutine_kind(did))));
        }
        // impl info of the root
        if matches!(tcx.def_kind(root), DefKind::AssocFn | DefKind::AssocConst { .. }) {
            if let Some(impl_did) = tcx.opt_parent(root) {
                if let DefKind::Impl { of_trait } = tcx.def_kind(impl_did) {
                    let st = tcx.type_of(impl_did).instantiate_identity().skip_norm_wip();
                    let _ = write!(o, ",\"impl_self\":{}", esc(&self.ty(st)));
                    if let ty::Adt(a, _) = st.kind() {
                        let _ = write!(o, ",\"impl_adt\":{}", esc(&self.path(a.did())));
                    }
                    if of_trait {
                        let tr = tcx.impl_trait_ref(impl_did).instantiate_identity().skip_norm_wip();
                        let _ = write!(o, ",\"impl_trait\":{}", esc(&self.path(tr.def_id)));
                    }
                } else if let DefKind::Trait = tcx.def_kind(impl_did) {
                    let _ = write!(o, ",\"in_trait\":{}", esc(&self.path(impl_did)));
                }
            }
        }
        if matches!(tcx.def_kind(root), DefKind::Fn | DefKind::AssocFn) {
            let vis = tcx.visibility(root);
            let _ = write!(o, ",\"vis\":{}", esc(&format!("{:?}", vis)));
            let sig = tcx.fn_sig(root).instantiate_identity().skip_norm_wip();
            let _ = write!(o, ",\"unsafe\":{}", sig.safety().is_unsafe());
        }
        let _ = write!(o, ",\"span\":{},\"expn\":{}", esc(&self.span(body.span)), self.expn(body.span));
        let _ = write!(o, ",\"arg_count\":{}", body.arg_count);
        // locals
        o.push_str(",\"locals\":[");
        for (i, (_, d)) in body.local_decls.iter_enumerated().enumerate() {
            if i > 0 {
                o.push(',');
            }
            let _ = write!(o, "{{\"ty\":{}}}", esc(&self.ty(d.ty)));
        }
        o.push(']');
        // debug names
        o.push_str(",\"dbg\":[");
        let mut first = true;
        for v in &body.var_debug_info {
            if let mir::VarDebugInfoContents::Place(p) = &v.value {
                if !first {
                    o.push(',');
                }
                first = false;
                let _ = write!(o, "{{\"n\":{},\"place\":{}}}", esc(&v.name.to_string()), self.place(body, p));
            }
        }
        o.push(']');
        // blocks
        o.push_str(",\"blocks\":[");
        for (bi, (_, bb)) in body.basic_blocks.iter_enumerated().enumerate() {
            if bi > 0 {
                o.push(',');
            }
            let _ = write!(o, "{{\"cleanup\":{},\"stmts\":[", bb.is_cleanup);
            let mut first = true;
            for st in &bb.statements {
                let s = match &st.kind {
                    StatementKind::Assign(b) => {
                        let (p, rv) = &**b;
                        Some(format!(
                            "{{\"k\":\"assign\",\"place\":{},\"rv\":{},\"sp\":{},\"expn\":{}}}",
                            self.place(body, p),
                            self.rvalue(body, env, rv),
                            esc(&self.span(st.source_info.span)),
                            self.expn(st.source_info.span)
                        ))
                    }
                    StatementKind::SetDiscriminant { place, variant_index } => Some(format!(
                        "{{\"k\":\"setdiscr\",\"place\":{},\"vi\":{}}}",
                        self.place(body, place),
                        variant_index.as_usize()
                    )),
                    StatementKind::StorageDead(l) => Some(format!("{{\"k\":\"dead\",\"l\":{}}}", l.as_usize())),
                    StatementKind::Intrinsic(i) => Some(format!(
                        "{{\"k\":\"intrinsic\",\"dbg\":{}}}",
                        esc(&format!("{:?}", i))
                    )),
                    _ => None,
                };
                if let Some(s) = s {
                    if !first {
                        o.push(',');
                    }
                    first = false;
                    o.push_str(&s);
                }
            }
            o.push_str("],\"term\":");
            let t = bb.terminator();
            let bbn = |b: BasicBlock| b.as_usize();
            let ts = match &t.kind {
                TerminatorKind::Goto { target } => format!("{{\"k\":\"goto\",\"t\":{}}}", bbn(*target)),
                TerminatorKind::SwitchInt { discr, targets } => {
                    let dt = discr.ty(&body.local_decls, tcx);
                    let mut s = format!(
                        "{{\"k\":\"switch\",\"d\":{},\"dty\":{},\"arms\":[",
                        self.operand(body, env, discr),
                        esc(&self.ty(dt))
                    );
                    for (i, (v, tg)) in targets.iter().enumerate() {
                        if i > 0 {
                            s.push(',');
                        }
                        let _ = write!(s, "[{},{}]", v, bbn(tg));
                    }
                    let _ = write!(s, "],\"otherwise\":{}}}", bbn(targets.otherwise()));
                    s
                }
                TerminatorKind::UnwindResume => "{\"k\":\"resume\"}".into(),
                TerminatorKind::UnwindTerminate(_) => "{\"k\":\"terminate\"}".into(),
                TerminatorKind::Return => "{\"k\":\"return\"}".into(),
                TerminatorKind::Unreachable => "{\"k\":\"unreachable\"}".into(),
                TerminatorKind::Drop { place, target, unwind, .. } => {
                    let pt = place.ty(&body.local_decls, tcx).ty;
                    format!(
                        "{{\"k\":\"drop\",\"place\":{},\"ty\":{},\"t\":{},\"unwind\":{}}}",
                        self.place(body, place),
                        esc(&self.ty(pt)),
                        bbn(*target),
                        match unwind {
                            mir::UnwindAction::Cleanup(b) => format!("{}", bbn(*b)),
                            _ => "null".into(),
                        }
                    )
                }
                TerminatorKind::Call { func, args, destination, target, unwind, fn_span, .. } => {
                    let mut s = String::from("{\"k\":\"call\"");
                    let fty = func.ty(&body.local_decls, tcx);
                    match fty.kind() {
                        ty::FnDef(cd, cargs) => {
                            let _ = write!(s, ",\"callee\":{}", esc(&self.path(*cd)));
                            let _ = write!(s, ",\"res\":{}", self.resolve(env, *cd, cargs));
                            let _ = write!(s, ",\"gargs\":{}", esc(&with_no_trimmed_paths!(format!("{:?}", cargs))));
                            if let Some(tr) = tcx.trait_of_assoc(*cd) {
                                let _ = write!(s, ",\"trait\":{}", esc(&self.path(tr)));
                                if cargs.len() > 0 {
                                    if let Some(st) = cargs[0].as_type() {
                                        let _ = write!(s, ",\"self_ty\":{}", esc(&self.ty(st)));
                                    }
                                }
                            } else if let Some(p) = tcx.opt_parent(*cd) {
                                if let DefKind::Impl { .. } = tcx.def_kind(p) {
                                    let st = tcx.type_of(p).instantiate_identity().skip_norm_wip();
                                    if let ty::Adt(a, _) = st.kind() {
                                        let _ = write!(s, ",\"self_adt\":{}", esc(&self.path(a.did())));
                                    }
                                }
                            }
                        }
                        _ => {
                            let _ = write!(s, ",\"indirect\":{},\"fty\":{}", self.operand(body, env, func), esc(&self.ty(fty)));
                        }
                    }
                    s.push_str(",\"args\":[");
                    for (i, a) in args.iter().enumerate() {
                        if i > 0 {
                            s.push(',');
                        }
                        s.push_str(&self.operand(body, env, &a.node));
                    }
                    let _ = write!(s, "],\"dest\":{}", self.place(body, destination));
                    let _ = write!(
                        s,
                        ",\"t\":{},\"unwind\":{},\"sp\":{},\"expn\":{}}}",
                        match target {
                            Some(b) => format!("{}", bbn(*b)),
                            None => "null".into(),
                        },
                        match unwind {
                            mir::UnwindAction::Cleanup(b) => format!("{}", bbn(*b)),
                            _ => "null".into(),
                        },
                        esc(&self.span(*fn_span)),
                        self.expn(t.source_info.span)
                    );
                    s
                }
                TerminatorKind::TailCall { .. } => "{\"k\":\"tailcall\"}".into(),
                TerminatorKind::Assert { cond, expected, msg, target, .. } => {
                    use rustc_middle::mir::AssertKind as AK;
                    let (kind, ops): (String, Vec<&Operand<'tcx>>) = match &**msg {
                        AK::BoundsCheck { len, index } => ("BoundsCheck".into(), vec![len, index]),
                        AK::Overflow(b, l, r) => (format!("Overflow:{:?}", b), vec![l, r]),
                        AK::OverflowNeg(x) => ("OverflowNeg".into(), vec![x]),
                        AK::DivisionByZero(x) => ("DivisionByZero".into(), vec![x]),
                        AK::RemainderByZero(x) => ("RemainderByZero".into(), vec![x]),
                        AK::MisalignedPointerDereference { .. } => ("Misaligned".into(), vec![]),
                        AK::NullPointerDereference => ("NullDeref".into(), vec![]),
                        other => (format!("Other:{:?}", std::mem::discriminant(other)), vec![]),
                    };
                    let mut s = format!(
                        "{{\"k\":\"assert\",\"cond\":{},\"expected\":{},\"ak\":{},\"ops\":[",
                        self.operand(body, env, cond),
                        expected,
                        esc(&kind)
                    );
                    for (i, x) in ops.iter().enumerate() {
                        if i > 0 {
                            s.push(',');
                        }
                        s.push_str(&self.operand(body, env, x));
                    }
                    let _ = write!(
                        s,
                        "],\"t\":{},\"sp\":{},\"expn\":{}}}",
                        bbn(*target),
                        esc(&self.span(t.source_info.span)),
                        self.expn(t.source_info.span)
                    );
                    s
                }
                TerminatorKind::Yield { value, resume, resume_arg, .. } => format!(
                    "{{\"k\":\"yield\",\"v\":{},\"t\":{},\"resume_arg\":{}}}",
                    self.operand(body, env, value),
                    bbn(*resume),
                    self.place(body, resume_arg)
                ),
                TerminatorKind::CoroutineDrop => "{\"k\":\"coroutine_drop\"}".into(),
                TerminatorKind::FalseEdge { real_target, .. } => format!("{{\"k\":\"goto\",\"t\":{},\"false\":true}}", bbn(*real_target)),
                TerminatorKind::FalseUnwind { real_target, .. } => format!("{{\"k\":\"goto\",\"t\":{},\"false\":true}}", bbn(*real_target)),
                TerminatorKind::InlineAsm { .. } => "{\"k\":\"asm\"}".into(),
            };
            o.push_str(&ts);
            let _ = write!(o, ",\"tsp\":{}}}", esc(&self.span(t.source_info.span)));
        }
        o.push_str("]}");
        o
    }

    fn crate_facts(&self) -> String {
        let tcx = self.tcx;
        let mut adts = Vec::new();
        let mut impls = Vec::new();
        let mut consts = Vec::new();
        let mut fns = Vec::new();
        for ld in tcx.hir_crate_items(()).definitions() {
            let did = ld.to_def_id();
            match tcx.def_kind(did) {
                DefKind::Struct | DefKind::Enum | DefKind::Union => {
                    let adt = tcx.adt_def(did);
                    let mut s = format!(
                        "{{\"path\":{},\"kind\":{},\"span\":{},\"vis\":{},\"repr\":{},\"variants\":[",
                        esc(&self.path(did)),
                        esc(&format!("{:?}", tcx.def_kind(did))),
                        esc(&self.span(tcx.def_span(did))),
                        esc(&format!("{:?}", tcx.visibility(did))),
                        esc(&format!("{:?}", adt.repr()))
                    );
                    let discrs: Vec<(rustc_abi::VariantIdx, u128)> = if adt.is_enum() {
                        adt.discriminants(tcx).map(|(v, d)| (v, d.val)).collect()
                    } else {
                        vec![]
                    };
                    let dty = if adt.is_enum() { Some(adt.repr().discr_type().to_ty(tcx)) } else { None };
                    for (i, (vi, v)) in adt.variants().iter_enumerated().enumerate() {
                        if i > 0 {
                            s.push(',');
                        }
                        let _ = write!(s, "{{\"name\":{}", esc(&v.name.to_string()));
                        if let Some((_, d)) = discrs.iter().find(|(x, _)| *x == vi) {
                            let t = dty.unwrap();
                            let size = match t.kind() {
                                ty::Int(it) => it.bit_width().map(|b| b / 8).unwrap_or(8),
                                ty::Uint(ut) => ut.bit_width().map(|b| b / 8).unwrap_or(8),
                                _ => 16,
                            };
                            let _ = write!(s, ",\"discr\":{}", self.scalar_of_ty(t, *d, size));
                        }
                        s.push_str(",\"fields\":[");
                        for (j, f) in v.fields.iter().enumerate() {
                            if j > 0 {
                                s.push(',');
                            }
                            let ft = tcx.type_of(f.did).instantiate_identity().skip_norm_wip();
                            let _ = write!(
                                s,
                                "{{\"name\":{},\"ty\":{},\"vis\":{}}}",
                                esc(&f.name.to_string()),
                                esc(&self.ty(ft)),
                                esc(&format!("{:?}", f.vis))
                            );
                        }
                        s.push_str("]}");
                    }
                    s.push_str("]}");
                    adts.push(s);
                }
                DefKind::Impl { of_trait } => {
                    let st = tcx.type_of(did).instantiate_identity().skip_norm_wip();
                    let mut s = format!(
                        "{{\"self\":{},\"span\":{},\"expn\":{}",
                        esc(&self.ty(st)),
                        esc(&self.span(tcx.def_span(did))),
                        self.expn(tcx.def_span(did))
                    );
                    if let ty::Adt(a, _) = st.kind() {
                        let _ = write!(s, ",\"self_adt\":{}", esc(&self.path(a.did())));
                    }
                    if of_trait {
                        let hdr = tcx.impl_trait_header(did);
                        let tr = hdr.trait_ref.instantiate_identity().skip_norm_wip();
                        let _ = write!(
                            s,
                            ",\"trait\":{},\"trait_ref\":{},\"unsafe\":{},\"negative\":{}",
                            esc(&self.path(tr.def_id)),
                            esc(&with_no_trimmed_paths!(format!("{}", tr))),
                            hdr.safety.is_unsafe(),
                            matches!(hdr.polarity, ty::ImplPolarity::Negative)
                        );
                    }
                    s.push_str(",\"items\":[");
                    for (i, it) in tcx.associated_item_def_ids(did).iter().enumerate() {
                        if i > 0 {
                            s.push(',');
                        }
                        s.push_str(&esc(&self.path(*it)));
                    }
                    s.push_str("]}");
                    impls.push(s);
                }
                DefKind::Const { .. } | DefKind::AssocConst { .. } => {
                    let g = tcx.generics_of(did);
                    if g.count() != 0 {
                        continue;
                    }
                    // skip trait-declared assoc consts without a value
                    if matches!(tcx.def_kind(did), DefKind::AssocConst { .. }) {
                        if let Some(p) = tcx.opt_parent(did) {
                            if tcx.def_kind(p) == DefKind::Trait {
                                continue;
                            }
                            if tcx.generics_of(p).count() != 0 {
                                continue;
                            }
                        }
                    }
                    let t = tcx.type_of(did).instantiate_identity().skip_norm_wip();
                    let mut s = format!("{{\"path\":{},\"ty\":{},\"span\":{}", esc(&self.path(did)), esc(&self.ty(t)), esc(&self.span(tcx.def_span(did))));
                    if t.is_integral() || t.is_bool() {
                        if let Ok(ConstValue::Scalar(mir::interpret::Scalar::Int(i))) = tcx.const_eval_poly(did) {
                            let _ = write!(s, ",\"v\":{}", self.scalar_of_ty(t, i.to_bits(i.size()), i.size().bytes()));
                        }
                    }
                    s.push('}');
                    consts.push(s);
                }
                DefKind::Fn | DefKind::AssocFn => {
                    let sig = tcx.fn_sig(did).instantiate_identity().skip_norm_wip();
                    let mut s = format!(
                        "{{\"path\":{},\"vis\":{},\"unsafe\":{},\"sig\":{},\"span\":{},\"expn\":{},\"has_body\":{}",
                        esc(&self.path(did)),
                        esc(&format!("{:?}", tcx.visibility(did))),
                        sig.safety().is_unsafe(),
                        esc(&with_no_trimmed_paths!(format!("{}", sig))),
                        esc(&self.span(tcx.def_span(did))),
                        self.expn(tcx.def_span(did)),
                        tcx.hir_maybe_body_owned_by(ld).is_some()
                    );
                    let _ = write!(s, ",\"asyncness\":{}", tcx.asyncness(did).is_async());
                    s.push('}');
                    fns.push(s);
                }
                _ => {}
            }
        }
        format!(
            "\"adts\":[{}],\"impls\":[{}],\"consts\":[{}],\"fns\":[{}]",
            adts.join(","),
            impls.join(","),
            consts.join(","),
            fns.join(",")
        )
    }
}

struct Cb {
    crates: Vec<String>,
    out: String,
}

impl Callbacks for Cb {
    fn after_expansion<'tcx>(&mut self, _c: &Compiler, tcx: TyCtxt<'tcx>) -> Compilation {
        let krate = tcx.crate_name(rustc_hir::def_id::LOCAL_CRATE).to_string();
        if !self.crates.iter().any(|c| *c == krate) {
            return Compilation::Continue;
        }
        let cx = Cx { tcx, krate: krate.clone() };
        let mut bodies = Vec::new();
        let mut cloned: Vec<(LocalDefId, Body<'tcx>)> = Vec::new();
        let mut skipped = 0usize;
        let mut owners: Vec<(bool, LocalDefId)> = Vec::new();
        let mut stolen: Vec<String> = Vec::new();
        for def in tcx.hir_body_owners() {
            let kind = tcx.def_kind(def.to_def_id());
            match kind {
                DefKind::Fn | DefKind::AssocFn | DefKind::Closure | DefKind::Const { .. } | DefKind::AssocConst { .. } | DefKind::Static { .. } | DefKind::InlineConst | DefKind::AnonConst => {}
                _ => {
                    skipped += 1;
                    continue;
                }
            }
            if matches!(kind, DefKind::AnonConst) {
                // array lengths etc; no useful control flow
                skipped += 1;
                continue;
            }
            owners.push((!matches!(kind, DefKind::Const { .. } | DefKind::AssocConst { .. } | DefKind::Static { .. } | DefKind::InlineConst), def));
        }
        // constants first: type checking of later bodies may evaluate (and thereby steal) them
        owners.sort_by_key(|(k, _)| *k);
        for (_, def) in &owners {
            let steal = tcx.mir_built(*def);
            if steal.is_stolen() {
                stolen.push(esc(&cx.path(def.to_def_id())));
                continue;
            }
            let body: Body<'tcx> = steal.borrow().clone();
            cloned.push((*def, body));
        }
        // second phase: serialise (const evaluation may steal mir_built of const bodies, hence the clones)
        for (def, body) in &cloned {
            bodies.push(cx.body_json(*def, body));
        }
        let cfgs: Vec<String> = std::env::args().collect();
        let mut feats = Vec::new();
        let mut it = cfgs.iter();
        while let Some(a) = it.next() {
            if a == "--cfg" {
                if let Some(v) = it.next() {
                    feats.push(esc(v));
                }
            }
        }
        let is_test = cfgs.iter().any(|a| a == "--test");
        let out = format!(
            "{{\"crate\":{},\"is_test\":{},\"cfg\":[{}],\"skipped\":{},\"stolen\":[{}],{},\"bodies\":[\n{}\n]}}\n",
            esc(&krate),
            is_test,
            feats.join(","),
            skipped,
            stolen.join(","),
            cx.crate_facts(),
            bodies.join(",\n")
        );
        let path = format!("{}/{}-{}{}.json", self.out, krate, std::process::id(), if is_test { "-test" } else { "" });
        std::fs::write(&path, out).expect("ecfacts: cannot write facts");
        Compilation::Continue
    }
}

fn main() -> std::process::ExitCode {
    // argv: [driver, rustc, args...] under RUSTC_WORKSPACE_WRAPPER
    let mut args: Vec<String> = std::env::args().collect();
    if args.len() > 1 && (args[1].ends_with("rustc") || args[1].contains("/rustc")) {
        args.remove(1);
    }
    let crates: Vec<String> = std::env::var("ECFACTS_CRATES")
        .unwrap_or_default()
        .split(',')
        .filter(|s| !s.is_empty())
        .map(|s| s.to_string())
        .collect();
    let out = std::env::var("ECFACTS_OUT").unwrap_or_else(|_| ".".into());
    let mut cb = Cb { crates, out };
    let code = rustc_driver::catch_with_exit_code(|| {
        rustc_driver::run_compiler(&args, &mut cb);
    });
    // propagate compile errors to cargo: a tree that does not build must not yield facts
    code
}
