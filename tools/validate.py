#!/usr/bin/env python3-vt
"""Validate MANIFEST.json and evidence files against the schemas (tooling venv has jsonschema)."""
import glob, json, sys
import jsonschema
ok = True
m = json.load(open('/verif/MANIFEST.json'))
jsonschema.validate(m, json.load(open('/root/.vp/MANIFEST.schema.json')))
es = json.load(open('/root/.vp/EVIDENCE.schema.json'))
for c in m['checks']:
    f = '/verif/' + c['evidence_file']
    try:
        jsonschema.validate(json.load(open(f)), es)
    except Exception as e:
        ok = False
        print('BAD', f, str(e)[:300])
ids = {c['property_id'] for c in m['checks']} | {n['property_id'] for n in m.get('not_applicable', [])}
allp = {json.loads(l)['id'] for l in open('/verif/properties.jsonl')}
if ids != allp:
    ok = False
    print('property coverage mismatch', sorted(allp ^ ids))
print('valid' if ok else 'INVALID')
sys.exit(0 if ok else 1)
