//! ecsyn: declared-layout extractor. Parses the *unexpanded* sources with syn and prints, for every
//! item deriving EtherCrabWire{Read,Write,ReadWrite}, its `#[wire(..)]` / `#[repr(..)]` attributes,
//! fields and variants as JSON. Never looks at expanded code: it supplies the *declared* side of the
//! C19 / C04 / C12 comparisons.
//!
//! usage: ecsyn [--feature f]... <file-or-dir>...
use std::collections::BTreeSet;
use std::fmt::Write as _;
use std::path::{Path, PathBuf};
use syn::visit::Visit;
use syn::{Attribute, Expr, ExprLit, ExprUnary, Fields, Lit, Meta, UnOp};

fn esc(s: &str) -> String {
    let mut o = String::from("\"");
    for c in s.chars() {
        match c {
            '"' => o.push_str("\\\""),
            '\\' => o.push_str("\\\\"),
            '\n' => o.push_str("\\n"),
            '\t' => o.push_str("\\t"),
            c if (c as u32) < 0x20 => {
                let _ = write!(o, "\\u{:04x}", c as u32);
            }
            c => o.push(c),
        }
    }
    o.push('"');
    o
}

struct Cfg {
    features: BTreeSet<String>,
}

impl Cfg {
    fn eval(&self, m: &Meta) -> bool {
        match m {
            Meta::Path(p) => {
                let n = p.get_ident().map(|i| i.to_string()).unwrap_or_default();
                match n.as_str() {
                    "test" | "doc" | "docsrs" | "miri" => false,
                    "unix" => true,
                    _ => false,
                }
            }
            Meta::NameValue(nv) => {
                let n = nv.path.get_ident().map(|i| i.to_string()).unwrap_or_default();
                if n == "feature" {
                    if let Expr::Lit(ExprLit { lit: Lit::Str(s), .. }) = &nv.value {
                        return self.features.contains(&s.value());
                    }
                }
                if n == "target_os" {
                    if let Expr::Lit(ExprLit { lit: Lit::Str(s), .. }) = &nv.value {
                        return s.value() == "linux";
                    }
                }
                false
            }
            Meta::List(l) => {
                let n = l.path.get_ident().map(|i| i.to_string()).unwrap_or_default();
                let inner: Vec<Meta> = l
                    .parse_args_with(syn::punctuated::Punctuated::<Meta, syn::Token![,]>::parse_terminated)
                    .map(|p| p.into_iter().collect())
                    .unwrap_or_default();
                match n.as_str() {
                    "not" => inner.first().map(|m| !self.eval(m)).unwrap_or(false),
                    "all" => inner.iter().all(|m| self.eval(m)),
                    "any" => inner.iter().any(|m| self.eval(m)),
                    _ => false,
                }
            }
        }
    }

    /// Flatten attributes, resolving cfg_attr; returns None if the item is cfg'd out.
    fn effective(&self, attrs: &[Attribute]) -> Option<Vec<Meta>> {
        let mut out = Vec::new();
        for a in attrs {
            if a.path().is_ident("cfg") {
                if let Meta::List(l) = &a.meta {
                    if let Ok(m) = l.parse_args::<Meta>() {
                        if !self.eval(&m) {
                            return None;
                        }
                    }
                }
                continue;
            }
            if a.path().is_ident("cfg_attr") {
                if let Meta::List(l) = &a.meta {
                    if let Ok(p) = l.parse_args_with(syn::punctuated::Punctuated::<Meta, syn::Token![,]>::parse_terminated) {
                        let v: Vec<Meta> = p.into_iter().collect();
                        if let Some((c, rest)) = v.split_first() {
                            if self.eval(c) {
                                out.extend(rest.iter().cloned());
                            }
                        }
                    }
                }
                continue;
            }
            out.push(a.meta.clone());
        }
        Some(out)
    }
}

fn int_of(e: &Expr) -> Option<i128> {
    match e {
        Expr::Lit(ExprLit { lit: Lit::Int(i), .. }) => i.base10_parse::<i128>().ok(),
        Expr::Unary(ExprUnary { op: UnOp::Neg(_), expr, .. }) => int_of(expr).map(|v| -v),
        Expr::Paren(p) => int_of(&p.expr),
        Expr::Group(g) => int_of(&g.expr),
        Expr::Cast(c) => int_of(&c.expr),
        _ => None,
    }
}

fn wire_kv(metas: &[Meta]) -> String {
    // {"bits": 3, "pre_skip": 5, "catch_all": true, "alternatives": [1,2]}
    let mut parts: Vec<String> = Vec::new();
    for m in metas {
        if let Meta::List(l) = m {
            if !l.path.is_ident("wire") {
                continue;
            }
            if let Ok(p) = l.parse_args_with(syn::punctuated::Punctuated::<Meta, syn::Token![,]>::parse_terminated) {
                for kv in p {
                    match kv {
                        Meta::Path(p) => {
                            if let Some(i) = p.get_ident() {
                                parts.push(format!("{}:true", esc(&i.to_string())));
                            }
                        }
                        Meta::NameValue(nv) => {
                            let k = nv.path.get_ident().map(|i| i.to_string()).unwrap_or_default();
                            match &nv.value {
                                Expr::Array(a) => {
                                    let vs: Vec<String> = a.elems.iter().map(|e| int_of(e).map(|v| v.to_string()).unwrap_or_else(|| "null".into())).collect();
                                    parts.push(format!("{}:[{}]", esc(&k), vs.join(",")));
                                }
                                e => match int_of(e) {
                                    Some(v) => parts.push(format!("{}:{}", esc(&k), v)),
                                    None => parts.push(format!("{}:{}", esc(&k), esc(&quote::quote!(#e).to_string()))),
                                },
                            }
                        }
                        Meta::List(_) => {}
                    }
                }
            }
        }
    }
    format!("{{{}}}", parts.join(","))
}

fn derives(metas: &[Meta]) -> Vec<String> {
    let mut out = Vec::new();
    for m in metas {
        if let Meta::List(l) = m {
            if l.path.is_ident("derive") {
                if let Ok(p) = l.parse_args_with(syn::punctuated::Punctuated::<syn::Path, syn::Token![,]>::parse_terminated) {
                    for path in p {
                        if let Some(s) = path.segments.last() {
                            out.push(s.ident.to_string());
                        }
                    }
                }
            }
        }
    }
    out
}

fn repr(metas: &[Meta]) -> String {
    for m in metas {
        if let Meta::List(l) = m {
            if l.path.is_ident("repr") {
                return l.tokens.to_string();
            }
        }
    }
    String::new()
}

fn has_path_attr(metas: &[Meta], name: &str) -> bool {
    metas.iter().any(|m| matches!(m, Meta::Path(p) if p.is_ident(name)))
}

struct V<'a> {
    cfg: &'a Cfg,
    file: String,
    out: &'a mut Vec<String>,
    stack: Vec<String>,
}

impl<'a> V<'a> {
    fn wire_derives(d: &[String]) -> Vec<String> {
        d.iter().filter(|x| x.starts_with("EtherCrabWire")).cloned().collect()
    }
}

impl<'ast, 'a> Visit<'ast> for V<'a> {
    fn visit_item_fn(&mut self, i: &'ast syn::ItemFn) {
        if self.cfg.effective(&i.attrs).is_none() {
            return;
        }
        self.stack.push(i.sig.ident.to_string());
        syn::visit::visit_item_fn(self, i);
        self.stack.pop();
    }

    fn visit_impl_item_fn(&mut self, i: &'ast syn::ImplItemFn) {
        if self.cfg.effective(&i.attrs).is_none() {
            return;
        }
        self.stack.push(i.sig.ident.to_string());
        syn::visit::visit_impl_item_fn(self, i);
        self.stack.pop();
    }

    fn visit_item_mod(&mut self, i: &'ast syn::ItemMod) {
        if self.cfg.effective(&i.attrs).is_none() {
            return;
        }
        syn::visit::visit_item_mod(self, i);
    }

    fn visit_item_struct(&mut self, i: &'ast syn::ItemStruct) {
        let Some(metas) = self.cfg.effective(&i.attrs) else { return };
        let d = derives(&metas);
        let wd = Self::wire_derives(&d);
        if wd.is_empty() {
            return;
        }
        let mut fields = Vec::new();
        if let Fields::Named(n) = &i.fields {
            for f in &n.named {
                let fm = self.cfg.effective(&f.attrs).unwrap_or_default();
                let ty = &f.ty;
                fields.push(format!(
                    "{{\"name\":{},\"ty\":{},\"wire\":{}}}",
                    esc(&f.ident.as_ref().map(|x| x.to_string()).unwrap_or_default()),
                    esc(&quote::quote!(#ty).to_string().replace(' ', "")),
                    wire_kv(&fm)
                ));
            }
        }
        let line = i.ident.span().start().line;
        self.out.push(format!(
            "{{\"kind\":\"struct\",\"name\":{},\"file\":{},\"line\":{},\"enclosing\":{},\"generic\":{},\"derives\":[{}],\"wire\":{},\"repr\":{},\"fields\":[{}]}}",
            esc(&i.ident.to_string()),
            esc(&self.file),
            line,
            esc(&self.stack.join("::")),
            !i.generics.params.is_empty(),
            wd.iter().map(|x| esc(x)).collect::<Vec<_>>().join(","),
            wire_kv(&metas),
            esc(&repr(&metas)),
            fields.join(",")
        ));
    }

    fn visit_item_enum(&mut self, i: &'ast syn::ItemEnum) {
        let Some(metas) = self.cfg.effective(&i.attrs) else { return };
        let d = derives(&metas);
        let wd = Self::wire_derives(&d);
        if wd.is_empty() {
            return;
        }
        let mut vars = Vec::new();
        for v in &i.variants {
            let Some(vm) = self.cfg.effective(&v.attrs) else { continue };
            let (dtxt, dval) = match &v.discriminant {
                Some((_, e)) => (esc(&quote::quote!(#e).to_string()), int_of(e).map(|x| x.to_string()).unwrap_or_else(|| "null".into())),
                None => ("null".into(), "null".into()),
            };
            let nfields = match &v.fields {
                Fields::Unit => 0,
                Fields::Unnamed(u) => u.unnamed.len(),
                Fields::Named(n) => n.named.len(),
            };
            vars.push(format!(
                "{{\"name\":{},\"discr_text\":{},\"discr\":{},\"wire\":{},\"default\":{},\"nfields\":{}}}",
                esc(&v.ident.to_string()),
                dtxt,
                dval,
                wire_kv(&vm),
                has_path_attr(&vm, "default"),
                nfields
            ));
        }
        let line = i.ident.span().start().line;
        self.out.push(format!(
            "{{\"kind\":\"enum\",\"name\":{},\"file\":{},\"line\":{},\"enclosing\":{},\"generic\":{},\"derives\":[{}],\"wire\":{},\"repr\":{},\"variants\":[{}]}}",
            esc(&i.ident.to_string()),
            esc(&self.file),
            line,
            esc(&self.stack.join("::")),
            !i.generics.params.is_empty(),
            wd.iter().map(|x| esc(x)).collect::<Vec<_>>().join(","),
            wire_kv(&metas),
            esc(&repr(&metas)),
            vars.join(",")
        ));
    }
}

fn walk(p: &Path, files: &mut Vec<PathBuf>) {
    if p.is_dir() {
        let mut es: Vec<_> = std::fs::read_dir(p).map(|r| r.filter_map(|e| e.ok()).map(|e| e.path()).collect()).unwrap_or_default();
        es.sort();
        for e in es {
            let n = e.file_name().map(|x| x.to_string_lossy().to_string()).unwrap_or_default();
            if n == "target" || n == ".git" {
                continue;
            }
            walk(&e, files);
        }
    } else if p.extension().map(|x| x == "rs").unwrap_or(false) {
        files.push(p.to_path_buf());
    }
}

fn main() {
    let mut features = BTreeSet::new();
    let mut paths = Vec::new();
    let mut args = std::env::args().skip(1);
    while let Some(a) = args.next() {
        if a == "--feature" {
            if let Some(f) = args.next() {
                features.insert(f);
            }
        } else {
            paths.push(PathBuf::from(a));
        }
    }
    let cfg = Cfg { features };
    let mut files = Vec::new();
    for p in &paths {
        walk(p, &mut files);
    }
    let mut out = Vec::new();
    let mut failed = Vec::new();
    for f in &files {
        let Ok(src) = std::fs::read_to_string(f) else { continue };
        match syn::parse_file(&src) {
            Ok(ast) => {
                let mut v = V { cfg: &cfg, file: f.to_string_lossy().to_string(), out: &mut out, stack: Vec::new() };
                v.visit_file(&ast);
            }
            Err(e) => failed.push(format!("{}: {}", f.display(), e)),
        }
    }
    println!(
        "{{\"files\":{},\"parse_failures\":[{}],\"items\":[\n{}\n]}}",
        files.len(),
        failed.iter().map(|x| esc(x)).collect::<Vec<_>>().join(","),
        out.join(",\n")
    );
}
