//! Compile-fail witnesses for the type-level clauses of C02, C08 and C10.
//!
//! Each witness names `ethercrab` the way an external user would and is paired with a compiling
//! twin that differs only by the offending line, so a witness whose paths are merely wrong cannot
//! pass. Run with `cargo +nightly test --doc --offline` (error codes are honoured on nightly only).
//! Nothing here is executed against a network: the twins are `no_run`.

/// C02: the transmit handle cannot be duplicated (one task inside `next_sendable_frame`).
/// ```compile_fail,E0599
/// static STORAGE: ethercrab::PduStorage<2, { ethercrab::PduStorage::element_size(8) }> = ethercrab::PduStorage::new();
/// let (tx, _rx, _pdu_loop) = STORAGE.try_split().unwrap();
/// let _tx2 = tx.clone(); // PduTx is not Clone
/// ```
/// ```no_run
/// static STORAGE: ethercrab::PduStorage<2, { ethercrab::PduStorage::element_size(8) }> = ethercrab::PduStorage::new();
/// let (tx, _rx, _pdu_loop) = STORAGE.try_split().unwrap();
/// let _tx2 = tx;
/// ```
pub struct C02TxNotClone;

/// C02: the receive handle cannot be duplicated either.
/// ```compile_fail,E0599
/// static STORAGE: ethercrab::PduStorage<2, { ethercrab::PduStorage::element_size(8) }> = ethercrab::PduStorage::new();
/// let (_tx, rx, _pdu_loop) = STORAGE.try_split().unwrap();
/// let _rx2 = rx.clone(); // PduRx is not Clone
/// ```
/// ```no_run
/// static STORAGE: ethercrab::PduStorage<2, { ethercrab::PduStorage::element_size(8) }> = ethercrab::PduStorage::new();
/// let (_tx, rx, _pdu_loop) = STORAGE.try_split().unwrap();
/// let _rx2 = rx;
/// ```
pub struct C02RxNotClone;

/// C02: claiming a frame for sending needs exclusive access to the transmit handle.
/// ```compile_fail,E0596
/// static STORAGE: ethercrab::PduStorage<2, { ethercrab::PduStorage::element_size(8) }> = ethercrab::PduStorage::new();
/// let (tx, _rx, _pdu_loop) = STORAGE.try_split().unwrap();
/// let _f = tx.next_sendable_frame(); // needs &mut self
/// ```
/// ```no_run
/// static STORAGE: ethercrab::PduStorage<2, { ethercrab::PduStorage::element_size(8) }> = ethercrab::PduStorage::new();
/// let (mut tx, _rx, _pdu_loop) = STORAGE.try_split().unwrap();
/// let _f = tx.next_sendable_frame();
/// ```
pub struct C02NextSendableNeedsMut;

/// C02: handing a frame to the receive side needs exclusive access to the receive handle.
/// ```compile_fail,E0596
/// static STORAGE: ethercrab::PduStorage<2, { ethercrab::PduStorage::element_size(8) }> = ethercrab::PduStorage::new();
/// let (_tx, rx, _pdu_loop) = STORAGE.try_split().unwrap();
/// let _ = rx.receive_frame(&[0u8; 64]); // needs &mut self
/// ```
/// ```no_run
/// static STORAGE: ethercrab::PduStorage<2, { ethercrab::PduStorage::element_size(8) }> = ethercrab::PduStorage::new();
/// let (_tx, mut rx, _pdu_loop) = STORAGE.try_split().unwrap();
/// let _ = rx.receive_frame(&[0u8; 64]);
/// ```
pub struct C02ReceiveNeedsMut;

/// C02: a `SendableFrame` (the right to read a buffer while it is `Sending`) cannot be forged.
/// ```compile_fail,E0451
/// fn forge(other: ethercrab::SendableFrame<'static>) -> ethercrab::SendableFrame<'static> {
///     let _ = other;
///     ethercrab::SendableFrame { inner: todo!() } // private field
/// }
/// ```
/// ```no_run
/// fn pass(other: ethercrab::SendableFrame<'static>) -> ethercrab::SendableFrame<'static> {
///     other
/// }
/// ```
pub struct C02NoForgedSendableFrame;

/// C02: the storage can be split only once per value; the split handles borrow it.
/// ```compile_fail,E0515
/// fn f() -> ethercrab::PduTx<'static> {
///     let storage: ethercrab::PduStorage<2, { ethercrab::PduStorage::element_size(8) }> = ethercrab::PduStorage::new();
///     let (tx, _rx, _l) = storage.try_split().unwrap(); // handles cannot outlive the storage
///     tx
/// }
/// ```
/// ```no_run
/// static STORAGE: ethercrab::PduStorage<2, { ethercrab::PduStorage::element_size(8) }> = ethercrab::PduStorage::new();
/// fn f() -> ethercrab::PduTx<'static> {
///     let (tx, _rx, _l) = STORAGE.try_split().unwrap();
///     tx
/// }
/// ```
pub struct C02HandlesBorrowStorage;

/// C08: `outputs_raw()` is a read view; writing needs `outputs_raw_mut()` (the write lock).
/// ```compile_fail,E0594
/// use ethercrab::{MainDevice, SubDeviceGroup, subdevice_group::Op, DefaultLock};
/// fn f(group: &SubDeviceGroup<4, 16, DefaultLock, Op>, md: &MainDevice<'_>) {
///     let sd = group.subdevice(md, 0).unwrap();
///     let mut o = sd.outputs_raw();
///     o[0] = 1; // read guard: no IndexMut
/// }
/// ```
/// ```no_run
/// use ethercrab::{MainDevice, SubDeviceGroup, subdevice_group::Op, DefaultLock};
/// fn f(group: &SubDeviceGroup<4, 16, DefaultLock, Op>, md: &MainDevice<'_>) {
///     let sd = group.subdevice(md, 0).unwrap();
///     let mut o = sd.outputs_raw_mut();
///     o[0] = 1;
/// }
/// ```
pub struct C08OutputsRawIsReadOnly;

/// C08: inputs are never writable by the application.
/// ```compile_fail,E0594
/// use ethercrab::{MainDevice, SubDeviceGroup, subdevice_group::Op, DefaultLock};
/// fn f(group: &SubDeviceGroup<4, 16, DefaultLock, Op>, md: &MainDevice<'_>) {
///     let sd = group.subdevice(md, 0).unwrap();
///     let mut i = sd.inputs_raw();
///     i[0] = 1;
/// }
/// ```
/// ```no_run
/// use ethercrab::{MainDevice, SubDeviceGroup, subdevice_group::Op, DefaultLock};
/// fn f(group: &SubDeviceGroup<4, 16, DefaultLock, Op>, md: &MainDevice<'_>) {
///     let sd = group.subdevice(md, 0).unwrap();
///     let i = sd.inputs_raw();
///     let _ = i[0];
/// }
/// ```
pub struct C08InputsAreReadOnly;

/// C10: a group that is only known to be in PRE-OP has no process-data cycle.
/// ```compile_fail,E0599
/// use ethercrab::{MainDevice, SubDeviceGroup, subdevice_group::PreOp, DefaultLock};
/// async fn f(group: &SubDeviceGroup<4, 16, DefaultLock, PreOp>, md: &MainDevice<'_>) {
///     let _ = group.tx_rx(md).await; // tx_rx needs a state with a PDI
/// }
/// ```
/// ```no_run
/// use ethercrab::{MainDevice, SubDeviceGroup, subdevice_group::Op, DefaultLock};
/// async fn f(group: &SubDeviceGroup<4, 16, DefaultLock, Op>, md: &MainDevice<'_>) {
///     let _ = group.tx_rx(md).await;
/// }
/// ```
pub struct C10NoCycleInPreOp;

/// C10: the typestate cannot be forged: the fields of a group are private (rustc reports this
/// struct-literal error without a code, hence a plain `compile_fail`; the twin pins the paths).
/// ```compile_fail
/// use ethercrab::{SubDeviceGroup, subdevice_group::{Op, PreOp}, DefaultLock};
/// fn relabel(g: SubDeviceGroup<4, 16, DefaultLock, PreOp>) -> SubDeviceGroup<4, 16, DefaultLock, Op> {
///     let _ = g;
///     SubDeviceGroup { id: todo!() }
/// }
/// ```
/// ```no_run
/// use ethercrab::{MainDevice, SubDeviceGroup, subdevice_group::{Op, PreOp}, DefaultLock, error::Error};
/// async fn relabel(g: SubDeviceGroup<4, 16, DefaultLock, PreOp>, md: &MainDevice<'_>) -> Result<SubDeviceGroup<4, 16, DefaultLock, Op>, Error> {
///     g.into_op(md).await
/// }
/// ```
pub struct C10NoForgedTypestate;

/// C10: the lifecycle order is in the types: an OP group can only step down to SAFE-OP.
/// ```compile_fail,E0599
/// use ethercrab::{MainDevice, SubDeviceGroup, subdevice_group::Op, DefaultLock};
/// async fn f(g: SubDeviceGroup<4, 16, DefaultLock, Op>, md: &MainDevice<'_>) {
///     let _ = g.into_pre_op(md).await;
/// }
/// ```
/// ```no_run
/// use ethercrab::{MainDevice, SubDeviceGroup, subdevice_group::Op, DefaultLock};
/// async fn f(g: SubDeviceGroup<4, 16, DefaultLock, Op>, md: &MainDevice<'_>) {
///     let _ = g.into_safe_op(md).await;
/// }
/// ```
pub struct C10OpOnlyStepsDown;
