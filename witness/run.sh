#!/bin/sh
# Compile-fail witnesses: builds a throw-away crate (outside /repo) that path-depends on the
# repository under test and runs its doc tests on nightly. usage: witness/run.sh [repo]
set -e
HERE="$(cd "$(dirname "$0")" && pwd)"
REPO="${1:-${VERIF_REPO:-/repo}}"
W="$HERE/../.cache/witness"
mkdir -p "$W/src"
cp "$HERE/src/lib.rs" "$W/src/lib.rs"
cat > "$W/Cargo.toml" <<TOML
[package]
name = "verif_witness"
version = "0.0.0"
edition = "2021"

[workspace]

[lib]
doctest = true

[dependencies]
ethercrab = { path = "$REPO" }
TOML
cp "$REPO/Cargo.lock" "$W/Cargo.lock" 2>/dev/null || true
unset RUSTUP_TOOLCHAIN
cd "$W"
CARGO_NET_OFFLINE=true CARGO_TARGET_DIR="$HERE/../.cache/target-witness" cargo +nightly test --doc --offline 2>&1
