"""NOPANIC engine (DESIGN.md 2.1): no panic / no unchecked arithmetic / no unguarded unsafe on
untrusted data.  Field-based interprocedural taint over MIR, sink enumeration, discharge by
unsigned upper bounds, by dominating guards, or by an audited table entry."""
import re
from collections import defaultdict, deque

from . import q
from .core import Call, Prov, has_root, last_seg, norm, op_const, op_place, roots_str, short, ty_short

UMAX = {"u8": 2**8 - 1, "u16": 2**16 - 1, "u32": 2**32 - 1, "u64": 2**64 - 1, "u128": 2**128 - 1, "usize": 2**64 - 1,
        "i8": 2**7 - 1, "i16": 2**15 - 1, "i32": 2**31 - 1, "i64": 2**63 - 1, "i128": 2**127 - 1, "isize": 2**63 - 1, "bool": 1}
SIGNED = {"i8", "i16", "i32", "i64", "i128", "isize"}
INF = float("inf")


def ty_max(t):
    return UMAX.get(t.strip(), INF)


# ----------------------------------------------------------------------------------------------
# taint
# ----------------------------------------------------------------------------------------------

# external callees that never carry taint from args to result
NO_PROP = {"mem::size_of", "Layout::array", "log::max_level", "__private_api::loc", "Arguments::new", "Arguments::from_str", "Argument::new_display",
           "Argument::new_debug", "Argument::new_lower_hex", "Argument::new_upper_hex", "__private_api::log", "PartialOrd::le"}


PREDICATE_COMBINATORS = {
    # selectors: the result is an element (or its position) of the iterator / option itself, the closure's bool only
    # picks it.  Counting adaptors (filter(..).count(), any, all, take_while) stay data dependent on the predicate.
    "Iterator::find", "Iterator::rfind", "Iterator::position", "Iterator::rposition", "Option::filter",
    "DoubleEndedIterator::rfind", "DoubleEndedIterator::rposition",
}


class Taint:
    def __init__(self, prog, sources):
        """sources: list of tuples
             ('param', body_short, local_index)
             ('callret', callee_short)          result of every call to callee (decl or resolved)
             ('ret', body_short)                 return value of body
             ('field', adt_short, field)
        """
        self.prog = prog
        self.bodies = [b for b in prog.bodies]
        self.idx = {id(b): i for i, b in enumerate(self.bodies)}
        self.tl = [set() for _ in self.bodies]  # tainted locals per body
        self.tf = set()  # (adt, field)
        self.tret = set()  # body index
        self.tup = set()  # (body index, upvar k)
        self.callret = set()
        self.callret_in = set()
        self.outparam = {}
        self.src_desc = sources
        self.why_f = {}
        self._wsmemo = {}
        self._structs = set()
        for pth, a in prog.adts.items():
            if a["kind"] == "Struct":
                self._structs.add(pth)
                self._structs.add(pth.split("::", 1)[1] if "::" in pth else pth)
        self.why = {}  # (bi, local) -> reason string (first cause)
        self._closure_parent_cache = {}
        for s in sources:
            if s[0] == "param":
                for b in prog.by_short.get(s[1], []):
                    self._taint_local(self.idx[id(b)], s[2], "source:param %s#%d" % (s[1], s[2]))
            elif s[0] == "callret":
                self.callret.add(s[1])
            elif s[0] == "callret_in":
                self.callret_in.add((s[1], s[2]))
            elif s[0] == "outparam":
                self.outparam[s[1]] = s[2]
            elif s[0] == "ret":
                for b in prog.by_short.get(s[1], []):
                    self.tret.add(self.idx[id(b)])
            elif s[0] == "field":
                self.tf.add((s[1], s[2]))
        self._prepare()
        self._run()

    # -- helpers ---------------------------------------------------------------------------
    def _is_ws_struct(self, bi, l):
        key = (bi, l)
        r = self._wsmemo.get(key)
        if r is None:
            t = self.bodies[bi].local_ty(l)
            t = t.replace("&mut ", "").replace("&", "").replace("*mut ", "").replace("*const ", "").strip()
            n = norm(t)
            r = n in self._structs
            self._wsmemo[key] = r
        return r

    def _taint_local(self, bi, l, why=None):
        if l in self.tl[bi]:
            return False
        # workspace structs are tracked field-wise (cells), never wholesale: a handle such as
        # `self`/`maindevice` must not become tainted because one of its fields carries device data
        if self._is_ws_struct(bi, l):
            return False
        self.tl[bi].add(l)
        if why and (bi, l) not in self.why:
            self.why[(bi, l)] = why
        return True

    def place_tainted(self, bi, pl):
        if pl["l"] in self.tl[bi]:
            return True
        b = self.bodies[bi]
        for p in pl["p"]:
            if isinstance(p, dict):
                if "n" in p and (last_seg(norm(p["adt"])), p["n"]) in self.tf:
                    return True
                if p.get("k") == "upvar" and pl["l"] == 1 and (bi, p["f"]) in self.tup:
                    return True
        return False

    def op_tainted(self, bi, op):
        pl = op_place(op)
        if pl is None:
            return False
        return self.place_tainted(bi, pl)

    def _prepare(self):
        prog = self.prog
        self.closure_def_of_local = []
        for b in self.bodies:
            m = {}
            for bi in range(b.nblocks):
                if b.blocks[bi].get("cleanup"):
                    continue
                for s in b.blocks[bi]["stmts"]:
                    if s["k"] == "assign" and s["rv"]["k"] == "agg" and s["rv"]["ak"] in ("closure", "coroutine", "coroutine_closure") and not s["place"]["p"]:
                        m[s["place"]["l"]] = norm(s["rv"]["def"])
            self.closure_def_of_local.append(m)

    def _write(self, bi, pl, why):
        """Taint the destination place. Returns True if anything changed."""
        ch = False
        fields = [p for p in pl["p"] if isinstance(p, dict) and "n" in p]
        derefs = any(p == "*" for p in pl["p"])
        if fields:
            key = (last_seg(norm(fields[-1]["adt"])), fields[-1]["n"])
            # plumbing enums carry no heap identity
            if key[0] not in ("Option", "Result", "ControlFlow", "Poll") and key not in self.tf:
                self.tf.add(key)
                self.why_f[key] = "%s in %s" % (why, self.bodies[bi].short)
                ch = True
            if not derefs:
                ch = self._taint_local(bi, pl["l"], why) or ch
        else:
            if derefs:
                # write through a reference local: taint the reference and (if it is a `&mut x`) x
                ch = self._taint_local(bi, pl["l"], why) or ch
                ch = self._taint_ref_target(bi, pl["l"], why) or ch
            else:
                ch = self._taint_local(bi, pl["l"], why) or ch
        upv = [p for p in pl["p"] if isinstance(p, dict) and p.get("k") == "upvar"]
        if upv and pl["l"] == 1 and (bi, upv[0]["f"]) not in self.tup:
            self.tup.add((bi, upv[0]["f"]))
            ch = True
        return ch

    def _taint_ref_target(self, bi, l, why, _depth=0):
        b = self.bodies[bi]
        ch = False
        for (_, _, kind, payload) in b.defs().get(l, []):
            if kind != "assign":
                continue
            rv = payload["rv"]
            if rv["k"] in ("ref", "rawptr"):
                src = rv["place"]
                if src["p"] == ["*"] and _depth < 4:
                    # reborrow `&mut *r`: go to what r points at
                    ch = self._taint_ref_target(bi, src["l"], why, _depth + 1) or ch
                ch = self._write(bi, src, why) or ch
            elif rv["k"] in ("use", "cast") and _depth < 4:
                # moves and unsizing coercions of the reference
                src = op_place(rv["a"][0])
                if src is not None and not src["p"]:
                    ch = self._taint_local(bi, src["l"], why) or ch
                    ch = self._taint_ref_target(bi, src["l"], why, _depth + 1) or ch
        return ch

    def _run(self):
        prog = self.prog
        changed = True
        rounds = 0
        while changed and rounds < 60:
            changed = False
            rounds += 1
            for bi, b in enumerate(self.bodies):
                if self._step_body(bi, b):
                    changed = True
        self.rounds = rounds

    def _callee_bodies(self, c):
        out = []
        for k in (c.res, c.decl):
            if k and k in self.prog.by_path:
                t = self.prog.by_path[k]
                out.append(t)
                break
        return out

    def _coroutine_of(self, body):
        for x in self.prog.groups[body.root]:
            if x.coroutine and x.d.get("parent") and norm(x.d["parent"]) == body.path:
                return x
        return None

    def _step_body(self, bi, b):
        ch = False
        tl = self.tl[bi]
        for bb in range(b.nblocks):
            blk = b.blocks[bb]
            if blk.get("cleanup"):
                continue
            for s in blk["stmts"]:
                if s["k"] != "assign":
                    continue
                rv = s["rv"]
                t = False
                for a in rv.get("a", []):
                    if self.op_tainted(bi, a):
                        t = True
                        break
                if not t and "place" in rv and self.place_tainted(bi, rv["place"]):
                    t = True
                if rv["k"] == "agg" and rv["ak"] in ("closure", "coroutine", "coroutine_closure"):
                    # captures -> upvar cells of the closure body
                    cb = self.prog.by_path.get(norm(rv["def"]))
                    if cb is not None:
                        ci = self.idx[id(cb)]
                        for k, a in enumerate(rv["a"]):
                            if self.op_tainted(bi, a) and (ci, k) not in self.tup:
                                self.tup.add((ci, k))
                                ch = True
                if rv["k"] == "agg" and rv["ak"] == "adt" and not rv.get("is_enum") and rv.get("fields") and len(rv["fields"]) == len(rv["a"]):
                    # struct literal: field-wise cells instead of tainting the whole value
                    adt = last_seg(norm(rv["adt"]))
                    for f, a in zip(rv["fields"], rv["a"]):
                        if self.op_tainted(bi, a) and (adt, f) not in self.tf:
                            self.tf.add((adt, f))
                            self.why_f[(adt, f)] = "struct literal in %s at %s" % (b.short, s.get("sp"))
                            ch = True
                    continue
                if t:
                    src = None
                    for a in rv.get("a", []):
                        if self.op_tainted(bi, a):
                            src = op_place(a)
                            break
                    if src is None and "place" in rv:
                        src = rv["place"]
                    ch = self._write(bi, s["place"], ("assign", bi, src, s.get("sp"))) or ch
            t = blk["term"]
            if t["k"] == "call":
                ch = self._step_call(bi, b, bb, t) or ch
            elif t["k"] == "yield":
                pass
        if 0 in tl and bi not in self.tret:
            self.tret.add(bi)
            ch = True
        return ch

    def _step_call(self, bi, b, bb, t):
        ch = False
        c = Call(b, bb, t)
        args_t = [self.op_tainted(bi, a) for a in c.args]
        anyt = any(args_t)
        names = {c.decl_s, c.res_s}
        dest_t = False
        for n in names:
            if n in self.outparam:
                k = self.outparam[n]
                if k < len(c.args):
                    pl = op_place(c.args[k])
                    if pl is not None and not pl["p"]:
                        if self._taint_local(bi, pl["l"], "source:outparam of %s" % n):
                            ch = True
                        if self._taint_ref_target(bi, pl["l"], "source:outparam of %s" % n):
                            ch = True
        if names & self.callret:
            dest_t = True
        if self.callret_in and any((n, b.root_short) in self.callret_in for n in names):
            dest_t = True
        targets = self._callee_bodies(c) if not c.indirect else []
        if targets:
            tb = targets[0]
            ti = self.idx[id(tb)]
            # args -> params
            for k, at in enumerate(args_t):
                if at and (k + 1) <= tb.arg_count:
                    if self._taint_local(ti, k + 1, ("arg", bi, op_place(c.args[k]), c.span)):
                        ch = True
            if ti in self.tret:
                dest_t = True
            co = self._coroutine_of(tb)
            if co is not None and self.idx[id(co)] in self.tret:
                dest_t = True
            # poll of a coroutine body: `_1` of the coroutine is the future; result = its return
            # &mut out-params: if callee taints through its reference param, reflect here
            for k, a in enumerate(c.args):
                pl = op_place(a)
                if pl is None or pl["p"]:
                    continue
                if (k + 1) in self.tl[ti] and self._is_mut_ref(b, pl["l"]) and not args_t[k]:
                    if self._taint_ref_target(bi, pl["l"], "out-param of %s" % c.name):
                        ch = True
        else:
            # closures handed to an external combinator do not count as tainted *data*: what they captured lives in
            # their upvar cells, and what they return is accounted for below
            def _is_closure_arg(a):
                pl_ = op_place(a)
                if pl_ is None or pl_["p"]:
                    return False
                # the closure literal itself, or a named closure moved into the call (`let pred = |..| ..; it.find(pred)`)
                return self.closure_def_of_local[bi].get(pl_["l"]) is not None or "{closure@" in b.local_ty(pl_["l"])

            anyt = any(args_t[k] for k in range(len(args_t)) if not _is_closure_arg(c.args[k]))
            if anyt and not (names & NO_PROP):
                dest_t = True
                # tainted data handed to a closure-taking combinator: the closure's params see it
                for k, a in enumerate(c.args):
                    pl = op_place(a)
                    if pl is None or pl["p"]:
                        continue
                    cd = self.closure_def_of_local[bi].get(pl["l"])
                    # (only data coming from the *other* arguments - the iterator, the option - reaches the closure's
                    # parameters; what the closure captured is already in its upvar cells)
                    if cd and cd in self.prog.by_path and any(args_t[j] for j in range(len(args_t)) if j != k):
                        cb = self.prog.by_path[cd]
                        ci = self.idx[id(cb)]
                        for p in range(2, cb.arg_count + 1):
                            if self._taint_local(ci, p, "closure param fed by %s in %s" % (c.name, b.root_short)):
                                ch = True
                # mutable reference args of external calls may receive taint (copy_from_slice, extend..)
                for k, a in enumerate(c.args):
                    pl = op_place(a)
                    if pl is None or pl["p"] or args_t[k]:
                        continue
                    if self._is_mut_ref(b, pl["l"]):
                        if self._taint_local(bi, pl["l"], "mutable argument of %s" % c.name):
                            ch = True
                        if self._taint_ref_target(bi, pl["l"], "mutable argument of %s" % c.name):
                            ch = True
            # result of a closure passed in (not for predicates: a bool that only *selects* an element is an implicit
            # flow, treated like a branch condition everywhere else)
            for k, a in enumerate(c.args if not (names & PREDICATE_COMBINATORS) else []):
                pl = op_place(a)
                if pl is None or pl["p"]:
                    continue
                cd = self.closure_def_of_local[bi].get(pl["l"])
                if cd and cd in self.prog.by_path and self.idx[id(self.prog.by_path[cd])] in self.tret:
                    dest_t = True
        if dest_t:
            srcp = None
            for k, a in enumerate(c.args):
                if args_t[k]:
                    srcp = op_place(a)
                    break
            ch = self._write(bi, c.dest, ("call", bi, srcp, "%s @%s" % (c.name, c.span))) or ch
        return ch

    def _is_mut_ref(self, b, l):
        t = b.local_ty(l)
        return t.startswith("&mut ") or t.startswith("*mut ")


# ----------------------------------------------------------------------------------------------
# upper bounds
# ----------------------------------------------------------------------------------------------


def field_hi(prog, adt, field):
    """Upper bound of a workspace struct field: max over every struct literal that sets it,
    provided the field is never written or mutably borrowed anywhere else."""
    if not hasattr(prog, "_field_hi"):
        prog._field_hi = {}
    key = (adt, field)
    if key in prog._field_hi:
        return prog._field_hi[key]
    prog._field_hi[key] = INF  # recursion guard
    hi = 0
    found = False
    for b in prog.bodies:
        if not b.crate.startswith("ethercrab"):
            continue
        for (bi, si, kind, pl) in q.field_accesses(b, adt, field):
            if kind in ("write", "addr_mut"):
                prog._field_hi[key] = INF
                return INF
        for bi, si, st in q.aggregates(b, adt):
            a = q.agg_field(st, field)
            if a is None:
                continue
            found = True
            hi = max(hi, Bounds(b).of_operand(a))
    r = hi if found else INF
    prog._field_hi[key] = r
    return r


class Bounds:
    def __init__(self, body, field_hi=None):
        self.b = body
        self.memo = {}
        self.field_hi = field_hi or {}

    def of_operand(self, op):
        c = op_const(op)
        if c is not None:
            v = c.get("v")
            if isinstance(v, int) and v >= 0:
                return v
            return ty_max(c.get("ty", ""))
        pl = op_place(op)
        if pl is None:
            return INF
        return self.of_place(pl)

    def of_place(self, pl):
        b = self.b
        if not pl["p"]:
            return self.of_local(pl["l"])
        last = pl["p"][-1]
        # (tuple of WithOverflow).0
        if isinstance(last, dict) and last.get("k") == "tuple" and last["f"] == 0 and len(pl["p"]) == 1:
            return self._ovf_tuple(pl["l"])
        # payload of an enum value built in this body: `(r as Ok).0`, `(cf as Continue).0`, `(o as Some).0`
        if len(pl["p"]) == 2 and isinstance(pl["p"][0], dict) and "dc" in pl["p"][0] and isinstance(last, dict) and last.get("f") == 0:
            v = self._payload(pl["l"], pl["p"][0]["dc"], 0)
            if v != INF:
                return min(v, ty_max(last.get("ty", "")))
        if isinstance(last, dict) and "n" in last and "adt" in last:
            return min(ty_max(last["ty"]), field_hi(b.prog, last_seg(norm(last["adt"])), last["n"]))
        if isinstance(last, dict) and "ty" in last:
            return ty_max(last["ty"])
        if last == "*":
            inner = dict(pl)
            inner = {"l": pl["l"], "p": pl["p"][:-1]}
            if not inner["p"]:
                t = b.local_ty(pl["l"]).replace("&mut ", "").replace("&", "").strip()
                return min(ty_max(t), self._deref_local(pl["l"]))
            return self.of_place(inner)
        return INF

    def _payload(self, l, variant, depth):
        """Upper bound of field 0 of `variant` of the enum held in local l, from the literals / `?` that define it."""
        if depth > 6:
            return INF
        ds = self.b.defs().get(l, [])
        if not ds:
            return INF
        hi = 0
        same = {"Ok": ("Ok", "Continue"), "Continue": ("Ok", "Continue", "Some"), "Some": ("Some", "Continue")}.get(variant, (variant,))
        for (bi, si, kind, payload) in ds:
            v = INF
            if kind == "assign" and not payload["place"]["p"]:
                rv = payload["rv"]
                if rv["k"] == "agg" and rv.get("ak") == "adt" and rv.get("is_enum"):
                    if rv.get("variant") in same and rv["a"]:
                        v = self.of_operand(rv["a"][0])
                    elif rv.get("variant") not in same:
                        v = 0  # another variant: contributes nothing to this payload
                elif rv["k"] == "use":
                    p2 = op_place(rv["a"][0])
                    if p2 is not None and not p2["p"]:
                        v = self._payload(p2["l"], variant, depth + 1)
            elif kind == "call":
                c = payload
                if c.is_("Try::branch") and c.args:
                    p2 = op_place(c.args[0])
                    if p2 is not None and not p2["p"]:
                        v = max(self._payload(p2["l"], "Ok", depth + 1), 0)
                elif c.is_("FromResidual::from_residual"):
                    v = 0
            hi = max(hi, v)
        return hi

    def _deref_local(self, l):
        # `&x` / `&mut x` of a local: bound of x
        b = self.b
        ds = b.defs().get(l, [])
        if len(ds) == 1 and ds[0][2] == "assign" and ds[0][3]["rv"]["k"] == "ref":
            src = ds[0][3]["rv"]["place"]
            if not src["p"]:
                return self.of_local(src["l"])
        return INF

    def _ovf_tuple(self, l):
        ds = self.b.defs().get(l, [])
        if len(ds) == 1 and ds[0][2] == "assign" and ds[0][3]["rv"]["k"] == "bin":
            return self._bin(ds[0][3]["rv"])
        return INF

    def of_local(self, l):
        if l in self.memo:
            return self.memo[l]
        b = self.b
        tmax = ty_max(b.local_ty(l))
        self.memo[l] = tmax  # cycle guard (loops): fall back to the type's range
        ds = b.defs().get(l, [])
        if 1 <= l <= b.arg_count or not ds:
            return tmax
        hi = 0
        for (bi, si, kind, payload) in ds:
            if kind == "assign":
                if payload["place"]["p"]:
                    v = tmax
                else:
                    v = self._rv(payload["rv"])
            elif kind == "call":
                v = self._call(payload)
            else:
                v = tmax
            hi = max(hi, v)
        hi = min(hi, tmax)
        self.memo[l] = hi
        return hi

    def _rv(self, rv):
        k = rv["k"]
        if k == "use":
            return self.of_operand(rv["a"][0])
        if k == "cast":
            src = self.of_operand(rv["a"][0])
            if rv["from"].strip() in SIGNED:
                return ty_max(rv["to"])  # sign extension
            return min(src, ty_max(rv["to"])) if src <= ty_max(rv["to"]) else ty_max(rv["to"])
        if k == "bin":
            return self._bin(rv)
        if k == "un":
            return INF
        return INF

    def _bin(self, rv):
        op = rv["op"].replace("WithOverflow", "").replace("Unchecked", "")
        a, c = rv["a"]
        ha, hb = self.of_operand(a), self.of_operand(c)
        lt = rv.get("lty", "")
        if lt.strip() in SIGNED:
            return ty_max(lt)
        if op == "Add":
            return ha + hb
        if op == "Mul":
            return ha * hb if ha != INF and hb != INF else INF
        if op == "Sub":
            return ha
        if op == "Div":
            return ha
        if op == "Rem":
            return min(ha, hb - 1) if hb not in (INF, 0) else ha
        if op == "BitAnd":
            return min(ha, hb)
        if op == "BitOr" or op == "BitXor":
            if ha == INF or hb == INF:
                return INF
            return (1 << max(int(ha).bit_length(), int(hb).bit_length())) - 1
        if op == "Shr":
            kb = q.const_int(c)
            if kb is not None and ha != INF:
                return int(ha) >> kb
            return ha
        if op == "Shl":
            kb = q.const_int(c)
            if kb is not None and ha != INF:
                return int(ha) << kb
            return INF
        if op in ("Eq", "Ne", "Lt", "Le", "Gt", "Ge"):
            return 1
        return INF

    def _call(self, c):
        n = c.decl_s or ""
        r = c.res_s or ""
        if c.is_("From::from", "Into::into"):
            return self.of_operand(c.args[0])
        if c.is_("Ord::min", "cmp::min"):
            return min(self.of_operand(c.args[0]), self.of_operand(c.args[1]))
        if n.endswith("::saturating_sub") or n.endswith("::wrapping_sub") and False:
            return self.of_operand(c.args[0])
        if n.endswith("::min"):
            return min(self.of_operand(c.args[0]), self.of_operand(c.args[1]))
        if n.endswith("::len") or n in ("slice::len", "Vec::len", "str::len"):
            return 2**63 - 1
        if n.endswith("::count_ones") or n.endswith("::leading_zeros") or n.endswith("::trailing_zeros"):
            return 128
        if n.endswith("::div_ceil"):
            return self.of_operand(c.args[0])
        if n.endswith("::saturating_add") or n.endswith("::saturating_mul"):
            return INF  # clipped by the local's type in of_local
        # workspace callee with a known summary
        t = self.b.prog.by_path.get(c.full) if c.full else None
        if t is not None and t is not self.b:
            if not hasattr(self.b.prog, "_ret_hi"):
                self.b.prog._ret_hi = {}
            memo = self.b.prog._ret_hi
            if t.path not in memo:
                memo[t.path] = INF  # recursion guard
                try:
                    memo[t.path] = Bounds(t).of_local(0) if t.nblocks < 80 else INF
                except RecursionError:
                    memo[t.path] = INF
            return memo[t.path]
        return INF


# ----------------------------------------------------------------------------------------------
# sinks
# ----------------------------------------------------------------------------------------------

# panicking / UB-capable library APIs: short decl name -> (argument indexes that matter, kind)
PANIC_APIS = {
    "Option::unwrap": ([0], "unwrap"), "Option::expect": ([0], "unwrap"), "Result::unwrap": ([0], "unwrap"), "Result::expect": ([0], "unwrap"),
    "Result::unwrap_err": ([0], "unwrap"), "Result::expect_err": ([0], "unwrap"),
    "Index::index": ([0, 1], "index"), "IndexMut::index_mut": ([0, 1], "index"),
    "slice::copy_from_slice": ([0, 1], "len-mismatch"), "slice::clone_from_slice": ([0, 1], "len-mismatch"),
    "slice::split_at": ([0, 1], "index"), "slice::split_at_mut": ([0, 1], "index"),
    "slice::chunks": ([1], "zero-chunk"), "slice::chunks_exact": ([1], "zero-chunk"), "slice::windows": ([1], "zero-chunk"),
    "Iterator::sum": ([0], "sum-overflow"), "Iterator::product": ([0], "sum-overflow"), "Sum::sum": ([0], "sum-overflow"),
    "Iterator::step_by": ([1], "zero-step"),
    "Vec::set_len": ([1], "unsafe-len"), "str::from_utf8_unchecked": ([0], "unsafe-utf8"), "String::from_utf8_unchecked": ([0], "unsafe-utf8"),
    "const_ptr::add": ([1], "unsafe-ptr"), "mut_ptr::add": ([1], "unsafe-ptr"), "const_ptr::byte_add": ([1], "unsafe-ptr"), "mut_ptr::byte_add": ([1], "unsafe-ptr"),
    "slice::from_raw_parts": ([1], "unsafe-len"), "slice::from_raw_parts_mut": ([1], "unsafe-len"), "slice::get_unchecked": ([1], "unsafe-index"),
    "slice::get_unchecked_mut": ([1], "unsafe-index"), "Vec::remove": ([1], "index"), "Vec::swap_remove": ([1], "index"), "Vec::insert": ([1], "index"),
    "Add::add": ([0, 1], "op-trait"), "Sub::sub": ([0, 1], "op-trait"), "Mul::mul": ([0, 1], "op-trait"), "AddAssign::add_assign": ([0, 1], "op-trait"),
    "SubAssign::sub_assign": ([0, 1], "op-trait"), "Div::div": ([1], "op-trait"), "Rem::rem": ([1], "op-trait"),
    "Duration::from_secs_f64": ([0], "duration"), "Duration::from_secs_f32": ([0], "duration"),
    "RefCell::borrow_mut": ([], "borrow"), "slice::rotate_left": ([1], "index"), "slice::swap": ([1, 2], "index"),
    "u16::pow": ([0, 1], "pow"), "u32::pow": ([0, 1], "pow"), "usize::pow": ([0, 1], "pow"),
    "str::split_at": ([1], "index"), "char::from_u32_unchecked": ([0], "unsafe"), "Vec::drain": ([1], "index"), "slice::fill": ([], "none"),
    "slice::copy_within": ([1, 2], "index"), "ptr::copy_nonoverlapping": ([2], "unsafe-len"), "intrinsics::copy_nonoverlapping": ([2], "unsafe-len"),
    "MaybeUninit::assume_init": ([], "none"), "Deque::push_back_unchecked": ([0], "unsafe"), "Vec::push_unchecked": ([0], "unsafe"),
}
# op-trait on primitive integers never appears as a call (BinaryOp); calls are Duration/Instant/etc.

DIVERGE_PREFIX = ("core::panicking::", "std::rt::", "core::option::unwrap_failed", "core::option::expect_failed", "core::result::unwrap_failed",
                  "core::slice::index::", "core::str::slice_error_fail", "std::process::abort", "core::intrinsics::abort", "defmt::export::panic", "defmt::panic")


def is_diverging_panic(c):
    if c.target is not None or c.indirect:
        return False
    d = c.decl or ""
    d2 = d.replace("std::panicking", "core::panicking")
    return d2.startswith(DIVERGE_PREFIX) or d.startswith("std::panicking::") or "panic" in (c.decl_s or "")


class Sink:
    __slots__ = ("body", "bb", "kind", "what", "ops", "loc", "expn", "call", "key", "sig", "detail")

    def __init__(self, body, bb, kind, what, ops, loc, expn=None, call=None):
        self.body = body
        self.bb = bb
        self.kind = kind
        self.what = what
        self.ops = ops
        self.loc = loc
        self.expn = expn
        self.call = call
        self.detail = ""


def nearest_control(body, bb):
    """The nearest switch block on which `bb`'s execution depends (it dominates bb and bb is
    dominated by a strict subset of its out-edges). Returns (Cond, target) or None."""
    dom = body.dominators().get(bb)
    if not dom:
        return None
    # order dominators by depth (size of their own dominator set), deepest first
    ds = sorted((d for d in dom if d != bb), key=lambda d: -len(body.dominators()[d]))
    for d in ds:
        t = body.term(d)
        if t["k"] != "switch":
            continue
        succs = body.succ(d)
        hit = [s for s in succs if bb in q.edge_dominated(body, d, s)]
        if hit and len(hit) < len(succs):
            return q.Cond(body, d), hit[0]
    return None


def root_sig(body, ops):
    """Line-free signature of operands: sorted root strings (bb numbers removed)."""
    pr = Prov(body)
    out = []
    for o in ops:
        rs = []
        for r in pr.of_operand(o):
            if r[0] == "call":
                rs.append("call:%s" % r[1])
            elif r[0] == "binop":
                rs.append("op:%s" % r[1])
            elif r[0] == "arg":
                rs.append("arg:%s" % (r[2] or r[1]))
            elif r[0] == "upvar":
                rs.append("upvar:%s" % (r[2] or r[1]))
            elif r[0] == "const":
                rs.append("const:%s" % ":".join(str(x) for x in r[1:] if x is not None))
            elif r[0] == "field":
                if r[1] in ("ControlFlow", "Option", "Poll", "Result"):
                    continue  # payload plumbing of `?`, `if let`, `.await`: not part of the site's identity
                rs.append("field:%s.%s" % (r[1], r[2]))
            elif r[0] == "agg" and r[1] in ("Option", "Result", "ControlFlow", "Poll"):
                continue
            elif r[0] in ("agg", "await", "cut", "outparam", "closure", "fn"):
                rs.append("%s:%s" % (r[0], ":".join(str(x) for x in r[1:2])))
            else:
                rs.append(r[0])
        rs = sorted(set(rs))
        out.append(",".join(rs[:8]))
    return " ; ".join(out)


def find_sinks(prog, taint, scope):
    """All panic-capable sites in `scope` (iterable of Body) with a tainted operand/condition."""
    sinks = []
    counts = defaultdict(int)
    for b in scope:
        bi = taint.idx[id(b)]
        live = b.live_blocks()
        for bb in sorted(live):
            blk = b.blocks[bb]
            if blk.get("cleanup"):
                continue
            t = blk["term"]
            if t["k"] == "assert":
                counts["assert-sites"] += 1
                ak = t["ak"]
                if ak in ("Misaligned", "NullDeref"):
                    continue
                ops = t["ops"]
                if ak in ("DivisionByZero", "RemainderByZero"):
                    # the assert carries the dividend; the divisor is in the condition `Eq(divisor, 0)`
                    cpl = op_place(t["cond"])
                    div = None
                    if cpl is not None and not cpl["p"]:
                        for (_, _, kind, payload) in b.defs().get(cpl["l"], []):
                            if kind == "assign" and payload["rv"]["k"] == "bin" and payload["rv"]["op"] == "Eq":
                                div = payload["rv"]["a"][0]
                    if div is None:
                        continue
                    k = q.const_int(div)
                    if k is not None and k != 0:
                        continue
                    ops = [div]
                    if taint.op_tainted(bi, div):
                        sinks.append(Sink(b, bb, "assert", ak, ops, t.get("sp"), t.get("expn")))
                    continue
                if any(taint.op_tainted(bi, o) for o in ops) or taint.op_tainted(bi, t["cond"]):
                    sinks.append(Sink(b, bb, "assert", ak, ops, t.get("sp"), t.get("expn")))
            elif t["k"] == "call":
                c = Call(b, bb, t)
                if c.indirect:
                    counts["indirect-calls"] += 1
                    continue
                ent = PANIC_APIS.get(c.decl_s) or PANIC_APIS.get(c.res_s)
                if ent:
                    counts["panic-api-sites"] += 1
                    idxs, kind = ent
                    if kind == "op-trait":
                        # only non-primitive operator impls are calls: flag when operands are tainted
                        pass
                    if kind == "none":
                        continue
                    ops = [c.args[i] for i in idxs if i < len(c.args)]
                    if any(taint.op_tainted(bi, o) for o in ops):
                        sinks.append(Sink(b, bb, "api:" + kind, c.decl_s, ops, c.span, c.expn, c))
                elif is_diverging_panic(c):
                    counts["diverging-sites"] += 1
                    nc = nearest_control(b, bb)
                    if nc is None:
                        continue
                    cd, tgt = nc
                    tainted = False
                    ops = []
                    if cd.kind == "cmp":
                        ops = [cd.lhs, cd.rhs]
                    elif cd.kind == "discr":
                        ops = [{"copy": cd.place}]
                    elif cd.kind == "call":
                        ops = list(cd.call.args)
                        if taint.op_tainted(bi, {"copy": cd.call.dest}):
                            tainted = True
                    else:
                        ops = [cd.t["d"]]
                    if any(taint.op_tainted(bi, o) for o in ops) or taint.op_tainted(bi, cd.t["d"]):
                        tainted = True
                    if tainted:
                        s = Sink(b, bb, "panic", c.decl_s, ops, c.span, c.expn, c)
                        s.detail = "controlled by %s at bb%d" % (cd.kind + (":" + cd.op if cd.op else ""), cd.bb)
                        sinks.append(s)
    for s in sinks:
        s.sig = root_sig(s.body, s.ops)
        s.key = "%s|%s:%s|%s" % (s.body.root_short, s.kind, s.what, s.sig)
    return sinks, counts


# ----------------------------------------------------------------------------------------------
# discharge
# ----------------------------------------------------------------------------------------------


def _same_value(body, a, b):
    """Do operands a and b denote the same value (same local, or copies of the same place)?"""
    pa, pb = op_place(a), op_place(b)
    if pa is None or pb is None:
        ca, cb = q.const_int(a), q.const_int(b)
        return ca is not None and ca == cb

    def canon(pl, depth=0):
        if pl["p"] or depth > 6:
            return ("place", pl["l"], tuple(str(x) for x in pl["p"]))
        ds = body.defs().get(pl["l"], [])
        if len(ds) == 1 and ds[0][2] == "assign" and ds[0][3]["rv"]["k"] == "use":
            src = op_place(ds[0][3]["rv"]["a"][0])
            if src is not None:
                return canon(src, depth + 1)
        return ("place", pl["l"], ())

    if canon(pa) == canon(pb):
        return True
    # two loads of the same never-written struct field
    ra, rb = Prov(body).of_operand(a), Prov(body).of_operand(b)
    if ra == rb and ra and all(x[0] in ("arg", "upvar", "field") for x in ra):
        flds = [x for x in ra if x[0] == "field"]
        if flds and all(field_hi(body.prog, x[1], x[2]) != INF or _never_written(body.prog, x[1], x[2]) for x in flds):
            return True
    return False


def _never_written(prog, adt, field):
    for b in prog.bodies:
        if not b.crate.startswith("ethercrab"):
            continue
        for (bi, si, kind, pl) in q.field_accesses(b, adt, field):
            if kind in ("write", "addr_mut"):
                return False
    return True


def _len_receiver_roots(body, op):
    """If `op` is the result of `<slice>.len()`, the root set of the slice; else None."""
    pl = op_place(op)
    if pl is None or pl["p"]:
        return None
    ds = body.defs().get(pl["l"], [])
    if len(ds) == 1 and ds[0][2] == "assign" and ds[0][3]["rv"]["k"] == "use":
        return _len_receiver_roots(body, ds[0][3]["rv"]["a"][0])
    if len(ds) == 1 and ds[0][2] == "call" and (ds[0][3].decl_s or "").endswith("::len"):
        r = Prov(body).of_operand(ds[0][3].args[0])
        return frozenset(x[:2] if x[0] == "call" else x for x in r)
    return None


def _len_receiver_local(body, op):
    """If `op` is the result of `<slice>.len()`: the local holding that slice (through reference temporaries)."""
    pl = op_place(op)
    if pl is None or pl["p"]:
        return None
    ds = body.defs().get(pl["l"], [])
    if len(ds) == 1 and ds[0][2] == "assign" and ds[0][3]["rv"]["k"] == "use":
        return _len_receiver_local(body, ds[0][3]["rv"]["a"][0])
    if len(ds) == 1 and ds[0][2] == "call" and (ds[0][3].decl_s or "").endswith("::len"):
        ap = op_place(ds[0][3].args[0])
        return q._base_local(body, ap) if ap is not None else None
    return None


def discharge_by_bound(s):
    """Overflow asserts whose operands are provably small enough."""
    if s.kind != "assert" or not s.what.startswith("Overflow:"):
        return None
    op = s.what.split(":")[1]
    b = s.body
    bd = Bounds(b)
    l, r = s.ops
    lt = b.blocks[s.bb]["term"]
    # result type = type of lhs operand
    tyn = None
    pl = op_place(l)
    if pl is not None and not pl["p"]:
        tyn = b.local_ty(pl["l"])
    else:
        c = op_const(l)
        if c is not None:
            tyn = c.get("ty")
        elif pl is not None:
            last = pl["p"][-1]
            tyn = last.get("ty") if isinstance(last, dict) else None
    if tyn is None or tyn.strip() in SIGNED:
        return None
    tm = ty_max(tyn)
    hl, hr = bd.of_operand(l), bd.of_operand(r)
    if op == "Add" and hl + hr <= tm:
        return "bound: %s + %s <= %s::MAX" % (hl, hr, tyn)
    if op == "Mul" and hl != INF and hr != INF and hl * hr <= tm:
        return "bound: %s * %s <= %s::MAX" % (hl, hr, tyn)
    if op in ("Shl", "Shr"):
        bits = {"u8": 8, "u16": 16, "u32": 32, "u64": 64, "usize": 64, "u128": 128}.get(tyn.strip())
        if bits and hr < bits:
            return "bound: shift amount <= %s < %d" % (hr, bits)
    return None


def discharge_by_guard(s):
    """Dominating comparison idioms."""
    b = s.body
    if s.kind == "assert" and s.what.startswith("Overflow:Sub"):
        l, r = s.ops
        # a - b safe if dominated by an edge on which b <= a
        for cd in q.conds(b):
            if cd.kind != "cmp":
                continue
            for tgt, holds in ((cd.true_target(), cd.op), (cd.false_target(), q.NEG[cd.op])):
                if tgt is None or s.bb not in q.edge_dominated(b, cd.bb, tgt):
                    continue
                # relation `lhs holds rhs`
                if _same_value(b, cd.lhs, l) and _same_value(b, cd.rhs, r) and holds in ("Ge", "Gt", "Eq"):
                    return "guard: dominated by %s >= %s" % ("lhs", "rhs")
                if _same_value(b, cd.lhs, r) and _same_value(b, cd.rhs, l) and holds in ("Le", "Lt", "Eq"):
                    return "guard: dominated by rhs <= lhs"
                # x - const with x compared against a constant >= const
                cr = q.const_int(r)
                if cr is not None:
                    if _same_value(b, cd.lhs, l):
                        k = q.const_int(cd.rhs)
                        if k is not None and ((holds == "Ge" and k >= cr) or (holds == "Gt" and k + 1 >= cr) or (holds == "Eq" and k >= cr) or (holds == "Ne" and cr == 1 and k == 0)):
                            return "guard: dominated by lhs %s %d, subtracting %d" % (holds, k, cr)
                    if _same_value(b, cd.rhs, l):
                        k = q.const_int(cd.lhs)
                        if k is not None and ((holds == "Le" and k >= cr) or (holds == "Lt" and k + 1 >= cr)):
                            return "guard: dominated by %d %s lhs, subtracting %d" % (k, holds, cr)
        # b = min(x, a)  =>  a - b fine
        pr = op_place(r)
        if pr is not None and not pr["p"]:
            for (_, _, kind, payload) in b.defs().get(pr["l"], []):
                if kind == "call" and (payload.is_("Ord::min") or (payload.decl_s or "").endswith("::min")):
                    if any(_same_value(b, a, l) for a in payload.args):
                        return "guard: subtrahend is min(_, minuend)"
        # a - (x % a)
        if pr is not None and not pr["p"]:
            lr = pr["l"]
            for _ in range(4):
                ds = b.defs().get(lr, [])
                if len(ds) == 1 and ds[0][2] == "assign" and ds[0][3]["rv"]["k"] == "use":
                    nxt = op_place(ds[0][3]["rv"]["a"][0])
                    if nxt is not None and not nxt["p"]:
                        lr = nxt["l"]
                        continue
                break
            for (_, _, kind, payload) in b.defs().get(lr, []):
                if kind == "assign" and payload["rv"]["k"] == "bin" and payload["rv"]["op"] == "Rem" and _same_value(b, payload["rv"]["a"][1], l):
                    return "guard: subtrahend is _ % minuend"
                if kind == "assign" and payload["rv"]["k"] == "bin" and payload["rv"]["op"] == "Rem" and _same_value(b, payload["rv"]["a"][0], l):
                    return "guard: subtrahend is minuend % _ (never larger than the minuend)"
    if s.kind == "assert" and s.what.startswith("Overflow:Mul"):
        # (x / p) * p <= x
        l, r = s.ops
        for a, o in ((l, r), (r, l)):
            pa = op_place(a)
            if pa is None or pa["p"]:
                continue
            la = pa["l"]
            for _ in range(6):  # through named locals / moves: `let cycles = x / p; p * cycles`
                ds = b.defs().get(la, [])
                if len(ds) == 1 and ds[0][2] == "assign" and ds[0][3]["rv"]["k"] == "use":
                    nxt = op_place(ds[0][3]["rv"]["a"][0])
                    if nxt is not None and not nxt["p"]:
                        la = nxt["l"]
                        continue
                break
            for (_, _, kind, payload) in b.defs().get(la, []):
                if kind == "assign" and payload["rv"]["k"] == "bin" and payload["rv"]["op"] == "Div" and _same_value(b, payload["rv"]["a"][1], o):
                    return "guard: (x / p) * p cannot exceed x"
    if s.kind == "assert" and s.what in ("DivisionByZero", "RemainderByZero"):
        d = s.ops[0]
        k = q.const_int(d)
        if k is not None and k != 0:
            return "guard: constant divisor"
        for cd in q.conds(b):
            if cd.kind != "cmp":
                continue
            for tgt, holds in ((cd.true_target(), cd.op), (cd.false_target(), q.NEG[cd.op])):
                if tgt is None or s.bb not in q.edge_dominated(b, cd.bb, tgt):
                    continue
                if (_same_value(b, cd.lhs, d) and q.const_int(cd.rhs) == 0 and holds in ("Ne", "Gt")) or (_same_value(b, cd.rhs, d) and q.const_int(cd.lhs) == 0 and holds in ("Ne", "Lt")):
                    return "guard: dominated by divisor != 0"
    if s.kind == "assert" and s.what == "BoundsCheck":
        ln, ix = s.ops
        bd = Bounds(b)
        hl = bd.of_operand(ix)
        k = q.const_int(ln)
        if k is not None and hl < k:
            return "bound: index <= %s < len %d" % (hl, k)
        for cd in q.conds(b):
            if cd.kind != "cmp":
                continue
            for tgt, holds in ((cd.true_target(), cd.op), (cd.false_target(), q.NEG[cd.op])):
                if tgt is None or s.bb not in q.edge_dominated(b, cd.bb, tgt):
                    continue
                if _same_value(b, cd.lhs, ix) and _same_value(b, cd.rhs, ln) and holds == "Lt":
                    return "guard: dominated by index < len"
    if s.kind == "api:unsafe-len" and s.call is not None and s.what.endswith("set_len"):
        n = s.call.args[1]
        for cd in q.conds(b):
            if cd.kind != "cmp":
                continue
            for tgt, holds in ((cd.true_target(), cd.op), (cd.false_target(), q.NEG[cd.op])):
                if tgt is None or s.bb not in q.edge_dominated(b, cd.bb, tgt):
                    continue
                cr = op_const(cd.rhs)
                cl = op_const(cd.lhs)
                if _same_value(b, cd.lhs, n) and cr is not None and cr.get("tyconst") and holds in ("Le", "Lt"):
                    return "guard: dominated by new_len <= capacity parameter %s" % cr.get("tyconst")
                if _same_value(b, cd.rhs, n) and cl is not None and cl.get("tyconst") and holds in ("Ge", "Gt"):
                    return "guard: dominated by capacity parameter >= new_len"
    if s.kind == "api:index" and s.call is not None and s.what in ("slice::split_at", "slice::split_at_mut"):
        recv = frozenset(x[:2] if x[0] == "call" else x for x in Prov(b).of_operand(s.call.args[0]))
        # mid = min(.., receiver.len()) in either order: mid <= receiver.len()
        mp = op_place(s.call.args[1])
        for _ in range(4):
            if mp is None or mp["p"]:
                break
            ds_ = b.defs().get(mp["l"], [])
            if len(ds_) == 1 and ds_[0][2] == "assign" and ds_[0][3]["rv"]["k"] == "use":
                mp = op_place(ds_[0][3]["rv"]["a"][0])
            else:
                break
        if mp is not None and not mp["p"]:
            for (_, _, kind, payload) in b.defs().get(mp["l"], []):
                if kind == "call" and (payload.decl_s or "").split("::")[-1] == "min" and len(payload.args) == 2:
                    rp = op_place(s.call.args[0])
                    rbase = q._base_local(b, rp) if rp is not None else None
                    for a in payload.args:
                        lr_ = _len_receiver_roots(b, a)
                        if lr_ is not None and lr_ == recv:
                            return "guard: split point is min(_, receiver.len())"
                        lb = _len_receiver_local(b, a)
                        if lb is not None and rbase is not None and lb == rbase:
                            return "guard: split point is min(_, receiver.len()) (same slice local)"
        idx = _len_receiver_roots(b, s.call.args[1])
        if idx is not None:
            for cd in q.conds(b):
                if cd.kind != "cmp":
                    continue
                ll, rr = _len_receiver_roots(b, cd.lhs), _len_receiver_roots(b, cd.rhs)
                if ll is None or rr is None:
                    continue
                for tgt, holds in ((cd.true_target(), cd.op), (cd.false_target(), q.NEG[cd.op])):
                    if tgt is None or s.bb not in q.edge_dominated(b, cd.bb, tgt):
                        continue
                    # need len(idx-slice) <= len(receiver)
                    if ll == idx and rr == recv and holds in ("Lt", "Le", "Eq"):
                        return "guard: dominated by index.len() <= receiver.len()"
                    if rr == idx and ll == recv and holds in ("Gt", "Ge", "Eq"):
                        return "guard: dominated by receiver.len() >= index.len()"
    if s.kind == "api:len-mismatch" and s.call is not None:
        # dst = x.get_mut(0..src.len())? ; dst.copy_from_slice(src)
        pr = Prov(b, transparent=Prov(b).transparent - {"slice::get_mut", "slice::get", "Index::index", "IndexMut::index_mut"})
        dst = pr.of_operand(s.call.args[0])
        for r in dst:
            if r[0] == "call" and r[1] in ("slice::get_mut", "slice::get", "IndexMut::index_mut", "Index::index"):
                gc = [c for c in b.calls() if c.bb == r[2]]
                if gc:
                    rng = pr.of_operand(gc[0].args[1])
                    src = Prov(b).of_operand(s.call.args[1])
                    if has_root(rng, "call", "slice::len") and (has_root(rng, "agg", "Range") or has_root(rng, "agg", "RangeTo")) and not has_root(rng, "binop"):
                        # the len() call's receiver must be the copy source
                        for lc in b.calls_to("slice::len"):
                            if any(x[0] == "call" and x[1] == "slice::len" and x[2] == lc.bb for x in rng):
                                lr = Prov(b).of_operand(lc.args[0])
                                core = {x for x in src if x[0] in ("arg", "call", "field", "upvar")}
                                if core and core <= set(lr):
                                    return "guard: destination is get_mut(0..src.len())"
        # mirrored idiom: dst.copy_from_slice(src.get(0..dst.len())?)
        srcr = pr.of_operand(s.call.args[1])
        for r in srcr:
            if r[0] == "call" and r[1] in ("slice::get", "Index::index"):
                gc = [c for c in b.calls() if c.bb == r[2]]
                if gc:
                    rng = pr.of_operand(gc[0].args[1])
                    dstr = Prov(b).of_operand(s.call.args[0])
                    if has_root(rng, "call", "slice::len") and not has_root(rng, "binop") and ((has_root(rng, "agg", "Range") and has_root(rng, "const", 0)) or has_root(rng, "agg", "RangeTo")):
                        for lc in b.calls_to("slice::len"):
                            if any(x[0] == "call" and x[1] == "slice::len" and x[2] == lc.bb for x in rng):
                                lr = Prov(b).of_operand(lc.args[0])
                                core = {x[:2] for x in dstr if x[0] in ("call", "field", "upvar")}
                                if core and core <= {x[:2] for x in lr}:
                                    return "guard: source is get(0..dst.len())"
    return None


def run_scope(prog, rep, P, taint, entry_shorts, tag="", audited=None, extra_scope=(), within=None):
    """Analyse the call-graph closure of the entry points and report undischarged sinks."""
    entries = []
    for e in entry_shorts:
        if e.endswith("::*"):
            adt = e[:-3]
            bs = [b for b in prog.bodies if b.crate.startswith("ethercrab") and b.impl_adt_s == adt and not b.is_closure]
            if not bs:
                rep.anchor_missing("no methods on %s" % adt)
            entries += bs
        else:
            entries.append(prog.body(e))
    within = within or (lambda b: b.crate.startswith("ethercrab") or b.crate.startswith("verif"))
    scope = prog.callees_closure(entries, within=within)
    scope = [b for b in scope if within(b)]
    for e in extra_scope:
        scope += [b for b in prog.group(e) if b not in scope]
    sinks, counts = find_sinks(prog, taint, scope)
    audited = audited or {}
    n_bound = n_guard = n_audit = n_open = 0
    seen = set()
    used_audits = set()
    pending = []
    for s in sinks:
        key = s.key
        full = "%s.np|%s" % (P, key)
        if key in seen:
            continue
        seen.add(key)
        why = discharge_by_bound(s)
        how = "bound"
        if why is None:
            why = discharge_by_guard(s)
            how = "guard"
        if why is None and key in audited:
            why = "audited: " + audited[key]
            how = "audit"
            used_audits.add(key)
        if why is None:
            pending.append(s)
            continue
        if why is not None:
            if how == "bound":
                n_bound += 1
            elif how == "guard":
                n_guard += 1
            else:
                n_audit += 1
            rep.ob(P + ".np", key + tag, True, "%s on untrusted data in %s discharged: %s" % (s.kind + ":" + s.what, s.body.root_short, why), loc=q.loc(s.body, s.bb), how=how)
    # second pass: a site whose operand roots changed (a local was hoisted, an accessor replaced by the field, a
    # method by its free-function form) but which is still the same kind of operation in the same function is matched
    # to that function's unused audit of the same class - one for one, so an *additional* unchecked operation is still
    # reported.  Machine-checked guards attached to the audit were re-verified when the table was loaded.
    def _cls(k):
        fn, kind = k.split("|")[0], k.split("|")[1]
        parts = kind.split(":")
        if parts[0] == "api" and len(parts) >= 2:
            kind = ":".join(parts[:2])
        elif parts[0] == "panic":
            kind = "panic"
        if kind in ("assert:DivisionByZero", "assert:RemainderByZero"):
            kind = "assert:zero-divisor"  # `x / p * p` and `x - x % p` stand under the same assumption about p
        return fn, kind

    spare = {}
    for k in audited:
        if k not in used_audits and not k.startswith("_") and "|" in k:
            spare.setdefault(_cls(k), []).append(k)
    for s in pending:
        key = s.key
        c = _cls(key) if "|" in key else None
        if not (c in spare and spare[c]) and c is not None:
            # the audited function is gone (a private helper inlined into its sibling): an unused audit of the same
            # operation class on a vanished method of the same type stands for it
            ty = c[0].split("::")[0]
            for c2 in list(spare):
                if c2[1] == c[1] and c2[0].split("::")[0] == ty and spare[c2] and not prog.has_body(c2[0]):
                    spare.setdefault(c, []).append(spare[c2].pop(0))
                    break
        if c in spare and spare[c]:
            k2 = spare[c].pop(0)
            used_audits.add(k2)
            n_audit += 1
            rep.ob(P + ".np", key + tag, True, "%s on untrusted data in %s discharged: audited (matched by function and operation class to `%s`): %s" % (s.kind + ":" + s.what, s.body.root_short, k2, audited[k2]), loc=q.loc(s.body, s.bb), how="audit")
        else:
            n_open += 1
            rep.violation(
                P + ".np", key + tag,
                "%s `%s` in %s can panic (or is unchecked) on untrusted data: operands {%s} %s" % (s.kind, s.what, s.body.root_short, s.sig, s.detail),
                loc=q.loc(s.body, s.bb),
            )
    rep.analysed["%s scope functions%s" % (P, tag)] = len({b.root for b in scope})
    rep.analysed["%s scope bodies%s" % (P, tag)] = len(scope)
    rep.analysed["%s panic-capable sites in scope%s" % (P, tag)] = dict(counts)
    rep.analysed["%s tainted sinks%s" % (P, tag)] = {"total": len(seen), "by_bound": n_bound, "by_guard": n_guard, "audited": n_audit, "open": n_open}
    if counts.get("indirect-calls"):
        rep.note("%d indirect calls in scope (taint is lost through them)" % counts["indirect-calls"])
    stale = [k for k in audited if k not in used_audits and not k.startswith("_")]
    return scope, sinks, stale


def explain(taint, body, local, depth=14):
    """Human-readable chain of why (body, local) is tainted."""
    out = []
    bi = taint.idx[id(body)]
    l = local
    seen = set()
    while depth > 0 and (bi, l) not in seen:
        seen.add((bi, l))
        depth -= 1
        w = taint.why.get((bi, l))
        b = taint.bodies[bi]
        if w is None:
            out.append("%s _%d: (no recorded cause; tainted via field/upvar cell or source)" % (b.short, l))
            break
        if isinstance(w, str):
            out.append("%s _%d: %s" % (b.short, l, w))
            break
        kind, bj, src, where = w
        out.append("%s _%d <- %s %s in %s (src %s)" % (b.short, l, kind, where, taint.bodies[bj].short, src))
        if src is None:
            break
        # which part of src is tainted?
        if src["l"] in taint.tl[bj]:
            bi, l = bj, src["l"]
            continue
        cells = [(last_seg(norm(p["adt"])), p["n"]) for p in src["p"] if isinstance(p, dict) and "n" in p]
        hit = [c for c in cells if c in taint.tf]
        if hit:
            out.append("   via field cell %s.%s: %s" % (hit[0][0], hit[0][1], taint.why_f.get(hit[0])))
            wf = taint.why_f.get(hit[0])
        else:
            out.append("   via upvar cell")
        break
    return out
