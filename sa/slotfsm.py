"""SLOTFSM engine: the frame-slot state machine and its typestate handles (DESIGN.md 2.2).
Serves C01, C02, C03, C06, C20.  All facts come from MIR of pdu_loop/**."""
from collections import defaultdict

from . import q
from .core import Prov, has_root, last_seg, norm, op_place, roots_str

STATES = ["None", "Created", "Sendable", "Sending", "Sent", "RxBusy", "RxDone", "RxProcessing"]

# documented lifecycle: free -> built -> ready -> sending -> sent -> receiving -> received -> read -> free
LIFECYCLE_CAS = {
    ("None", "Created"), ("Created", "None"), ("Sendable", "Sending"), ("Sent", "RxBusy"),
    ("RxBusy", "RxDone"), ("RxDone", "RxProcessing"), ("RxProcessing", "None"),
    # the transmit side lets go: sent, or (send failed) ready again - only if the slot is still its own
    ("Sending", "Sent"), ("Sending", "Sendable"),
    # the receive side hands back a slot it claimed for a response that turned out not to be this slot's
    ("RxBusy", "Sent"),
    # retry: a request still waiting for its response is queued for transmission again
    ("Sent", "Sendable"),
}
# transitions that grant a new party access to the buffer: must be compare-exchange
GRANTING_TO = {"Created", "Sending", "RxBusy", "RxProcessing"}

EXPECTED_CAS = {
    ("FrameElement::claim_created", "None", "Created"),
    ("FrameElement::claim_sending", "Sendable", "Sending"),
    ("FrameElement::claim_receiving", "Sent", "RxBusy"),
    ("ReceivingFrame::mark_received", "RxBusy", "RxDone"),
    ("<ReceiveFrameFut as Future>::poll", "RxDone", "RxProcessing"),
    ("<ReceivedFrame as Drop>::drop", "RxProcessing", "None"),
    ("<CreatedFrame as Drop>::drop", "Created", "None"),
    ("SendableFrame::mark_sent", "Sending", "Sent"),
    ("SendableFrame::release_sending_claim", "Sending", "Sendable"),
    ("ReceivingFrame::release_receiving_claim", "RxBusy", "Sent"),
    ("<ReceiveFrameFut as Future>::poll", "Sent", "Sendable"),
}
EXPECTED_STORES = {
    ("CreatedFrame::mark_sendable", "Sendable"): "publish by the sole holder (Created has no other party)",
    ("ReceiveFrameFut::release", "None"): "expiry/abandon",
    ("PduStorageRef::reset", "None"): "reset under MainDevice::release's unsafe contract",
}

PRIMS = {
    # function short -> (kind, index of `from` arg or None, index of `to` arg)  (0-based in call args)
    "FrameElement::set_state": ("store", None, 1),
    "FrameElement::swap_state": ("cas", 1, 2),
}


def short_name(b):
    return getattr(b, 'root_short', None) or getattr(b, 'short', str(b))


def _state_of(roots):
    vs = [r[2] for r in roots if r[0] == "agg" and r[1] == "FrameState"]
    cs = [r[1].split("::")[-1] for r in roots if r[0] == "const" and isinstance(r[1], str) and r[1].startswith("FrameState::")]
    vs = sorted(set(vs + cs))
    return vs


def _arg_index(roots):
    for r in roots:
        if r[0] == "arg":
            return r[1] - 1  # local index 1 = arg 0
    return None


def transitions(prog):
    """Enumerate every site that changes FrameElement.status, resolved to constant states through
    wrappers. Returns (sites, problems). site = dict(fn, kind, frm, to, call, body)."""
    sites = []
    problems = []
    work = [(name, spec) for name, spec in PRIMS.items()]
    seen = set()
    while work:
        fname, (kind, fi, ti) = work.pop()
        if (fname, kind, fi, ti) in seen:
            continue
        seen.add((fname, kind, fi, ti))
        for c in prog.calls_of(fname):
            b = c.body
            if b.crate != "ethercrab":
                continue
            pr = Prov(b)
            to_r = pr.of_operand(c.args[ti])
            fr_r = pr.of_operand(c.args[fi]) if fi is not None else None
            to_s = _state_of(to_r)
            fr_s = _state_of(fr_r) if fr_r is not None else None
            to_arg = _arg_index(to_r) if not to_s else None
            fr_arg = _arg_index(fr_r) if (fr_r is not None and not fr_s) else None
            if b.is_closure and (to_arg is not None or fr_arg is not None):
                problems.append((b, c, "state argument flows through a closure parameter"))
                continue
            if (not to_s and to_arg is None) or (fi is not None and not fr_s and fr_arg is None):
                problems.append((b, c, "state argument is neither a FrameState constant nor a parameter: to=%s from=%s" % (roots_str(to_r), roots_str(fr_r or []))))
                continue
            if to_arg is not None or fr_arg is not None:
                # wrapper: both must be parameters (or constants) of the enclosing fn
                if (to_s and fr_arg is not None) or (fr_s and to_arg is not None):
                    problems.append((b, c, "wrapper mixes constant and parameter states"))
                    continue
                work.append((b.root_short, (kind, fr_arg, to_arg)))
                continue
            if len(to_s) != 1 or (fr_s is not None and len(fr_s) != 1):
                problems.append((b, c, "ambiguous constant states to=%s from=%s" % (to_s, fr_s)))
                continue
            sites.append({"fn": b.root_short, "kind": kind, "frm": fr_s[0] if fr_s else None, "to": to_s[0], "call": c, "body": b})
    return sites, problems


def atomic_prims(prog):
    """Direct operations on AtomicFrameState anywhere in the crate: (body, call, op)."""
    out = []
    for b in prog.bodies:
        if b.crate != "ethercrab":
            continue
        for c in b.calls():
            n = c.decl_s or ""
            if n.startswith("AtomicFrameState::"):
                op = n.split("::")[1]
                if b.impl_adt_s == "AtomicFrameState":
                    continue  # the generated wrapper itself
                out.append((b, c, op))
    return out


def ordering_of(body, op):
    r = Prov(body).of_operand(op)
    vs = sorted({x[2] for x in r if x[0] == "agg" and x[1] == "Ordering"})
    return vs[0] if len(vs) == 1 else None


def s1(prog, rep, P, tag=""):
    """Transition table."""
    sites, problems = transitions(prog)
    for b, c, why in problems:
        rep.violation(P + ".S1", "unresolved|%s%s" % (b.root_short, tag), "cannot resolve slot state change in %s: %s" % (b.root_short, why), loc=c.span)
    rep.floor(P + " state-change sites" + tag, len(sites), 13)
    cas = {(s["fn"], s["frm"], s["to"]) for s in sites if s["kind"] == "cas"}
    stores = {(s["fn"], s["to"]) for s in sites if s["kind"] == "store"}
    for s in sites:
        key = "%s:%s%s->%s%s" % (s["kind"], s["fn"] + ":", s["frm"] or "*", s["to"], tag)
        if s["kind"] == "cas":
            ok = (s["frm"], s["to"]) in LIFECYCLE_CAS
            rep.ob(P + ".S1", key, ok, "compare-exchange %s->%s in %s %s the documented lifecycle" % (s["frm"], s["to"], s["fn"], "lies on" if ok else "is NOT on"), loc=s["call"].span, how="table")
            ok2 = (s["fn"], s["frm"], s["to"]) in EXPECTED_CAS
            rep.ob(P + ".S1", "site-" + key, ok2, "compare-exchange site %s" % ("is one of the seven audited sites" if ok2 else "is UNAUDITED (new transition site)"), loc=s["call"].span, how="inventory", nontrivial=False)
        else:
            granting = s["to"] in GRANTING_TO
            rep.ob(P + ".S1", key, not granting, "plain store ->%s in %s: %s" % (s["to"], s["fn"], "GRANTS ACCESS WITHOUT A COMPARE-EXCHANGE (two parties can both believe they own the buffer)" if granting else "does not grant buffer access"), loc=s["call"].span, how="table")
            ok2 = (s["fn"], s["to"]) in EXPECTED_STORES
            rep.ob(P + ".S1", "site-" + key, ok2, ("audited store: " + EXPECTED_STORES.get((s["fn"], s["to"]), "")) if ok2 else "UNAUDITED plain store to the slot state (a compare-exchange weakened to a store, or a new writer)", loc=s["call"].span, how="inventory", nontrivial=False)
    # every expected claim is still a CAS
    for e in sorted(EXPECTED_CAS):
        rep.ob(P + ".S1", "present:%s:%s->%s%s" % (e + (tag,)), e in cas, "audited compare-exchange %s->%s still present in %s" % (e[1], e[2], e[0]), how="inventory", nontrivial=False)
    # primitives: swap_state is a compare_exchange with AcqRel success whose failure is returned; set_state a Release store
    prims = atomic_prims(prog)
    allowed_prim = {("FrameElement::swap_state", "compare_exchange"), ("FrameElement::set_state", "store")}
    for b, c, op in prims:
        if op in ("load", "new", "fmt"):
            continue
        ok = (b.root_short, op) in allowed_prim
        rep.ob(P + ".S1", "prim:%s.%s%s" % (b.root_short, op, tag), ok, "AtomicFrameState::%s used in %s" % (op, b.root_short), loc=c.span, how="inventory", nontrivial=False)
    sw = prog.body("FrameElement::swap_state")
    cx = sw.calls_to("AtomicFrameState::compare_exchange")
    ok = len(cx) == 1
    if ok:
        c = cx[0]
        pr = Prov(sw)
        ok_from = has_root(pr.of_operand(c.args[1]), "arg", 2)
        ok_to = has_root(pr.of_operand(c.args[2]), "arg", 3)
        succ = ordering_of(sw, c.args[3])
        rep.ob(P + ".S1", "swap_state:cas-args" + tag, ok_from and ok_to, "swap_state passes (from,to) unchanged to compare_exchange", loc=c.span, how="dataflow")
        rep.ob(P + ".S1", "swap_state:success-ordering" + tag, succ in ("AcqRel", "SeqCst"), "success ordering of every claim is %s (needs >= Acquire and >= Release)" % succ, loc=c.span, how="dataflow")
        tr = q.ok_edge_of_try(sw, c)
        oks = q.aggregates(sw, "Result", "Ok")
        good = tr is not None and oks and all(bi in q.edge_dominated(sw, tr[0], tr[1]) for bi, _, _ in oks)
        rep.ob(P + ".S1", "swap_state:failure-propagated" + tag, bool(good), "Ok is returned only on the success edge of the compare_exchange", loc=c.span)
    else:
        rep.ob(P + ".S1", "swap_state:cas-present" + tag, False, "FrameElement::swap_state no longer contains exactly one compare_exchange on the slot state (a claim that cannot fail is no claim)", loc=sw.span)
    st = prog.body("FrameElement::set_state")
    ss = st.calls_to("AtomicFrameState::store")
    if len(ss) == 1:
        o = ordering_of(st, ss[0].args[2])
        rep.ob(P + ".S1", "set_state:ordering" + tag, o in ("Release", "SeqCst"), "publishing stores use ordering %s (needs >= Release)" % o, loc=ss[0].span, how="dataflow")
    else:
        rep.ob(P + ".S1", "set_state:store-present" + tag, False, "FrameElement::set_state is not a single atomic store", loc=st.span)
    # FrameBox wrappers pass through
    fb = prog.body("FrameBox::swap_state")
    c = fb.calls_to("FrameElement::swap_state")
    rep.ob(P + ".S1", "FrameBox::swap_state:delegates" + tag, len(c) == 1 and not fb.calls_to("FrameElement::set_state"), "FrameBox::swap_state delegates to the compare-exchange", loc=fb.span, how="inventory", nontrivial=False)
    return sites


HANDLE_CTORS = {
    "CreatedFrame": ("CreatedFrame::claim_created", "FrameElement::claim_created"),
    "SendableFrame": ("SendableFrame::claim_sending", "FrameElement::claim_sending"),
    "ReceivingFrame": ("ReceivingFrame::claim_receiving", "FrameElement::claim_receiving"),
    "ReceivedFrame": ("ReceivedFrame::new", None),
    "ReceiveFrameFut": ("CreatedFrame::mark_sendable", None),
}


def s2(prog, rep, P, tag=""):
    """Handle construction only on the Ok edge of the corresponding claim."""
    n = 0
    for b in prog.bodies:
        if b.crate != "ethercrab":
            continue
        for adt, (ctor, claim) in HANDLE_CTORS.items():
            for bi, si, s in q.aggregates(b, adt):
                n += 1
                ok = b.root_short == ctor
                rep.ob(P + ".S2", "ctor:%s in %s%s" % (adt, b.root_short, tag), ok, "%s is constructed in %s (%s)" % (adt, b.root_short, "its claim function" if ok else "NOT its claim function: a handle without a claim"), loc=q.loc(b, bi, si), how="inventory", nontrivial=False)
                if ok and claim:
                    cl = b.calls_to(claim)
                    good = False
                    if len(cl) == 1:
                        tr = q.ok_edge_of_try(b, cl[0])
                        good = tr is not None and tr[1] is not None and bi in q.edge_dominated(b, tr[0], tr[1])
                        # and the FrameBox inside wraps the pointer returned by the claim
                        inner = q.agg_field(s, "inner")
                        r = Prov(b).of_operand(inner)
                        good = good and has_root(r, "call", "FrameBox::new")
                    rep.ob(P + ".S2", "claim-dominates:%s%s" % (adt, tag), good, "%s{..} is built only on the success edge of %s" % (adt, claim), loc=q.loc(b, bi, si))
    rep.floor(P + " handle constructions" + tag, n, 5)
    # FrameBox::new callers
    for c in prog.calls_of("FrameBox::new"):
        if c.body.crate != "ethercrab":
            continue
        ok = c.body.root_short in ("CreatedFrame::claim_created", "SendableFrame::claim_sending", "ReceivingFrame::claim_receiving")
        rep.ob(P + ".S2", "FrameBox::new<-%s%s" % (c.body.root_short, tag), ok, "FrameBox::new called from %s" % c.body.root_short, loc=c.span, how="inventory", nontrivial=False)
    # ReceivedFrame::new only from poll, on the success edge of RxDone->RxProcessing
    poll = prog.body("<ReceiveFrameFut as Future>::poll")
    for c in prog.calls_of("ReceivedFrame::new"):
        if c.body.crate != "ethercrab":
            continue
        ok = c.body is poll
        if ok:
            sw = [x for x in poll.calls_to("FrameBox::swap_state")]
            ok = False
            for x in sw:
                pr = Prov(poll)
                if _state_of(pr.of_operand(x.args[2])) != ["RxProcessing"]:
                    continue
                tb = x.target
                if tb is not None and poll.term(tb)["k"] == "switch":
                    cd = q.Cond(poll, tb)
                    vt = cd.variant_targets(prog)
                    if vt.get("Ok") is not None and c.bb in q.edge_dominated(poll, tb, vt["Ok"]):
                        ok = True
        rep.ob(P + ".S2", "ReceivedFrame::new<-%s%s" % (c.body.root_short, tag), ok, "ReceivedFrame::new is reached only on the Ok edge of the RxDone->RxProcessing compare-exchange in poll", loc=c.span)
    # claim-before-touch: nothing of the slot is written before the claim succeeded
    fe = prog.body("FrameElement::claim_created")
    sw = fe.calls_to("FrameElement::swap_state")
    ok = len(sw) == 1
    if ok:
        tr = q.ok_edge_of_try(fe, sw[0])
        if tr is None:
            for m in fe.calls():
                if m.is_("Result::map_err") and (op_place(m.args[0]) or {}).get("l") == sw[0].dest["l"]:
                    tr = q.ok_edge_of_try(fe, m)
        dom = q.edge_dominated(fe, tr[0], tr[1]) if tr and tr[1] is not None else set()
        wr = [a for f in ("storage_slot_index", "pdu_payload_len", "first_pdu", "ethernet_frame", "waker") for a in q.field_accesses(fe, "FrameElement", f) if a[2] in ("write", "addr_mut")]
        ok = bool(dom) and bool(wr) and all(a[0] in dom for a in wr)
    rep.ob(P + ".S2", "claim_created:claim-before-touch" + tag, ok, "FrameElement::claim_created writes slot fields only on the success edge of the None->Created compare-exchange", loc=fe.span)
    cc = prog.body("CreatedFrame::claim_created")
    cl = cc.calls_to("FrameElement::claim_created")
    ini = cc.calls_to("FrameBox::init")
    ok = len(cl) == 1 and len(ini) == 1
    if ok:
        tr = q.ok_edge_of_try(cc, cl[0])
        ok = tr is not None and tr[1] is not None and ini[0].bb in q.edge_dominated(cc, tr[0], tr[1])
    rep.ob(P + ".S2", "claim_created:init-after-claim" + tag, ok, "the buffer is (re)initialised only after the claim succeeded", loc=cc.span)
    # mark_sendable consumes the CreatedFrame (self by value)
    ms = prog.body("CreatedFrame::mark_sendable")
    rep.ob(P + ".S2", "mark_sendable:consumes-self" + tag, "CreatedFrame" in ms.local_ty(1) and not ms.local_ty(1).startswith("&"), "mark_sendable takes the CreatedFrame by value (type %s)" % ms.local_ty(1), loc=ms.span, how="type", nontrivial=False)


def s3(prog, rep, P, table, tag=""):
    """Who touches the buffer: FrameBox accessors are called only from the audited handle types."""
    n = 0
    for callee, allowed in table["frame_box_accessors"].items():
        sites = [c for c in prog.calls_of(callee) if c.body.crate == "ethercrab"]
        pairs = defaultdict(list)
        for c in sites:
            who = c.body.impl_adt_s or c.body.root_short
            pairs[who].append(c)
        for who, cs in sorted(pairs.items()):
            n += 1
            ok = who in allowed
            rep.ob(P + ".S3", "%s<-%s%s" % (callee, who, tag), ok, "%s called from %s (%s): %s" % (callee, who, ", ".join(sorted({c.body.root_short for c in cs})), allowed.get(who, "UNAUDITED party touching the frame buffer")), loc=cs[0].span, how="inventory")
    rep.floor(P + " buffer accessor pairs" + tag, n, table["_floor_pairs"])
    # raw field access to the buffer / raw pointer helpers
    for b in prog.bodies:
        if b.crate != "ethercrab":
            continue
        acc = q.field_accesses(b, "FrameElement", "ethernet_frame")
        if acc:
            ok = b.root_short in table["raw_buffer_field"]
            rep.ob(P + ".S3", "raw-field<-%s%s" % (b.root_short, tag), ok, "FrameElement.ethernet_frame touched directly in %s" % b.root_short, loc=b.span, how="inventory", nontrivial=False)
    for helper in ("FrameElement::ptr", "FrameElement::ethercat_payload_ptr"):
        for c in prog.calls_of(helper):
            if c.body.crate != "ethercrab":
                continue
            ok = c.body.impl_adt_s in ("FrameBox", "FrameElement")
            rep.ob(P + ".S3", "%s<-%s%s" % (helper, c.body.root_short, tag), ok, "%s called from %s" % (helper, c.body.root_short), loc=c.span, how="inventory", nontrivial=False)


def _blocks_calling(body, *names):
    return {c.bb for c in body.calls() if c.is_(*names)}


def claim_ok_edge(b, claim):
    """(switch block, target on which the claim succeeded, target on which it failed) for `claim(..)?`,
    `claim(..).ok_or(..)?` and `let Some(x) = claim(..) else {..}` / `match` / `if let`."""
    tr = q.ok_edge_of_try(b, claim)
    if tr is None:
        for c in b.calls():
            if c.is_("Option::ok_or", "Option::ok_or_else") and (op_place(c.args[0]) or {}).get("l") == claim.dest["l"]:
                tr = q.ok_edge_of_try(b, c)
    if tr is None:
        pr = Prov(b)
        for cd in q.conds(b):
            if cd.kind == "discr" and "Option" in (cd.enum_ty or "") and any(x[0] == "call" and x[2] == claim.bb for x in pr.of_operand({"copy": cd.place}) if len(x) > 2):
                vt = cd.variant_targets(b.prog)
                if vt.get("Some") is not None:
                    tr = (cd.bb, vt.get("Some"), vt.get("None"))
    return tr


def s4(prog, rep, P, tag="", parts=("mark_sendable", "receive_frame", "mark_received", "poll", "send_blocking")):
    """Publish-after-write orderings."""
    if "send_blocking" in parts:
        b = prog.body("SendableFrame::send_blocking")
        pr = Prov(b)
        sends = [c for c in b.calls() if c.is_("FnOnce::call_once", "FnMut::call_mut", "Fn::call") and has_root(pr.of_operand(c.args[0]), "arg", 2)]
        ms = b.calls_to("SendableFrame::mark_sent")
        rl = b.calls_to("SendableFrame::release_sending_claim")
        ok = len(sends) == 1 and bool(ms)
        if ok:
            # the bytes handed to the driver are this frame's
            ok = has_root(pr.of_operand(sends[0].args[1]), "call", "SendableFrame::as_bytes")
            ok = ok and all(b.dominates(sends[0].bb, m.bb) and m.bb != sends[0].bb for m in ms + rl)
            # nothing reads the buffer after the state was handed on
            for m in ms + rl:
                after = b.reachable_strict(m.bb)
                ok = ok and not any(c.bb in after for c in b.calls_to("SendableFrame::as_bytes"))
        rep.ob(P + ".S4", "send_blocking:read-before-handover" + tag, ok, "the transmit side changes the slot state (->Sent / ->Sendable) only after the send closure has returned, and never reads the buffer afterwards: the receive side cannot be let in while the NIC driver still reads the bytes", loc=b.span)
    if "mark_sendable" in parts:
        b = prog.body("CreatedFrame::mark_sendable")
        hdr = _blocks_calling(b, "FrameBox::ecat_frame_header_mut")
        pack = {c.bb for c in b.calls() if (c.decl_s or "").endswith("pack_to_slice_unchecked")}
        st = b.calls_to("FrameBox::set_state")
        ok = bool(hdr) and bool(pack) and len(st) == 1
        if ok:
            sb = st[0].bb
            ok = all(b.dominates(x, sb) for x in hdr | pack)
            after = b.reachable_strict(sb)
            writers = _blocks_calling(b, "FrameBox::ecat_frame_header_mut", "FrameBox::pdu_buf_mut", "FrameBox::add_pdu", "FrameBox::init")
            ok = ok and not (after & writers) and not any(x == sb for x in writers)
        rep.ob(P + ".S4", "mark_sendable:header-before-publish" + tag, ok, "the EtherCAT header is written before the ->Sendable store and nothing is written after it", loc=b.span)
    if "receive_frame" in parts:
        b = prog.body("PduRx::receive_frame")
        claim = b.calls_to("PduStorageRef::claim_receiving")
        cp = [c for c in b.calls() if (c.decl_s or "").endswith("copy_from_slice")]
        mr = b.calls_to("ReceivingFrame::mark_received")
        bm = b.calls_to("ReceivingFrame::buf_mut")
        ok = len(claim) == 1 and len(cp) == 1 and len(mr) == 1 and len(bm) >= 1
        d = ""
        if ok:
            tr = claim_ok_edge(b, claim[0])
            okedge = tr is not None and tr[1] is not None
            dom = q.edge_dominated(b, tr[0], tr[1]) if okedge else set()
            c1 = okedge and all(x.bb in dom for x in bm + cp + mr)
            c2 = b.dominates(cp[0].bb, mr[0].bb)
            after = b.reachable_strict(mr[0].bb)
            c3 = not any(x.bb in after for x in bm + cp)
            # destination of the copy is the claimed frame's buffer, the frame being the claim's payload
            pr = Prov(b)
            dst = pr.of_operand(cp[0].args[0])
            c4 = has_root(dst, "call", "ReceivingFrame::buf_mut")
            rcv = pr.of_operand(bm[0].args[0])
            c5 = has_root(rcv, "call", "PduStorageRef::claim_receiving")
            # claim index comes from the lookup
            idx = pr.of_operand(claim[0].args[1])
            c6 = has_root(idx, "call", "PduStorageRef::frame_index_by_first_pdu_index")
            ok = c1 and c2 and c3 and c4 and c5 and c6
            d = "claim-ok-dominates=%s copy-before-mark=%s no-write-after-mark=%s dst-is-claimed-buf=%s/%s index-from-lookup=%s" % (c1, c2, c3, c4, c5, c6)
        rep.ob(P + ".S4", "receive_frame:lookup-claim-copy-mark" + tag, ok, "every path to Processed goes lookup -> claim(index) -> copy into the claimed buffer -> mark_received; " + d, loc=b.span)
        # lookup and claim are two steps: the slot found for this index can be given up and re-used for
        # another request in between.  Once claimed (RxBusy: nobody else changes the marker) the marker must
        # be checked again, against the same index, before anything is copied; a claim that turns out to be
        # wrong is handed back by compare-exchange (RxBusy -> Sent), not dropped.
        rv = None
        if len(claim) == 1 and len(cp) == 1:
            prv = Prov(b)
            lk = b.calls_to("PduStorageRef::frame_index_by_first_pdu_index")
            for cd in q.conds(b):
                if cd.kind != "call" or cd.call is None or cd.call.bb not in b.reachable_strict(claim[0].bb):
                    continue
                c = cd.call
                t = prog.by_path.get(c.res) or prog.by_path.get(c.decl)
                # a marker test: reaches FrameElement::first_pdu_is on the claimed frame with the looked-up index
                reach = False
                if c.is_("FrameElement::first_pdu_is"):
                    reach = True
                elif t is not None:
                    reach = any(x.calls_to("FrameElement::first_pdu_is") for x in prog.callees_closure([t], depth=3))
                if not reach or len(c.args) < 2:
                    continue
                same_idx = bool(lk) and prv.of_operand(c.args[1]) == prv.of_operand(lk[0].args[1])
                on_claimed = has_root(prv.of_operand(c.args[0]), "call", "PduStorageRef::claim_receiving")
                if same_idx and on_claimed:
                    rv = (cd, c)
        okr = False
        dr = {}
        if rv is not None:
            cd, c = rv
            yes = q.edge_dominated(b, cd.bb, cd.true_target())
            no = q.edge_dominated(b, cd.bb, cd.false_target())
            dr["copy-only-if-marker-still-matches"] = cp[0].bb in yes and all(x.bb in yes for x in mr)
            sites = [s_ for s_ in transitions(prog)[0] if s_["kind"] == "cas" and s_["frm"] == "RxBusy" and s_["to"] == "Sent"]
            giveback = set()
            for s_ in sites:
                for cc in b.calls():
                    tt = prog.by_path.get(cc.res) or prog.by_path.get(cc.decl)
                    if tt is not None and tt.root == s_["body"].root:
                        giveback.add(cc.bb)
            dr["wrong-claim-handed-back"] = bool(giveback) and any(g in no for g in giveback) and not any(x[0] in no for x in q.aggregates(b, "ReceiveAction", "Processed"))
            okr = all(dr.values())
        # every exit after a successful claim resolves it: mark_received (the response is in), or the claim is
        # handed back.  An early `?` between the claim and mark_received would leave the slot in RxBusy: not
        # awaiting its response any more although nothing was accepted.
        if len(claim) == 1 and tr is not None and tr[1] is not None:
            resolve = {x.bb for x in mr}
            for s_ in [s_ for s_ in transitions(prog)[0] if s_["kind"] == "cas" and s_["frm"] == "RxBusy" and s_["to"] == "Sent"]:
                for cc in b.calls():
                    tt = prog.by_path.get(cc.res) or prog.by_path.get(cc.decl)
                    if tt is not None and tt.root == s_["body"].root:
                        resolve.add(cc.bb)
            leaks = []
            for rb in b.return_blocks():
                if rb in b.reachable_from(tr[1]) and rb in b.reachable_from(tr[1], avoid=resolve):
                    # find an offending exit: a block on an unresolved path that assigns the return value
                    leaks.append(rb)
            # report the early exits by the calls that produce the residual
            offenders = []
            if leaks:
                unresolved = b.reachable_from(tr[1], avoid=resolve)
                for c in b.calls():
                    if c.bb in unresolved and c.is_("FromResidual::from_residual"):
                        offenders.append(c.span)
            rep.ob(P + ".S4", "receive_frame:claim-resolved-on-every-exit" + tag, not leaks, "after claim_receiving succeeded every way out of receive_frame passes mark_received or hands the claim back (RxBusy -> Sent); unresolved exits: %s" % offenders, loc=b.span, how="path")
        rep.ob(P + ".S4", "receive_frame:marker-revalidated-after-claim" + tag, okr, "between lookup and claim the slot can change hands: after the claim the first-datagram marker is compared with the received index again; only then is the response copied, otherwise the claim is handed back (RxBusy -> Sent); %s" % (dr or "no re-validation found"), loc=b.span)
        # no slot write before the claim: the only FrameBox/FrameElement writers reachable from receive_frame
        wr = [c for c in b.calls() if c.is_("FrameBox::pdu_buf_mut", "FrameBox::init", "FrameBox::add_pdu", "FrameBox::set_state", "FrameElement::set_state")]
        rep.ob(P + ".S4", "receive_frame:no-direct-slot-write" + tag, not wr, "receive_frame touches slots only through the claimed ReceivingFrame", loc=b.span, how="inventory", nontrivial=False)
    if "mark_received" in parts:
        b = prog.body("ReceivingFrame::mark_received")
        sw = b.calls_to("FrameBox::swap_state")
        wk = b.calls_to("FrameBox::wake")
        ok = len(sw) == 1 and len(wk) == 1
        if ok:
            chain = sw[0]
            tr = q.ok_edge_of_try(b, chain)
            if tr is None:
                for c in b.calls():
                    if c.is_("Result::map_err") and (op_place(c.args[0]) or {}).get("l") == sw[0].dest["l"]:
                        tr = q.ok_edge_of_try(b, c)
            ok = tr is not None and tr[1] is not None and wk[0].bb in q.edge_dominated(b, tr[0], tr[1])
        rep.ob(P + ".S4", "mark_received:state-before-wake" + tag, ok, "RxBusy->RxDone succeeds before the waiting task is woken (no lost wake-up)", loc=b.span)
    if "poll" in parts:
        b = prog.body("<ReceiveFrameFut as Future>::poll")
        rw = b.calls_to("FrameBox::replace_waker")
        sw = [c for c in b.calls_to("FrameBox::swap_state") if _state_of(Prov(b).of_operand(c.args[1])) == ["RxDone"]]
        ok = len(rw) == 1 and len(sw) == 1 and b.dominates(rw[0].bb, sw[0].bb)
        rep.ob(P + ".S4", "poll:waker-before-test" + tag, ok, "the waker is registered before the RxDone test (a response arriving in between still wakes the task)", loc=b.span)


RELEASERS = {
    # function -> how the slot is released there
    "<ReceivedFrame as Drop>::drop": ("FrameBox::swap_state", "None"),
    "<CreatedFrame as Drop>::drop": ("FrameBox::swap_state", "None"),
    "ReceiveFrameFut::release": ("FrameBox::set_state", "None"),
}
FRAME_USERS_PREFIX = ("FrameBox::", "FrameElement::")


def s5(prog, rep, P, tag="", fns=None):
    """Release-last: after the release on any path nothing touches the slot through this handle."""
    for fname, (relcall, to) in RELEASERS.items():
        if fns is not None and fname not in fns:
            continue
        b = prog.body(fname)
        rel = []
        for c in b.calls_to(relcall):
            toi = 2 if relcall.endswith("swap_state") else 1
            if _state_of(Prov(b).of_operand(c.args[toi])) == [to]:
                rel.append(c)
        if not rel:
            rep.ob(P + ".S5", "%s:release-present%s" % (fname, tag), False, "%s no longer releases the slot (->%s)" % (fname, to), loc=b.span)
            continue
        for r in rel:
            after = b.reachable_strict(r.bb)
            later = [c for c in b.calls() if c.bb in after and (c.name.startswith(FRAME_USERS_PREFIX))]
            for c in later:
                rep.violation(
                    P + ".S5", "%s|%s-after-release%s" % (fname, c.name, tag),
                    "%s calls %s after the slot became claimable (->%s): a new owner may already have re-initialised the slot" % (fname, c.name, to),
                    loc=c.span,
                )
            if not later:
                rep.ob(P + ".S5", "%s:release-last%s" % (fname, tag), True, "no FrameBox/FrameElement use follows the ->%s release on any path" % to, loc=r.span)
    # poll: after Self::release(rxin) nothing uses the FrameBox
    if fns is None or "poll" in fns:
        b = prog.body("<ReceiveFrameFut as Future>::poll")
        for r in b.calls_to("ReceiveFrameFut::release"):
            after = b.reachable_strict(r.bb)
            later = [c for c in b.calls() if c.bb in after and c.name.startswith(FRAME_USERS_PREFIX)]
            putback = [x for x in q.field_accesses(b, "ReceiveFrameFut", "frame") if x[0] in after and x[2] == "write"]
            rep.ob(P + ".S5", "poll:release-last" + tag, not later and not putback, "after release() on the last timeout poll neither uses nor re-stores the FrameBox", loc=r.span)


def s5_escape(prog, rep, P, tag=""):
    """Pointer escape: a view built from pdu_buf() must not outlive the handle that keeps the slot
    (S5, second half / C01 clause 6)."""
    n = 0
    for b in prog.bodies:
        if b.crate != "ethercrab":
            continue
        aggs = q.aggregates(b, "ReceivedPdu")
        if not aggs:
            continue
        for bi, si, s in aggs:
            n += 1
            pr = Prov(b)
            ds = pr.of_operand(q.agg_field(s, "data_start"))
            from_buf = has_root(ds, "call", "FrameBox::pdu_buf")
            # is a ReceivedFrame owned (by value) by this function and dropped here?
            owned = [l for l in range(1, b.arg_count + 1) if b.local_ty(l).lstrip().startswith("pdu_loop::frame_element::received_frame::ReceivedFrame") or norm(b.local_ty(l)).endswith("::ReceivedFrame") and not b.local_ty(l).startswith("&")]
            dropped = []
            for bb in sorted(b.live_blocks()):
                t = b.term(bb)
                if t["k"] == "drop" and t["place"]["l"] in owned and not t["place"]["p"]:
                    dropped.append(bb)
            # does the returned aggregate carry the frame?
            carries = any(has_root(pr.of_operand(a), "arg", owned[0]) for a in s["rv"]["a"]) if owned else False
            if from_buf and owned and dropped and not carries:
                rep.violation(
                    P + ".S5e", "%s|view-outlives-frame%s" % (b.root_short, tag),
                    "%s builds a ReceivedPdu pointing into the slot buffer, then drops the ReceivedFrame it consumed: the slot is released (RxProcessing->None) while the caller still holds the view, so a later request can overwrite what the caller reads" % b.root_short,
                    loc=q.loc(b, bi, si),
                )
            else:
                rep.ob(P + ".S5e", "%s:view-lifetime%s" % (b.root_short, tag), True, "ReceivedPdu built in %s: frame %s" % (b.root_short, "is carried inside the returned view" if carries else "is borrowed / kept by the iterator (not dropped here)"), loc=q.loc(b, bi, si))
    rep.floor(P + " ReceivedPdu constructions" + tag, n, 3)


HANDLE_TYPES = ("ReceivedFrame", "CreatedFrame", "SendableFrame", "ReceivingFrame")


def s5_handle_escape(prog, rep, P, tag=""):
    """A typestate handle keeps its slot for as long as it lives.  A function that takes a handle *by value* and
    lets the `FrameBox` inside it (it is `Copy`) flow into its return value must move the handle itself along:
    otherwise the handle is dropped on return - which frees the slot for handles with a releasing `Drop` - while
    the caller goes on using the slot through the copied box (`ReceivedPduIter { frame: self.inner }`)."""
    n = 0
    for b in prog.bodies:
        if b.crate != "ethercrab" or b.d.get("is_test") or b.is_closure:
            continue
        for l in range(1, b.arg_count + 1):
            ty = b.local_ty(l).strip()
            if ty.startswith("&") or ty.startswith("*"):
                continue
            h = last_seg(norm(ty))
            if h not in HANDLE_TYPES:
                continue
            n += 1
            pr = Prov(b)
            ret = pr.of_local(0)
            box_out = has_root(ret, "field", h, "inner") and has_root(ret, "arg", l)
            # the handle as a whole is moved on: into the returned aggregate, or into another function
            whole = False
            for bi, blk in enumerate(b.blocks):
                if blk.get("cleanup"):
                    continue
                for st in blk["stmts"]:
                    if st["k"] == "assign":
                        for a in st["rv"].get("a", []):
                            pl = op_place(a)
                            if pl is not None and pl["l"] == l and not pl["p"] and "move" in a:
                                whole = True
                t = blk["term"]
                if t["k"] == "call":
                    for a in t["args"]:
                        pl = op_place(a)
                        if pl is not None and pl["l"] == l and not pl["p"] and "move" in a:
                            whole = True
            # handles without a Drop impl release nothing; a function that itself moves the slot on to another
            # state (mark_sendable: Created -> Sendable) is the documented hand-over - the consumed handle's Drop is a
            # compare-exchange from its own state and leaves the slot alone (checked by S6)
            has_drop = bool(prog.impls_of("Drop", h))
            hands_over = any(c.is_("FrameBox::set_state", "FrameBox::swap_state", "FrameElement::set_state", "FrameElement::swap_state") for c in b.calls())
            ok = not box_out or whole or not has_drop or hands_over
            if box_out and not whole and ok:
                whole = None
            rep.ob(P + ".S5e", "%s:handle-travels-with-its-box%s" % (b.root_short, tag), ok,
                   "%s consumes a %s; %s" % (b.root_short, h, "its FrameBox does not reach the return value" if not box_out else ("the returned value carries the FrameBox together with the handle itself" if whole else "the function hands the slot on to its next state itself (or the handle has no releasing Drop)" if whole is None else "the returned value carries a copy of the FrameBox but the handle is dropped on return: the slot is released (or left without an owner) while the caller still uses it")),
                   loc=b.span, how="dataflow", nontrivial=box_out)
    rep.floor(P + " functions consuming a typestate handle" + tag, n, 5)


def s6_send(prog, rep, P, tag=""):
    b = prog.body("SendableFrame::send_blocking")
    ms = _blocks_calling(b, "SendableFrame::mark_sent")
    rl = _blocks_calling(b, "SendableFrame::release_sending_claim")
    rets = b.return_blocks()
    ok = bool(ms) and bool(rl)
    for r in rets:
        ok = ok and b.every_path_passes(0, r, ms | rl)
    # exactly one: no path with two resolutions
    for x in ms | rl:
        if b.reachable_strict(x) & (ms | rl):
            ok = False
    rep.ob(P + ".S6", "send_blocking:exactly-one-resolution" + tag, ok, "every path of send_blocking ends in exactly one of mark_sent / release_sending_claim", loc=b.span)
    # mark_sent only when the whole frame went out: after the comparison of the count the driver reported with the
    # frame length came out unequal, mark_sent is not feasible any more (whatever carries the verdict: a match guard, an
    # early return, a bool, or a Result tested with is_ok() / match)
    pr = Prov(b)
    sites = q.comparison_sites(b, lambda x, y: has_root(x | y, "call", "slice::len") or has_root(x | y, "call", "SendableFrame::as_bytes") or has_root(x | y, "call", "SendableFrame::len"), pr)
    good = bool(ms) and bool(sites)
    for s_ in sites:
        bad_blocks = q.feasible_after(b, s_, equal=False)
        good_blocks = q.feasible_after(b, s_, equal=True)
        good = good and not (ms & bad_blocks) and bool(ms & good_blocks)
    if sites and ms & q.feasible_from_entry(b, avoid={s_[4] for s_ in sites}):
        good = False
    rep.ob(P + ".S6", "send_blocking:sent-only-if-complete" + tag, good, "mark_sent is reached only on the edge where bytes_sent equals the frame length", loc=b.span)


def s6_poll(prog, rep, P, tag=""):
    """Claim resolution in poll (appendix E)."""
    b = prog.body("<ReceiveFrameFut as Future>::poll")
    takes = [c for c in b.calls_to("Option::take") if has_root(Prov(b).of_operand(c.args[0]), "field", "ReceiveFrameFut", "frame")]
    if len(takes) != 1:
        rep.ob(P + ".S6", "poll:take-present" + tag, False, "poll no longer takes self.frame exactly once", loc=b.span)
        return
    tk = takes[0]
    tb = tk.target
    cd = q.Cond(b, tb) if b.term(tb)["k"] == "switch" else None
    some = cd.variant_targets(prog).get("Some") if cd and cd.kind == "discr" else None
    if some is None:
        rep.ob(P + ".S6", "poll:take-some-edge" + tag, False, "cannot find the Some edge of self.frame.take()", loc=tk.span)
        return
    # FrameBox class: locals of type FrameBox
    def is_fb(l):
        return norm(b.local_ty(l)).endswith("frame_box::FrameBox")

    disposal = set()
    kinds = {}
    for c in b.calls():
        if c.is_("ReceivedFrame::new", "ReceiveFrameFut::release"):
            pl = op_place(c.args[0])
            if pl is not None and is_fb(pl["l"]):
                disposal.add(c.bb)
                kinds[c.bb] = c.name
    for (bi, si, kind, pl) in q.field_accesses(b, "ReceiveFrameFut", "frame"):
        if kind == "write":
            s = b.stmts(bi)[si]
            r = Prov(b).of_operand(s["rv"]["a"][0]) if s["rv"].get("a") else frozenset()
            rr = Prov(b)._of_rvalue(s["rv"])
            if has_root(rr, "agg", "Option", "Some"):
                disposal.add(bi)
                kinds[bi] = "self.frame = Some(_)"
    # exempt edge: `otherwise` arm of the switch on the FrameState observed by the failed CAS
    exempt = set()
    for c2 in q.conds(b):
        if c2.kind == "discr" and c2.enum_ty and norm(c2.enum_ty).endswith("FrameState"):
            pr = Prov(b)
            r = pr.of_place(c2.place)
            if has_root(r, "call", "FrameBox::swap_state"):
                vt = c2.variant_targets(prog)
                listed = {k for k in vt if k in STATES}
                exempt_t = c2.otherwise
                exempt.add((c2.bb, exempt_t))
                still_ours = {"Sendable", "Sending", "Sent", "RxBusy"}
                rep.ob(P + ".S6", "poll:pending-arms" + tag, still_ours <= listed, "the arms that keep the claim (put the FrameBox back) cover %s; listed %s" % (sorted(still_ours), sorted(listed)), loc=q.loc(b, c2.bb), how="table")
    reach = q.reach_without_edges(b, exempt, start=some)
    # remove disposal blocks
    from collections import deque

    seen = set()
    dq = deque([some])
    while dq:
        x = dq.popleft()
        if x in seen or x in disposal:
            continue
        seen.add(x)
        for s_ in b.succ(x):
            if (x, s_) in exempt:
                continue
            dq.append(s_)
    leaks = [r for r in b.return_blocks() if r in seen]
    rep.ob(
        P + ".S6", "poll:claim-resolved-on-every-path" + tag, not leaks and bool(disposal),
        "on every path from self.frame.take() to a return the FrameBox is put back, moved into ReceivedFrame::new, or released (disposals: %s; exempt: otherwise-arm of the observed-state match)" % sorted(set(kinds.values())),
        loc=tk.span,
    )
    _ = reach
    # last timeout: retries_left == 0 -> release -> Err(Timeout)
    ok = False
    for sw_bb, eq_t in no_retries_edges(b):
        dom = q.edge_dominated(b, sw_bb, eq_t)
        rel = [c for c in b.calls_to("ReceiveFrameFut::release")]
        errs = [x for x in q.aggregates(b, "Error", "Timeout") if x[0] in dom]
        ok = bool(rel) and all(c.bb in dom for c in rel) and bool(errs)
        # every return reachable inside dom is preceded by the release
        for r in b.return_blocks():
            if r in dom and not b.every_path_passes(eq_t, r, {c.bb for c in rel}):
                ok = False
    rep.ob(P + ".S6", "poll:last-timeout-releases" + tag, ok, "with retries_left == 0 an expired deadline releases the slot and returns Err(Timeout)", loc=b.span)


def no_retries_edges(b):
    """Edges of poll on which no retry is left: the equal edge of `retries_left == 0` (or `!= 0`), or the None edge
    of `retries_left.checked_sub(1)`.  -> [(switch_bb, target)]"""
    out = []
    pr = Prov(b)
    for c2 in q.conds(b):
        if c2.kind == "cmp" and c2.op in ("Eq", "Ne"):
            both = pr.of_operand(c2.lhs) | pr.of_operand(c2.rhs)
            direct = q.is_field_read(b, c2.lhs, "ReceiveFrameFut", "retries_left") or q.is_field_read(b, c2.rhs, "ReceiveFrameFut", "retries_left")
            if has_root(both, "field", "ReceiveFrameFut", "retries_left") and has_root(both, "const", 0) and (direct or not has_root(both, "binop")):
                t = c2.true_target() if c2.op == "Eq" else c2.false_target()
                if t is not None:
                    out.append((c2.bb, t))
    for c in b.calls():
        if (c.decl_s or "").endswith("::checked_sub") and len(c.args) == 2 and q.const_int(c.args[1]) == 1 and has_root(pr.of_operand(c.args[0]), "field", "ReceiveFrameFut", "retries_left"):
            for sw, okt, errt in q.ok_edges(b, c, ok="Some"):
                if errt is not None:
                    out.append((sw, errt))
    return out


def s6_drops(prog, rep, P, tag=""):
    for adt in ("CreatedFrame", "ReceiveFrameFut", "ReceivedFrame"):
        im = prog.impls_of("Drop", adt)
        rep.ob(P + ".S6", "impl-Drop:%s%s" % (adt, tag), len(im) == 1, "impl Drop for %s exists (without it the slot is never returned)" % adt, loc=im[0]["span"] if im else None, how="inventory")
    # CreatedFrame::drop releases on all paths (CAS from Created)
    b = prog.body("<CreatedFrame as Drop>::drop")
    sw = b.calls_to("FrameBox::swap_state")
    ok = len(sw) == 1 and all(b.every_path_passes(0, r, {sw[0].bb}) for r in b.return_blocks())
    if ok:
        pr = Prov(b)
        ok = _state_of(pr.of_operand(sw[0].args[1])) == ["Created"] and _state_of(pr.of_operand(sw[0].args[2])) == ["None"] and has_root(pr.of_operand(sw[0].args[0]), "field", "CreatedFrame", "inner")
    rep.ob(P + ".S6", "CreatedFrame::drop:releases" + tag, ok, "dropping a CreatedFrame frees its own slot on every path, by compare-exchange from Created (a frame already handed on is not freed twice)", loc=b.span)
    b = prog.body("<ReceivedFrame as Drop>::drop")
    sw = b.calls_to("FrameBox::swap_state")
    ok = len(sw) == 1 and all(b.every_path_passes(0, r, {sw[0].bb}) for r in b.return_blocks())
    if ok:
        pr = Prov(b)
        ok = _state_of(pr.of_operand(sw[0].args[1])) == ["RxProcessing"] and _state_of(pr.of_operand(sw[0].args[2])) == ["None"] and has_root(pr.of_operand(sw[0].args[0]), "field", "ReceivedFrame", "inner")
    rep.ob(P + ".S6", "ReceivedFrame::drop:releases" + tag, ok, "dropping a ReceivedFrame frees its own slot on every path (RxProcessing->None)", loc=b.span)
    b = prog.body("<ReceiveFrameFut as Drop>::drop")
    tk = [c for c in b.calls_to("Option::take") if has_root(Prov(b).of_operand(c.args[0]), "field", "ReceiveFrameFut", "frame")]
    ok = len(tk) == 1
    if ok:
        tb = tk[0].target
        cd = q.Cond(b, tb) if b.term(tb)["k"] == "switch" else None
        some = cd.variant_targets(prog).get("Some") if cd and cd.kind == "discr" else None
        rel = {c.bb for c in b.calls_to("ReceiveFrameFut::release")}
        ok = some is not None and bool(rel) and all(b.every_path_passes(some, r, rel) for r in b.return_blocks() if r in b.reachable_from(some))
        if ok:
            c = b.calls_to("ReceiveFrameFut::release")[0]
            ok = has_root(Prov(b).of_operand(c.args[0]), "call", "Option::take") or has_root(Prov(b).of_operand(c.args[0]), "field", "ReceiveFrameFut", "frame")
    rep.ob(P + ".S6", "ReceiveFrameFut::drop:releases" + tag, ok, "dropping an unfinished future releases the slot it still holds on every path", loc=b.span)
    rl = prog.body("ReceiveFrameFut::release")
    st = rl.calls_to("FrameBox::set_state")
    ok = len(st) == 1 and _state_of(Prov(rl).of_operand(st[0].args[1])) == ["None"] and has_root(Prov(rl).of_operand(st[0].args[0]), "arg", 1) and all(rl.every_path_passes(0, r, {st[0].bb}) for r in rl.return_blocks())
    rep.ob(P + ".S6", "release:stores-None" + tag, ok, "ReceiveFrameFut::release sets the given slot to None on every path", loc=rl.span)


def s6_reset(prog, rep, P, tag=""):
    """Group-level (function + its closures), so a `for` loop and `(0..n).map(..).for_each(..)` read the same: one
    set_state(_, None) whose slot comes from frame_at_index(i), i ranging over 0..num_frames through a loop variable
    or closure parameters, with no adaptor that drops indices."""
    b = prog.body("PduStorageRef::reset")
    grp = prog.group("PduStorageRef::reset")
    sts = [(g, c) for g in grp for c in g.calls_to("FrameElement::set_state")]
    ok = len(sts) == 1
    d = ""
    if ok:
        g, st0 = sts[0]
        pr = Prov(g)
        fr = pr.of_operand(st0.args[0])
        fis = [(h, c) for h in grp for c in h.calls_to("PduStorageRef::frame_at_index")]
        from_param = any(x[0] == "arg" for x in fr) and g.is_closure
        c1 = has_root(fr, "call", "PduStorageRef::frame_at_index") or (from_param and len(fis) == 1 and fis[0][0].is_closure and has_root(Prov(fis[0][0]).of_local(0), "call", "PduStorageRef::frame_at_index"))
        c2 = _state_of(pr.of_operand(st0.args[1])) == ["None"]
        c3 = False
        for h in grp:
            ph = Prov(h)
            for bi, si, s_ in q.aggregates(h, "Range"):
                a = ph.of_operand(q.agg_field(s_, "start"))
                e = ph.of_operand(q.agg_field(s_, "end"))
                if has_root(a, "const", 0) and has_root(e, "field", "PduStorageRef", "num_frames") and not has_root(e, "binop"):
                    c3 = True
        c4 = False
        if len(fis) == 1:
            h, fi = fis[0]
            ix = Prov(h).of_operand(fi.args[1])
            c4 = any(x[0] == "call" and x[1].endswith("::next") for x in ix) or (h.is_closure and any(x[0] == "arg" and x[1] >= 2 for x in ix))
        drops = [c.name for h in grp for c in h.calls() if (c.decl_s or "") in ("Iterator::filter", "Iterator::skip", "Iterator::take", "Iterator::step_by", "Iterator::skip_while", "Iterator::take_while", "Iterator::filter_map", "Iterator::rev") and (c.decl_s or "") != "Iterator::rev"]
        c5 = not drops
        ok = c1 and c2 and c3 and c4 and c5
        d = "frame-from-index=%s to-None=%s range-0..num_frames=%s index-is-loop-var=%s no-dropping-adaptor=%s" % (c1, c2, c3, c4, c5)
    rep.ob(P + ".S6", "reset:all-slots" + tag, ok, "reset stores None into every slot index 0..num_frames; " + d, loc=b.span)


# ---- S7 (C06) --------------------------------------------------------------------------------

# states in which a handle of each type can exist for a slot (derived by hand from S1/S2: birth
# state = target of its claim; it lives until one of its own terminal operations)
HOLDER_STATES = {
    "CreatedFrame": {"Created"},
    "SendableFrame": {"Sending"},
    "ReceivingFrame": {"RxBusy"},
    "ReceivedFrame": {"RxProcessing"},
    "ReceiveFrameFut": {"Sendable", "Sending", "Sent", "RxBusy", "RxDone"},
}
STORE_HOLDER = {
    "CreatedFrame::mark_sendable": "CreatedFrame",
    "SendableFrame::mark_sent": "SendableFrame",
    "SendableFrame::release_sending_claim": "SendableFrame",
    "ReceiveFrameFut::release": "ReceiveFrameFut",
    "<ReceiveFrameFut as Future>::poll": "ReceiveFrameFut",
}


def s7(prog, rep, P, sites, tag=""):
    """Exclusive stores only: a plain store is safe only from a holder that is the sole holder
    for as long as it exists, or under reset's unsafe contract."""
    for s in sites:
        if s["kind"] != "store":
            continue
        fn = s["fn"]
        if fn == "PduStorageRef::reset":
            # only reachable through unsafe MainDevice::release* / PduLoop::reset
            callers = {c.body.root_short for c in prog.calls_of("PduStorageRef::reset")}
            ok = callers <= {"PduLoop::reset", "PduLoop::reset_all"}
            rep.ob(P + ".S7", "store:%s->%s%s" % (fn, s["to"], tag), ok, "reset's stores are reachable only through PduLoop::reset/reset_all (MainDevice::release*'s unsafe contract: no request in flight)", loc=s["call"].span, how="inventory")
            continue
        h = STORE_HOLDER.get(fn)
        if h is None:
            rep.violation(P + ".S7", "store:%s->%s%s" % (fn, s["to"], tag), "plain store to the slot state from an unaudited function %s" % fn, loc=s["call"].span)
            continue
        others = sorted(o for o, st in HOLDER_STATES.items() if o != h and st & HOLDER_STATES[h])
        if others:
            rep.violation(
                P + ".S7", "store:%s->%s%s" % (fn, s["to"], tag),
                "%s stores ->%s unconditionally while %s may be inside the same buffer (%s exists in states %s): expiry/abandonment/retry at that moment re-publishes or frees a buffer another party is using" % (fn, s["to"], " / ".join(others), h, sorted(HOLDER_STATES[h])),
                loc=s["call"].span,
            )
        else:
            rep.ob(P + ".S7", "store:%s->%s%s" % (fn, s["to"], tag), True, "%s is the sole holder in %s: an unconditional store cannot race" % (h, sorted(HOLDER_STATES[h])), loc=s["call"].span, how="table")
    # the births used above come from the code: check them against S1's CAS targets
    births = {"CreatedFrame": "Created", "SendableFrame": "Sending", "ReceivingFrame": "RxBusy", "ReceivedFrame": "RxProcessing"}
    cas_to = {s["to"] for s in sites if s["kind"] == "cas"}
    for h, st in births.items():
        rep.ob(P + ".S7", "birth:%s%s" % (h, tag), st in cas_to and st in HOLDER_STATES[h], "%s is born by the compare-exchange to %s" % (h, st), how="table", nontrivial=False)


# ---- S8 (C01) --------------------------------------------------------------------------------


def _tests_sent(b):
    """Does body `b` return `load(status) == FrameState::Sent`?"""
    pr = Prov(b)
    ret = set()
    for (bi, si, kind, payload) in b.defs().get(0, []):
        if kind == "assign":
            ret |= pr._of_rvalue(payload["rv"])
        elif kind == "call":
            c = payload
            if c.is_("PartialEq::eq"):
                for a in c.args:
                    ret |= pr.of_operand(a)
                ret.add(("binop", "Eq"))
            else:
                return False
    loads = [r for r in ret if r[0] == "call" and r[1] == "AtomicFrameState::load"]
    if not loads or not has_root(ret, "binop", "Eq") or _state_of(ret) != ["Sent"]:
        return False
    for c in b.calls_to("AtomicFrameState::load"):
        if not has_root(pr.of_operand(c.args[0]), "field", "FrameElement", "status"):
            return False
        if ordering_of(b, c.args[1]) not in ("Acquire", "SeqCst"):
            return False
    return True


def _state_test(b):
    """If body `b` returns a comparison of load(status) with FrameState constants: (op, [states]); else None."""
    pr = Prov(b)
    ret = set()
    op = None
    for (bi, si, kind, payload) in b.defs().get(0, []):
        if kind == "assign":
            ret |= pr._of_rvalue(payload["rv"])
        elif kind == "call":
            c = payload
            if c.is_("PartialEq::eq", "PartialEq::ne"):
                for a in c.args:
                    ret |= pr.of_operand(a)
                op = "Eq" if c.is_("PartialEq::eq") else "Ne"
    if not [r for r in ret if r[0] == "call" and r[1] == "AtomicFrameState::load"]:
        return None
    if op is None:
        op = "Eq" if has_root(ret, "binop", "Eq") else ("Ne" if has_root(ret, "binop", "Ne") else "?")
    return op, _state_of(ret)


def lookup_match_sites(prog):
    """Where the receive-side lookup decides "this slot": Some(_) built in the function itself, or the
    true-returns of a bool closure of the function (the predicate of find / position / any ...), each with the
    calls that necessarily returned true there.  -> [(body, [calls])]"""
    lk = prog.body("PduStorageRef::frame_index_by_first_pdu_index")
    match_sites = [(lk, q.implied_true_calls(lk, bi)) for bi, si, s in q.aggregates(lk, "Option", "Some")]
    for g in prog.group("PduStorageRef::frame_index_by_first_pdu_index"):
        if g is not lk and g.is_closure and g.locals[0]["ty"] == "bool":
            match_sites += [(g, calls) for bi, calls in q.true_return_sites(g)]
    return match_sites


def s8(prog, rep, P, sites, tag=""):
    """Stale index markers: the receive-side lookup must not prefer a slot that is not awaiting a
    response.  Either the lookup tests the slot state, or every path that frees a slot clears its
    marker before the slot becomes claimable."""
    lk = prog.body("PduStorageRef::frame_index_by_first_pdu_index")
    match_sites = lookup_match_sites(prog)
    somes = match_sites
    state_aware = bool(somes)
    marker = bool(somes)
    for body_, implied in match_sites:
        marker = marker and any(c.is_("FrameElement::first_pdu_is") for c in implied)
        aware = False
        for c in implied:
            t = prog.by_path.get(c.full)
            if t is not None and _tests_sent(t):
                # and it is asked about the same slot as the marker test
                same = [x for x in implied if x.is_("FrameElement::first_pdu_is")]
                if same and Prov(body_).of_operand(same[0].args[0]) == Prov(body_).of_operand(c.args[0]):
                    aware = True
        state_aware = state_aware and aware
    rep.ob(P + ".S8", "lookup:marker-test" + tag, marker, "the lookup returns a slot only where first_pdu_is(slot, index) holds", loc=lk.span)
    if not state_aware:
        # a state test that is wider than `== Sent` protects freed slots only
        wide = []
        for body_, implied in match_sites:
            for c in implied:
                t = prog.by_path.get(c.full)
                st = _state_test(t) if t is not None else None
                if st is not None and not _tests_sent(t):
                    wide.append((short_name(t), st))
        if wide:
            rep.violation(
                P + ".S8", "lookup:state-test-too-wide" + tag,
                "the lookup tests the slot state with %s, which also matches slots that are not awaiting a response: a slot another request still holds (RxDone / RxProcessing) or has not sent yet keeps its first-datagram marker, and once the 8-bit index has wrapped it is found before the live request's slot, whose genuine response is then rejected" % ", ".join("%s: state %s %s" % (n, "==" if o == "Eq" else "!=", "/".join(v)) for n, (o, v) in wide),
                loc=lk.span,
            )
            return
    if state_aware:
        rep.ob(P + ".S8", "lookup:state-aware" + tag, True, "the lookup returns a slot only if, in addition, that same slot's state is Sent: stale markers of freed / timed-out / reset slots cannot shadow a live request", loc=lk.span)
        return
    # otherwise: every ->None transition must clear the marker first
    for s in sites:
        if s["to"] != "None":
            continue
        b = s["body"]
        clears = _blocks_calling(b, "FrameBox::clear_first_pdu", "FrameElement::clear_first_pdu")
        ok = bool(clears) and all(b.dominates(x, s["call"].bb) and x != s["call"].bb for x in clears)
        if ok:
            rep.ob(P + ".S8", "clear-before-free:%s%s" % (s["fn"], tag), True, "%s clears the first-datagram marker before the slot becomes claimable" % s["fn"], loc=s["call"].span)
        else:
            rep.violation(
                P + ".S8", "stale-marker:%s%s" % (s["fn"], tag),
                "%s frees the slot (->None) without first clearing its first-datagram marker, and the receive-side lookup does not test the slot state: when the 8-bit index comes round, the stale slot is found first and the genuine response to a live request is rejected" % s["fn"],
                loc=s["call"].span,
            )
