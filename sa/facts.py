"""Fact extraction driver and loader.

Runs the ecfacts rustc driver over the *current* working tree of the repository (VERIF_REPO,
default /repo) and loads the resulting JSON.  Facts are cached under /verif/.cache/facts keyed by a
hash of every source file, so every check analyses exactly the tree that is on disk now.
"""
import fcntl
import glob
import hashlib
import json
import os
import shutil
import subprocess
import sys
import time

VERIF = os.path.dirname(os.path.dirname(os.path.abspath(__file__)))
REPO = os.environ.get("VERIF_REPO", "/repo")
CACHE = os.path.join(VERIF, ".cache")
DRIVER_DIR = os.path.join(VERIF, "tools", "ecfacts")
DRIVER = os.path.join(DRIVER_DIR, "target", "debug", "ecfacts")

CONFIGS = {
    "default": [],
    "nostd": ["--no-default-features"],
}
CRATES = "ethercrab,ethercrab_wire,ethercrab_wire_derive"


def _env():
    env = dict(os.environ)
    env.pop("RUSTUP_TOOLCHAIN", None)
    env["CARGO_NET_OFFLINE"] = "true"
    return env


def nightly_sysroot():
    return subprocess.check_output(["rustc", "+nightly", "--print", "sysroot"], env=_env(), text=True).strip()


def tree_files(repo):
    out = []
    for root, dirs, files in os.walk(repo):
        dirs[:] = sorted(d for d in dirs if d not in ("target", ".git", "dumps", "doc", "benches", "examples"))
        for f in sorted(files):
            if f.endswith(".rs") or f in ("Cargo.toml", "Cargo.lock", "rust-toolchain.toml"):
                out.append(os.path.join(root, f))
    return out


def tree_hash(repo=None):
    repo = repo or REPO
    h = hashlib.sha256()
    for p in tree_files(repo):
        h.update(os.path.relpath(p, repo).encode())
        h.update(b"\0")
        with open(p, "rb") as fh:
            h.update(fh.read())
        h.update(b"\0")
    return h.hexdigest()


def build_driver(quiet=True):
    """Build ecfacts (offline, nightly). Cheap when up to date."""
    r = subprocess.run(
        ["cargo", "+nightly", "build", "--offline"],
        cwd=DRIVER_DIR, env=_env(), capture_output=True, text=True,
    )
    if r.returncode != 0:
        sys.stderr.write(r.stdout + r.stderr)
        raise SystemExit("ecfacts driver failed to build")
    return DRIVER


def _driver_hash():
    h = hashlib.sha256()
    with open(os.path.join(DRIVER_DIR, "src", "main.rs"), "rb") as fh:
        h.update(fh.read())
    return h.hexdigest()[:12]


class Lock:
    def __init__(self, name="lock"):
        os.makedirs(CACHE, exist_ok=True)
        self.path = os.path.join(CACHE, name)

    def __enter__(self):
        self.fh = open(self.path, "w")
        fcntl.flock(self.fh, fcntl.LOCK_EX)
        return self

    def __exit__(self, *a):
        fcntl.flock(self.fh, fcntl.LOCK_UN)
        self.fh.close()


def extract(config="default", repo=None, manifest=None, crates=CRATES, extra_key="", lib_only=True):
    """Return the directory holding fact files for the current tree; run the driver if needed."""
    repo = repo or REPO
    manifest = manifest or os.path.join(repo, "Cargo.toml")
    key = hashlib.sha256(
        (tree_hash(repo) + config + _driver_hash() + os.path.abspath(manifest) + extra_key).encode()
    ).hexdigest()[:24]
    out = os.path.join(CACHE, "facts", key)
    marker = os.path.join(out, "DONE")

    def _touch():
        # least-recently-*used* pruning: a fact directory that is being read must not look old
        try:
            os.utime(out, None)
        except OSError:
            pass

    if os.path.exists(marker):
        _touch()
        return out
    with Lock():
        if os.path.exists(marker):
            _touch()
            return out
        if not os.path.exists(DRIVER) or os.path.getmtime(DRIVER) < os.path.getmtime(os.path.join(DRIVER_DIR, "src", "main.rs")):
            build_driver()
        shutil.rmtree(out, ignore_errors=True)
        os.makedirs(out)
        tkey = hashlib.sha256(os.path.abspath(manifest).encode()).hexdigest()[:8]
        target = os.path.join(CACHE, "target-%s-%s" % (config, tkey))
        # cargo's freshness cache would silently skip the wrapper: drop the members' fingerprints
        for fp in glob.glob(os.path.join(target, "debug", ".fingerprint", "ethercrab-*")) + glob.glob(
            os.path.join(target, "debug", ".fingerprint", "verif*")
        ):
            shutil.rmtree(fp, ignore_errors=True)
        env = _env()
        env["LD_LIBRARY_PATH"] = os.path.join(nightly_sysroot(), "lib")
        env["RUSTFLAGS"] = "-Zmir-opt-level=0 -Awarnings --cfg ethercrab_verif"
        env["RUSTC_WORKSPACE_WRAPPER"] = DRIVER
        env["ECFACTS_OUT"] = out
        env["ECFACTS_CRATES"] = crates
        env["CARGO_TARGET_DIR"] = target
        cmd = ["cargo", "+nightly", "check", "--offline", "--manifest-path", manifest]
        if lib_only:
            cmd.append("--lib")
        cmd += CONFIGS[config]
        t0 = time.time()
        r = subprocess.run(cmd, cwd=os.path.dirname(manifest), env=env, capture_output=True, text=True)
        if r.returncode != 0:
            sys.stderr.write(r.stdout[-4000:] + r.stderr[-8000:])
            raise SystemExit("fact extraction failed: the tree does not compile on nightly (config %s)" % config)
        # one file per crate expected
        files = glob.glob(os.path.join(out, "*.json"))
        if not files:
            raise SystemExit("fact extraction produced no fact file (wrapper skipped?)")
        with open(marker, "w") as fh:
            fh.write("%.1f\n" % (time.time() - t0))
        # prune old fact dirs: keep the 12 most recently used, and never one used in the last 30 minutes
        allf = sorted(glob.glob(os.path.join(CACHE, "facts", "*")), key=os.path.getmtime)
        now = time.time()
        for d in allf[:-12]:
            if now - os.path.getmtime(d) > 1800:
                shutil.rmtree(d, ignore_errors=True)
    return out


def load_raw(factdir):
    res = {}
    for f in sorted(glob.glob(os.path.join(factdir, "*.json"))):
        with open(f) as fh:
            d = json.load(fh)
        name = d["crate"] + ("#test" if d.get("is_test") else "")
        res[name] = d
    return res
