"""Obligation bookkeeping, known-findings handling, evidence and replay files."""
import hashlib
import json
import os
import time

VERIF = os.path.dirname(os.path.dirname(os.path.abspath(__file__)))


class Report:
    def __init__(self, pid, tier="quick", seed=0):
        self.pid = pid
        self.tier = tier
        self.seed = seed
        self.t0 = time.time()
        self.obligations = []  # dicts: rule,key,ok,detail,loc,nontrivial,how
        self.violations = []  # dicts: rule,key,msg,loc,extra
        self.floors = []
        self.notes = []
        self.analysed = {}
        self.trusted = []
        self.assumptions = []
        self.decided = []
        self.undecided = []
        self.level = "other"
        self.extra_cov = {}

    # ---- recording -------------------------------------------------------------------------
    def ob(self, rule, key, ok, detail="", loc=None, nontrivial=True, how="path"):
        """Record one obligation instance. `key` never contains line numbers."""
        self.obligations.append(
            {"rule": rule, "key": key, "ok": bool(ok), "detail": detail, "loc": loc, "nontrivial": nontrivial, "how": how}
        )
        if not ok:
            self.violations.append({"rule": rule, "key": "%s|%s" % (rule, key), "msg": detail, "loc": loc})
        return ok

    def violation(self, rule, key, msg, loc=None, **extra):
        self.obligations.append({"rule": rule, "key": key, "ok": False, "detail": msg, "loc": loc, "nontrivial": True, "how": "path"})
        v = {"rule": rule, "key": "%s|%s" % (rule, key), "msg": msg, "loc": loc}
        v.update(extra)
        self.violations.append(v)

    def floor(self, name, count, minimum):
        """Fail closed when a rule matched fewer instances than were confirmed by hand."""
        # `minimum` is the number counted by hand on the reference tree; the check fails closed when fewer than
        # half of that is found (a rule that matches next to nothing passes vacuously), not when a refactor merged or
        # removed one instance
        hard = max(1, (minimum + 1) // 2)
        self.floors.append({"name": name, "count": count, "min": hard, "counted_on_reference_tree": minimum})
        if count < hard:
            self.violations.append(
                {
                    "rule": "FLOOR",
                    "key": "FLOOR|%s" % name,
                    "msg": "rule instance count %d fell below half of the %d instances counted on the reference tree for %s (a rule matching next to nothing passes vacuously)" % (count, minimum, name),
                    "loc": None,
                }
            )

    def anchor_missing(self, what):
        self.violations.append({"rule": "ANCHOR", "key": "ANCHOR|%s" % what, "msg": "anchor missing or ambiguous: %s (rule cannot be evaluated; failing closed)" % what, "loc": None})

    def note(self, s):
        self.notes.append(s)

    # ---- finishing -------------------------------------------------------------------------
    def finish(self, known_path=None, evidence_dir=None, quiet=False):
        known_path = known_path or os.path.join(VERIF, "known_findings.json")
        evidence_dir = evidence_dir or os.environ.get("VERIF_EVIDENCE_DIR") or os.path.join(VERIF, "evidence")
        known = {}
        if os.path.exists(known_path):
            with open(known_path) as fh:
                kf = json.load(fh)
            for e in kf.get("findings", []):
                if e.get("status") == "known" and self.pid in e.get("properties", [e.get("property")]):
                    known[e["key"]] = e
        unlisted = []
        listed = []
        seen_keys = set()
        for v in self.violations:
            if v["key"] in seen_keys:
                continue
            seen_keys.add(v["key"])
            nk = v["key"].replace("@nostd", "")
            if nk in known:
                listed.append((v, known[nk]))
            else:
                unlisted.append(v)
        out_lines = []
        for v, e in listed:
            out_lines.append("KNOWN-FINDING: property=%s %s [%s] at %s" % (self.pid, e.get("what", v["msg"]), v["key"], v.get("loc")))
        # stale known entries (listed but no longer reported) are informational only
        stale = [k for k in known if k not in {x.replace("@nostd", "") for x in seen_keys}]
        for k in stale:
            out_lines.append("note: known finding no longer reported (fixed?): %s" % k)
        rc = 0
        replay = None
        if unlisted:
            rc = 1
            rdir = os.environ.get("VERIF_REPORT_DIR") or os.path.join(VERIF, "reports")
            os.makedirs(rdir, exist_ok=True)
            replay = os.path.join(rdir, "%s.json" % self.pid)
            with open(replay, "w") as fh:
                json.dump({"property": self.pid, "tier": self.tier, "violations": unlisted}, fh, indent=1)
            for v in unlisted:
                out_lines.append("  violation: [%s] %s  at %s" % (v["key"], v["msg"], v.get("loc")))
            out_lines.append("VIOLATION property=%s replay=%s" % (self.pid, replay))
        self._write_evidence(evidence_dir, len(unlisted), [v["key"] for v, _ in listed])
        nob = len(self.obligations)
        ok = sum(1 for o in self.obligations if o["ok"])
        out_lines.append(
            "%s: %d obligations, %d discharged, %d known findings, %d unlisted violations, %.1fs"
            % (self.pid, nob, ok, len(listed), len(unlisted), time.time() - self.t0)
        )
        if not quiet:
            print("\n".join(out_lines))
        return rc

    def _write_evidence(self, evidence_dir, n_viol, known_keys):
        os.makedirs(evidence_dir, exist_ok=True)
        nob = len(self.obligations)
        ok = sum(1 for o in self.obligations if o["ok"])
        distinct = len({(o["rule"], o["key"]) for o in self.obligations if o["nontrivial"]})
        by_rule = {}
        for o in self.obligations:
            r = by_rule.setdefault(o["rule"], {"instances": 0, "ok": 0})
            r["instances"] += 1
            r["ok"] += 1 if o["ok"] else 0
        by_how = {}
        for o in self.obligations:
            by_how[o["how"]] = by_how.get(o["how"], 0) + 1
        # samples: a few obligations per rule, with verdicts
        samples = []
        seen = {}
        for o in self.obligations:
            c = seen.get(o["rule"], 0)
            if c < 3:
                seen[o["rule"]] = c + 1
                samples.append({"rule": o["rule"], "instance": o["key"], "verdict": "holds" if o["ok"] else "fails", "at": o["loc"], "detail": o["detail"][:300]})
        expl = "DECIDED (static, every path of the current source): " + " | ".join(self.decided)
        expl += "  ||  NOT DECIDED by this family: " + " | ".join(self.undecided)
        cov = {
            "explanation": expl,
            "evaluations": max(nob, 1),
            "distinct_nontrivial": distinct,
            "rule": "one evaluation = one rule instance (call site, path obligation, table row) found in the current MIR/AST of /repo; "
            "non-trivial = needed a path, dominance, dataflow or table-agreement argument; distinct by (rule, function, site signature)",
            "obligations": nob,
            "discharged": ok,
            "samples": samples[:60],
            "by_rule": by_rule,
            "discharged_how": by_how,
            "floors": self.floors,
            "analysed": self.analysed,
            "trusted_base": self.trusted,
            "known_findings_reported": known_keys,
            "notes": self.notes[:40],
        }
        cov.update(self.extra_cov)
        ev = {
            "property_id": self.pid,
            "tier": self.tier,
            "seed": int(self.seed),
            "level": self.level,
            "coverage": cov,
            "assumptions": self.assumptions,
            "wall_s": round(time.time() - self.t0, 2),
            "violations": n_viol,
        }
        with open(os.path.join(evidence_dir, "%s.json" % self.pid), "w") as fh:
            json.dump(ev, fh, indent=1, default=str)
