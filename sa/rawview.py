"""RAWVIEW - every raw slice made over a frame slot stays inside that slot.

`FrameBox` hands out views of its slot with `slice::from_raw_parts{,_mut}(ptr, len)`.  The slot's storage is
`max_len` bytes starting at `FrameElement::ptr(frame)`.  For every such call in the frame-box layer the pointer's
byte offset from the start of the slot and the length are evaluated symbolically as `a * max_len + c` (constants
are taken from the evaluated `const` items and from the zero-argument `const fn`s the code calls:
`EthernetFrame::header_len()`, `EthercatFrameHeader::header_len()`, `PACKED_LEN`), and the rule requires

    offset + len  <=  max_len      (for len = max_len - k:  offset <= k;  for constant len:  offset + len <= MIN)

plus sibling agreement: the shared and the mutable view of the same region (`pdu_buf`/`pdu_buf_mut`,
`ethernet_frame`/`ethernet_frame_mut`) have the same offset and the same length.  A view that is two bytes too
long writes a received frame into the next slot's header (C02: two parties in one buffer, C05: a slot other than
the one accepted into is altered, C04: the frame exceeds the configured size) - for maximal frames only, which no
test sends."""
from .core import norm, op_place

MIN_SLOT = 16  # Ethernet header + EtherCAT header: PduStorage refuses smaller frames (checked by C03.alloc)


class Lin:
    __slots__ = ("a", "c")

    def __init__(self, a=0, c=0):
        self.a = a
        self.c = c

    def __add__(self, o):
        return Lin(self.a + o.a, self.c + o.c)

    def __sub__(self, o):
        return Lin(self.a - o.a, self.c - o.c)

    def __repr__(self):
        if self.a == 0:
            return str(self.c)
        s = "max_len" if self.a == 1 else "%d*max_len" % self.a
        if self.c:
            s += (" + %d" % self.c) if self.c > 0 else (" - %d" % -self.c)
        return s


def _single_defs(b, l):
    return b.defs().get(l, [])


def lin_of(prog, b, op, depth=0):
    """Symbolic value of an integer operand as a*max_len + c, or None."""
    if depth > 12:
        return None
    c = op.get("const")
    if c is not None:
        return Lin(0, c["v"]) if isinstance(c.get("v"), int) else None
    pl = op_place(op)
    if pl is None:
        return None
    fields = [p for p in pl["p"] if isinstance(p, dict) and "n" in p]
    if fields:
        f = fields[-1]
        if f["n"] == "max_len" and norm(f["adt"]).endswith("FrameBox"):
            return Lin(1, 0)
        if pl["p"] and isinstance(pl["p"][-1], dict) and pl["p"][-1].get("k") == "tuple":
            pass
        else:
            return None
    ds = _single_defs(b, pl["l"])
    if len(ds) != 1:
        return None
    bi, si, kind, payload = ds[0]
    if kind == "assign":
        rv = payload["rv"]
        if rv["k"] == "use":
            return lin_of(prog, b, rv["a"][0], depth + 1)
        if rv["k"] == "bin":
            opn = rv["op"].replace("WithOverflow", "").replace("Unchecked", "")
            x = lin_of(prog, b, rv["a"][0], depth + 1)
            y = lin_of(prog, b, rv["a"][1], depth + 1)
            if x is None or y is None:
                return None
            if opn == "Add":
                return x + y
            if opn == "Sub":
                return x - y
            if opn == "Mul" and x.a == 0 and y.a == 0:
                return Lin(0, x.c * y.c)
            return None
        if rv["k"] == "cast":
            return lin_of(prog, b, rv["a"][0], depth + 1)
        return None
    if kind == "call":
        call = payload
        if not call.args:
            t = prog.by_path.get(call.full)
            if t is not None:
                return ret_lin(prog, t, depth + 1)
        if call.decl_s and call.decl_s.split("::")[-1] in ("saturating_sub",) and len(call.args) == 2:
            return None
        return None
    return None


def ret_lin(prog, t, depth=0):
    ds = t.defs().get(0, [])
    if len(ds) != 1 or ds[0][2] != "assign":
        return None
    rv = ds[0][3]["rv"]
    if rv["k"] != "use":
        return None
    return lin_of(prog, t, rv["a"][0], depth + 1)


PTR_TRANSPARENT = ("::as_ptr", "::cast", "::cast_mut", "::cast_const", "NonNull::new_unchecked", "::as_mut_ptr", "NonNull::as_ptr")


def ptr_off(prog, b, op, depth=0):
    """Byte offset (int) of a pointer operand from the start of the slot's Ethernet frame, or None."""
    if depth > 12:
        return None
    pl = op_place(op)
    if pl is None:
        return None
    if pl["p"]:
        return None
    ds = _single_defs(b, pl["l"])
    if len(ds) != 1:
        return None
    bi, si, kind, payload = ds[0]
    if kind == "assign":
        rv = payload["rv"]
        if rv["k"] in ("use", "cast"):
            return ptr_off(prog, b, rv["a"][0], depth + 1)
        return None
    if kind != "call":
        return None
    c = payload
    name = c.decl_s or ""
    if c.is_("FrameElement::ptr"):
        return 0
    r = _ptr_off_call(prog, b, c, depth)
    if r is not None:
        return r
    t = prog.by_path.get(c.full)
    if t is not None and t.crate == "ethercrab":
        # a helper returning a pointer into the same slot (ethercat_payload_ptr): evaluate its return value
        ds0 = t.defs().get(0, [])
        if len(ds0) == 1:
            d = ds0[0]
            if d[2] == "call":
                return _ptr_off_call(prog, t, d[3], depth + 1)
            if d[2] == "assign" and d[3]["rv"]["k"] in ("use", "cast"):
                return ptr_off(prog, t, d[3]["rv"]["a"][0], depth + 1)
    return None


def _ptr_off_call(prog, b, c, depth):
    name = c.decl_s or ""
    if c.is_("FrameElement::ptr"):
        return 0
    if name.endswith("::byte_add"):
        base = ptr_off(prog, b, c.args[0], depth + 1)
        n = lin_of(prog, b, c.args[1], depth + 1)
        if base is None or n is None or n.a != 0:
            return None
        return base + n.c
    if any(name.endswith(x) or name == x for x in PTR_TRANSPARENT):
        return ptr_off(prog, b, c.args[0], depth + 1)
    return None


SIBLINGS = [("FrameBox::pdu_buf", "FrameBox::pdu_buf_mut"), ("FrameBox::ethernet_frame", "FrameBox::ethernet_frame_mut")]


def check(prog, rep, pid, tag=""):
    rule = "%s.rawview" % pid
    views = {}
    n = 0
    for b in prog.bodies:
        if b.crate != "ethercrab" or b.d.get("is_test") or not b.file.startswith("src/pdu_loop/frame_element/frame_box.rs"):
            continue
        for c in b.calls():
            if not (c.decl_s or "").endswith(("slice::from_raw_parts", "slice::from_raw_parts_mut")):
                continue
            n += 1
            off = ptr_off(prog, b, c.args[0])
            ln = lin_of(prog, b, c.args[1])
            views[b.root_short] = (off, repr(ln) if ln is not None else None)
            if off is None or ln is None:
                ok = False
                why = "could not establish offset (%s) / length (%s) of the view" % (off, ln)
            elif ln.a == 1:
                ok = off + ln.c <= 0
                why = "offset %d, length %r: ends at max_len %+d" % (off, ln, off + ln.c)
            elif ln.a == 0:
                ok = 0 <= off + ln.c <= MIN_SLOT
                why = "offset %d, length %d: ends at byte %d (<= %d, the smallest slot)" % (off, ln.c, off + ln.c, MIN_SLOT)
            else:
                ok = False
                why = "length %r is not bounded by the slot size" % ln
            rep.ob(rule, "%s:inside-slot%s" % (b.root_short, tag), ok, "the raw view built in %s stays inside the slot's max_len bytes: %s" % (b.root_short, why), loc=c.span, how="dataflow")
    for x, y in SIBLINGS:
        vx, vy = views.get(x), views.get(y)
        rep.ob(rule, "%s=%s%s" % (x, y, tag), vx is not None and vx == vy and None not in vx, "the shared and the mutable view of the same region agree (offset, length): %s / %s" % (vx, vy), how="table")
    rep.floor("%s raw views of a frame slot%s" % (pid, tag), n, 5)
    if not tag:
        rep.decided.append("every raw slice FrameBox builds over its slot (5 views) has offset + length <= max_len, and the shared / mutable view of one region agree")
