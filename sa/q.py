"""Query helpers over Body: branch conditions, edge dominance, aggregates, field accesses."""
from collections import deque

from .core import Prov, last_seg, norm, op_const, op_place, short, ty_short

STD_ENUMS = {
    "Option": {0: "None", 1: "Some"},
    "Result": {0: "Ok", 1: "Err"},
    "ControlFlow": {0: "Continue", 1: "Break"},
    "Poll": {0: "Ready", 1: "Pending"},
    "Ordering": {0: "Relaxed", 1: "Release", 2: "Acquire", 3: "AcqRel", 4: "SeqCst"},
}

CMP_OPS = {"Eq", "Ne", "Lt", "Le", "Gt", "Ge"}
NEG = {"Eq": "Ne", "Ne": "Eq", "Lt": "Ge", "Ge": "Lt", "Gt": "Le", "Le": "Gt"}


def enum_variants(prog, ty):
    """discriminant value -> variant name for the enum type string `ty`."""
    t = ty_short(ty)
    base = t.split("<")[0].lstrip("&").strip()
    if base in STD_ENUMS:
        return STD_ENUMS[base]
    n = norm(ty).lstrip("&").strip()
    cands = [a for p, a in prog.adts.items() if p.endswith(n) or last_seg(p) == base]
    for a in cands:
        if a["kind"] == "Enum":
            return {v.get("discr", i): v["name"] for i, v in enumerate(a["variants"])}
    return {}


class Cond:
    """Analysis of one SwitchInt."""

    def __init__(self, body, bb):
        self.body = body
        self.bb = bb
        t = body.term(bb)
        self.t = t
        self.arms = [(a[0], a[1]) for a in t["arms"]]
        self.otherwise = t["otherwise"]
        self.kind = "int"
        self.op = None
        self.lhs = None
        self.rhs = None
        self.place = None
        self.enum_ty = None
        self.call = None
        self.negated = False
        self._analyse()

    def _single_def(self, l):
        ds = self.body.defs().get(l, [])
        # prefer defs in the same block
        same = [d for d in ds if d[0] == self.bb]
        if same:
            return same[-1]
        if len(ds) == 1:
            return ds[0]
        return None

    def _analyse(self):
        d = self.t["d"]
        pl = op_place(d)
        dty = self.t.get("dty", "")
        if pl is None or pl["p"]:
            self.kind = "bool" if dty == "bool" else "int"
            self.operand = d
            return
        l = pl["l"]
        neg = False
        for _ in range(4):
            df = self._single_def(l)
            if df is None:
                break
            bi, si, kind, payload = df
            if kind == "assign":
                rv = payload["rv"]
                if rv["k"] == "bin" and rv["op"] in CMP_OPS:
                    self.kind = "cmp"
                    self.op = rv["op"]
                    self.lhs, self.rhs = rv["a"]
                    self.negated = neg
                    return
                if rv["k"] == "discr":
                    self.kind = "discr"
                    self.place = rv["place"]
                    self.enum_ty = rv["of"]
                    return
                if rv["k"] == "un" and rv["op"] == "Not":
                    neg = not neg
                    p2 = op_place(rv["a"][0])
                    if p2 is None or p2["p"]:
                        break
                    l = p2["l"]
                    continue
                if rv["k"] == "use":
                    p2 = op_place(rv["a"][0])
                    if p2 is not None and not p2["p"]:
                        l = p2["l"]
                        continue
                    if p2 is not None:
                        self.kind = "bool" if dty == "bool" else "int"
                        self.operand = rv["a"][0]
                        self.negated = neg
                        return
                break
            elif kind == "call":
                self.kind = "call"
                self.call = payload
                self.negated = neg
                return
            else:
                break
        self.kind = "bool" if dty == "bool" else "int"
        self.operand = d
        self.negated = neg

    # for bool-ish switches: targets when the (un-negated) condition is true / false
    def true_target(self):
        f = None
        for v, t in self.arms:
            if v == 0:
                f = t
        tt = self.otherwise if f is not None else None
        if f is None:
            return None
        return f if self.negated else tt

    def false_target(self):
        f = None
        for v, t in self.arms:
            if v == 0:
                f = t
        if f is None:
            return None
        return self.otherwise if self.negated else f

    def variant_targets(self, prog):
        """variant name -> target bb; 'otherwise' key for the default edge."""
        m = {}
        names = enum_variants(prog, self.enum_ty) if self.enum_ty else {}
        dty = (self.t.get("dty") or "").strip()
        sbits = {"i8": 8, "i16": 16, "i32": 32, "i64": 64, "isize": 64, "i128": 128}.get(dty)
        for v, t in self.arms:
            if sbits and v >= (1 << (sbits - 1)):
                v -= 1 << sbits
            m[names.get(v, v)] = t
        m["otherwise"] = self.otherwise
        # when all but one variant are listed, the otherwise edge is that variant (or unreachable)
        if names:
            missing = [n for k, n in names.items() if n not in m]
            if len(missing) == 1 and not self._is_unreachable(self.otherwise):
                m[missing[0]] = self.otherwise
        return m

    def _is_unreachable(self, b):
        return self.body.term(b)["k"] == "unreachable"

    def holds_on(self, target, relation):
        """Given relation op (e.g. 'Eq'), is `lhs <relation> rhs` known on edge bb->target?"""
        if self.kind != "cmp":
            return False
        if target == self.true_target() and target != self.false_target():
            return self.op == relation
        if target == self.false_target() and target != self.true_target():
            return NEG[self.op] == relation
        return False


def conds(body):
    live = body.live_blocks()
    return [Cond(body, b) for b in sorted(live) if body.term(b)["k"] == "switch"]


def reach_without_edges(body, removed, start=0):
    removed = set(removed)
    seen = set()
    dq = deque([start])
    while dq:
        b = dq.popleft()
        if b in seen:
            continue
        seen.add(b)
        for s in body.succ(b):
            if (b, s) in removed:
                continue
            if s not in seen:
                dq.append(s)
    return seen


def edge_dominated(body, a, b):
    """Blocks every entry path to which uses the CFG edge a->b."""
    live = body.live_blocks()
    return live - reach_without_edges(body, {(a, b)})


def edges_dominated(body, edges):
    """Blocks unreachable once all `edges` are removed (i.e. every path uses one of them)."""
    live = body.live_blocks()
    return live - reach_without_edges(body, set(edges))


def aggregates(body, adt=None, variant=None):
    """(bb, si, stmt) for aggregate constructions of ADT (short name) / variant."""
    out = []
    for bi in sorted(body.live_blocks()):
        for si, s in enumerate(body.stmts(bi)):
            if s["k"] != "assign" or s["rv"]["k"] != "agg":
                continue
            rv = s["rv"]
            if rv["ak"] != "adt":
                continue
            if adt is not None and last_seg(norm(rv["adt"])) != adt:
                continue
            if variant is not None and rv["variant"] != variant:
                continue
            # a Result / Option / Poll built inside an inlined helper (sa/inline.py) is the *helper's* return value; rules
            # asking "where does this function return Ok" only want it if it travels on into this function's own return
            if last_seg(norm(rv["adt"])) in ("Result", "Option", "Poll") and body.blocks[bi].get("inl") and not _flows_to_return(body, s["place"]):
                continue
            out.append((bi, si, s))
    return out


def _flows_to_return(body, place, depth=6):
    if place["p"]:
        return False
    seen = set()
    work = [place["l"]]
    while work and depth > 0:
        depth -= 1
        nxt = []
        for l in work:
            if l == 0:
                return True
            if l in seen:
                continue
            seen.add(l)
            for bi, blk in enumerate(body.blocks):
                if blk.get("cleanup"):
                    continue
                for st in blk["stmts"]:
                    if st["k"] == "assign" and st["rv"]["k"] == "use" and not st["place"]["p"]:
                        pl = op_place(st["rv"]["a"][0])
                        if pl is not None and pl["l"] == l and not pl["p"]:
                            nxt.append(st["place"]["l"])
        work = nxt
    return 0 in work


def agg_field(stmt, name):
    rv = stmt["rv"]
    for f, a in zip(rv["fields"], rv["a"]):
        if f == name:
            return a
    return None


def field_accesses(body, adt, field):
    """All (bb, si|'term', 'read'|'write', where) touching ADT.field through any place."""
    out = []

    def has(pl):
        for p in pl["p"]:
            if isinstance(p, dict) and p.get("n") == field and last_seg(norm(p.get("adt", ""))) == adt:
                return True
        return False

    def scan_operand(op, bi, si):
        pl = op_place(op)
        if pl is not None and has(pl):
            out.append((bi, si, "read", pl))

    for bi in sorted(body.live_blocks()):
        for si, s in enumerate(body.stmts(bi)):
            if s["k"] != "assign":
                continue
            if has(s["place"]):
                # writing to the field itself only if the field is the last ADT projection
                lastf = [p for p in s["place"]["p"] if isinstance(p, dict) and "n" in p]
                if lastf and lastf[-1].get("n") == field:
                    out.append((bi, si, "write", s["place"]))
                else:
                    out.append((bi, si, "read", s["place"]))
            rv = s["rv"]
            for a in rv.get("a", []):
                scan_operand(a, bi, si)
            if "place" in rv and has(rv["place"]):
                kind = "read"
                if rv["k"] in ("ref", "rawptr") and rv.get("m") in ("mut", "Mut"):
                    kind = "addr_mut"
                elif rv["k"] in ("ref", "rawptr"):
                    kind = "addr"
                out.append((bi, si, kind, rv["place"]))
        t = body.term(bi)
        if t["k"] == "call":
            for a in t["args"]:
                scan_operand(a, bi, "term")
            if has(t["dest"]):
                out.append((bi, "term", "write", t["dest"]))
        elif t["k"] == "switch":
            scan_operand(t["d"], bi, "term")
        elif t["k"] == "assert":
            for a in t["ops"]:
                scan_operand(a, bi, "term")
        elif t["k"] == "drop":
            pass
    return out


def assigns_to_return(body):
    """(bb, si|'term', stmt_or_call) assigning to _0 (any projection)."""
    out = []
    for (bi, si, kind, payload) in body.defs().get(0, []):
        out.append((bi, si, kind, payload))
    return out


def const_int(op):
    c = op_const(op)
    if c is not None and "v" in c:
        return c["v"]
    return None


def const_or_array_len(body, op, depth=4):
    """Integer value of an operand that is a constant, or `<array>.len()` of a local of type `[T; N]` (-> N)."""
    import re
    v = const_int(op)
    if v is not None or depth < 0:
        return v
    pl = op_place(op)
    if pl is None or pl["p"]:
        return None
    ds = body.defs().get(pl["l"], [])
    if len(ds) != 1:
        return None
    bi, si, kind, payload = ds[0]
    if kind == "assign" and payload["rv"]["k"] in ("use", "cast"):
        return const_or_array_len(body, payload["rv"]["a"][0], depth - 1)
    if kind == "call" and (payload.decl_s or "").endswith("::len") and payload.args:
        ap = op_place(payload.args[0])
        if ap is not None:
            base = _base_local(body, ap)
            m = re.search(r"\[[^;\]]+;\s*(\d+)\]", body.local_ty(base))
            if m:
                return int(m.group(1))
            # unsize coercion `&[u8; N] -> &[u8]` in between
            for d in body.defs().get(base, []):
                if d[2] == "assign" and d[3]["rv"]["k"] == "cast" and "Unsize" in (d[3]["rv"].get("ck") or ""):
                    m = re.search(r"\[[^;\]]+;\s*(\d+)\]", d[3]["rv"].get("from") or "")
                    if m:
                        return int(m.group(1))
    return None


def local_of(op):
    pl = op_place(op)
    if pl is not None and not pl["p"]:
        return pl["l"]
    return None


# how the "success" tag of a fallible value changes when it goes through an adaptor: name -> (kind after, map)
_OK_ADAPTORS = {
    "Result::map_err": None, "Result::map": None, "Result::inspect_err": None, "Result::inspect": None,
    "Option::map": None, "Option::inspect": None, "Result::as_ref": None, "Result::as_mut": None, "Option::as_ref": None,
    "Option::as_mut": None, "Result::copied": None, "Result::cloned": None, "Option::copied": None, "Option::cloned": None,
    "Result::ok": {"Ok": "Some", "Err": "None"}, "Result::err": {"Ok": "None", "Err": "Some"},
    "Option::ok_or": {"Some": "Ok", "None": "Err"}, "Option::ok_or_else": {"Some": "Ok", "None": "Err"},
    "Try::branch": {"Ok": "Continue", "Err": "Break", "Some": "Continue", "None": "Break"},
    "Result::is_ok": {"Ok": 1, "Err": 0}, "Result::is_err": {"Ok": 0, "Err": 1},
    "Option::is_some": {"Some": 1, "None": 0}, "Option::is_none": {"Some": 0, "None": 1},
}


def ok_edges(body, call, ok="Ok"):
    """Every branch that tests the outcome of the fallible `call` (a `Result`, or an `Option` with ok="Some"),
    whatever the idiom: `?`, `match`, `if let`, `let .. else`, `.is_ok()`, `.is_err()`, through `map_err` / `map` /
    `inspect_err` / `ok()` / `ok_or(..)` chains, plain moves and references.
    -> [(switch_bb, success_target, failure_target)] (targets may be None when an edge is unreachable)."""
    err = {"Ok": "Err", "Some": "None"}[ok]
    out = []
    seen = set()
    work = [(call.dest["l"], ok, err)]
    conds_ = conds(body)
    calls = body.calls()
    while work:
        l, okt, errt = work.pop()
        if (l, okt) in seen or len(seen) > 40:
            continue
        seen.add((l, okt))
        # branches on this value
        for cd in conds_:
            if cd.kind == "discr" and cd.place is not None and cd.place["l"] == l and all(p == "*" for p in cd.place["p"]) and isinstance(okt, str):
                vt = cd.variant_targets(body.prog)
                if okt in vt or errt in vt:
                    out.append((cd.bb, vt.get(okt), vt.get(errt)))
            elif cd.kind in ("bool", "int") and isinstance(okt, int):
                pl = op_place(getattr(cd, "operand", None) or {})
                if pl is not None and pl["l"] == l and not pl["p"]:
                    tt, ft = cd.true_target(), cd.false_target()
                    out.append((cd.bb, tt if okt == 1 else ft, ft if okt == 1 else tt))
            elif cd.kind == "call" and isinstance(okt, str):
                # switch directly on `x.is_ok()`
                c = cd.call
                m = _OK_ADAPTORS.get(c.decl_s)
                pl = op_place(c.args[0]) if c.args else None
                if m and pl is not None and _base_local(body, pl) == l and isinstance(m.get(okt), int):
                    tt, ft = cd.true_target(), cd.false_target()
                    out.append((cd.bb, tt if m[okt] == 1 else ft, ft if m[okt] == 1 else tt))
        # where the value goes next
        for bi, blk in enumerate(body.blocks):
            if blk.get("cleanup"):
                continue
            for st in blk["stmts"]:
                if st["k"] != "assign" or st["place"]["p"]:
                    continue
                rv = st["rv"]
                if rv["k"] in ("use", "cast") and (op_place(rv["a"][0]) or {}).get("l") == l and not (op_place(rv["a"][0]) or {"p": [1]})["p"]:
                    work.append((st["place"]["l"], okt, errt))
                elif rv["k"] in ("ref", "rawptr") and rv["place"]["l"] == l and not rv["place"]["p"]:
                    work.append((st["place"]["l"], okt, errt))
        for c in calls:
            if not c.args:
                continue
            pl = op_place(c.args[0])
            if pl is None or pl["l"] != l or any(p != "*" for p in pl["p"]):
                continue
            if c.decl_s in _OK_ADAPTORS and isinstance(okt, str):
                m = _OK_ADAPTORS[c.decl_s]
                if m is None:
                    work.append((c.dest["l"], okt, errt))
                elif okt in m:
                    work.append((c.dest["l"], m[okt], m[errt]))
    # de-duplicate
    uniq = []
    for e in out:
        if e not in uniq:
            uniq.append(e)
    return uniq


def _base_local(body, pl):
    """Local a reference operand ultimately points at (through `&x` temporaries)."""
    l = pl["l"]
    for _ in range(4):
        ds = body.defs().get(l, [])
        if len(ds) == 1 and ds[0][2] == "assign" and ds[0][3]["rv"]["k"] in ("ref", "rawptr") and all(p == "*" for p in ds[0][3]["rv"]["place"]["p"]):
            # `&x`, or the reborrow `&*r` of a reference local
            l = ds[0][3]["rv"]["place"]["l"]
        elif len(ds) == 1 and ds[0][2] == "assign" and ds[0][3]["rv"]["k"] == "use" and op_place(ds[0][3]["rv"]["a"][0]) is not None and not op_place(ds[0][3]["rv"]["a"][0])["p"]:
            l = op_place(ds[0][3]["rv"]["a"][0])["l"]
        else:
            break
    return l


def ok_edge_of_try(body, call):
    """(switch_bb, success_target, failure_target) of the first branch testing the outcome of `call` - `?` or any
    other idiom (see ok_edges); None if the outcome is never tested."""
    es = ok_edges(body, call, ok="Ok") or ok_edges(body, call, ok="Some")
    # prefer the branch closest to the call (smallest block index reachable from it)
    if not es:
        return None
    reach = body.reachable_from(call.bb)
    es = [e for e in es if e[0] in reach] or es
    return es[0]


def loc(body, bb, si=None):
    return "%s (%s)" % (body.loc(bb, si), body.root_short)


class Forward:
    """Forward value tracking (flow-insensitive over locals): from seed locals, follow moves, copies,
    refs, casts, aggregates that wrap the value, and pass-through calls. Reports every other use."""

    def __init__(self, body, seeds, passthrough, ty_filter=None, stop_calls=(), sink_adts=()):
        self.body = body
        self.passthrough = set(passthrough)
        self.stop_calls = set(stop_calls)
        self.ty_filter = ty_filter
        self.sink_adts = set(sink_adts)
        self.tracked = set()
        self.uses = []  # (kind, bb, si, detail)
        self._run(set(seeds))

    def _ok_ty(self, l):
        if self.ty_filter is None:
            return True
        return self.ty_filter(self.body.local_ty(l))

    def _run(self, seeds):
        body = self.body
        work = deque(seeds)
        while work:
            l = work.popleft()
            if l in self.tracked:
                continue
            self.tracked.add(l)

            def add(n):
                if n not in self.tracked and self._ok_ty(n):
                    work.append(n)

            for bi in sorted(body.live_blocks()):
                for si, s in enumerate(body.stmts(bi)):
                    if s["k"] != "assign":
                        continue
                    rv = s["rv"]
                    srcs = []
                    for a in rv.get("a", []):
                        pl = op_place(a)
                        if pl is not None and pl["l"] == l:
                            srcs.append(pl)
                    if "place" in rv and rv["place"]["l"] == l:
                        srcs.append(rv["place"])
                    if not srcs:
                        continue
                    dl = s["place"]["l"]
                    if dl == 0:
                        self.uses.append(("return", bi, si, s))
                        continue
                    if rv["k"] == "discr":
                        continue
                    # field projection reads out of the tracked value whose result type is not tracked
                    if self._ok_ty(dl):
                        add(dl)
                    else:
                        # projections through plumbing enums (ControlFlow/Result/Poll payloads of
                        # another type) are not uses of the tracked value; fields of a sink ADT are
                        inner = [p for pl in srcs for p in pl["p"] if isinstance(p, dict) and "n" in p]
                        if not self.sink_adts or any(last_seg(norm(p.get("adt", ""))) in self.sink_adts for p in inner):
                            self.uses.append(("read", bi, si, s))
                t = body.term(bi)
                if t["k"] == "call":
                    hit = [i for i, a in enumerate(t["args"]) if (op_place(a) or {}).get("l") == l]
                    if not hit:
                        continue
                    from .core import Call

                    c = Call(body, bi, t)
                    names = {c.decl_s, c.res_s}
                    if names & self.stop_calls:
                        self.uses.append(("cut", bi, "term", c))
                    elif names & self.passthrough:
                        if t["dest"]["l"] == 0:
                            self.uses.append(("return", bi, "term", c))
                        else:
                            add(t["dest"]["l"])
                    else:
                        self.uses.append(("call", bi, "term", c))


def implied_true_calls(body, block, _depth=0, _seen=None):
    """Calls whose boolean result is necessarily `true` whenever `block` executes.  Understands
    short-circuit `a() && b()` lowering (`t = b()` on one arm, `t = false` on the other)."""
    out = []
    _seen = _seen if _seen is not None else set()
    if _depth > 6 or block in _seen:
        return out
    _seen.add(block)
    for cd in conds(body):
        tt = None
        for v, t in cd.arms:
            if v == 0:
                tt = cd.otherwise
        if tt is None or cd.t.get("dty") != "bool":
            continue
        if block not in edge_dominated(body, cd.bb, tt):
            continue
        pl = op_place(cd.t["d"])
        if pl is None or pl["p"]:
            continue
        defs = body.defs().get(pl["l"], [])
        live = []
        for d in defs:
            bi, si, kind, payload = d
            if kind == "assign" and payload["rv"]["k"] == "use" and const_int(payload["rv"]["a"][0]) == 0:
                continue  # `t = false` can never take the true edge
            live.append(d)
        if len(live) == 1 and live[0][2] == "call":
            c = live[0][3]
            out.append(c)
            out += implied_true_calls(body, c.bb, _depth + 1, _seen)
    return out


def true_return_sites(body):
    """For a body returning bool: one entry per way `_0` can become true: (block, [calls that necessarily
    returned true]).  `_0 = false` is skipped; `_0 = a()` (also through one temporary) contributes `a`."""
    out = []
    defs = body.defs()

    def from_def(d, depth=0):
        bi, si, kind, payload = d
        if kind == "call":
            out.append((bi, [payload] + implied_true_calls(body, payload.bb)))
            return
        if kind != "assign":
            return
        rv = payload["rv"]
        if rv["k"] == "use":
            a = rv["a"][0]
            ci = const_int(a)
            if ci == 0:
                return
            if ci is None:
                pl = op_place(a)
                if pl is not None and not pl["p"] and depth < 3:
                    for d2 in defs.get(pl["l"], []):
                        from_def(d2, depth + 1)
                    return
        out.append((bi, implied_true_calls(body, bi)))

    for d in defs.get(0, []):
        from_def(d)
    return out


# ---------------------------------------------------------------------------------------------
# A three-valued forward analysis over whole bool locals: F (0), T (1), TOP (None).  Used for
# "once X has been observed the result is false" rules that must not depend on whether the code
# returns early or accumulates a flag.

class BoolFlow:
    """Start at (bb, stmt index) with the given {local: 0|1} facts (everything else unknown), run
    to a fixpoint with switch refinement on whole bool locals.  in_state[bb] is the join over the
    feasible paths from the start; blocks not in in_state are not reachable on those paths."""

    def __init__(self, body, start_bb, start_si, facts, avoid=()):
        self.body = body
        self.avoid = set(avoid)
        self.in_state = {}
        self.ret_values = []   # (bb, si, value, operand) for every `_0 = Result::Ok(x)` reached
        self._run(start_bb, start_si, dict(facts))

    @staticmethod
    def _join(a, b):
        # missing key = unknown
        return {k: v for k, v in a.items() if k in b and b[k] == v}

    def _val(self, st, op):
        c = const_int(op)
        if c is not None:
            return c if c in (0, 1) else ("I", c)
        pl = op_place(op)
        if pl is None:
            return None
        if pl["p"]:
            # payload of an enum value whose variant (and payload) is known: `(r as Ok).0`, `(cf as Continue).0`
            ps = [p for p in pl["p"] if p != "*"]
            if len(ps) == 2 and isinstance(ps[0], dict) and "dc" in ps[0] and isinstance(ps[1], dict) and ps[1].get("f") == 0:
                x = st.get(pl["l"])
                if isinstance(x, tuple) and x[0] == "R":
                    x = st.get(x[1])
                if isinstance(x, tuple) and x[0] == "V" and len(x) > 3 and x[1] == ps[0]["dc"]:
                    return x[3]
            return None
        return st.get(pl["l"])

    def _bool(self, st, op):
        v = self._val(st, op)
        return v if v in (0, 1) else None

    _TESTS = {"Result::is_ok": ("Ok", 1), "Result::is_err": ("Ok", 0), "Option::is_some": ("Some", 1), "Option::is_none": ("Some", 0)}

    def _transfer(self, st, s):
        if s["k"] != "assign":
            return
        pl = s["place"]
        if pl["p"]:
            return
        l = pl["l"]
        rv = s["rv"]
        v = None
        if rv["k"] == "use":
            v = self._val(st, rv["a"][0])
        elif rv["k"] == "un" and rv.get("op") == "Not":
            x = self._bool(st, rv["a"][0])
            v = None if x is None else 1 - x
        elif rv["k"] == "agg" and rv.get("ak") == "adt" and rv.get("is_enum") and rv.get("variant") is not None:
            # which variant an enum local holds (Ok / Err / Some / None ...): lets `.is_ok()` and `match` be followed
            pay = self._val(st, rv["a"][0]) if len(rv.get("a", [])) == 1 else None
            v = ("V", rv["variant"], rv.get("vi"), pay if (pay in (0, 1) or (isinstance(pay, tuple) and pay and pay[0] == "V")) else None)
        elif rv["k"] in ("ref", "rawptr") and not rv["place"]["p"]:
            v = ("R", rv["place"]["l"])
        elif rv["k"] == "discr" and not [p for p in rv["place"]["p"] if p != "*"]:
            x = st.get(rv["place"]["l"])
            if isinstance(x, tuple) and x[0] == "R":
                x = st.get(x[1])
            v = ("I", x[2]) if isinstance(x, tuple) and x[0] == "V" and x[2] is not None else None
        elif rv["k"] == "bin" and rv.get("op") in ("BitAnd", "BitOr") and rv.get("lty") == "bool":
            x, y = self._bool(st, rv["a"][0]), self._bool(st, rv["a"][1])
            if rv["op"] == "BitAnd":
                v = 0 if (x == 0 or y == 0) else (1 if (x == 1 and y == 1) else None)
            else:
                v = 1 if (x == 1 or y == 1) else (0 if (x == 0 and y == 0) else None)
        if v is None:
            st.pop(l, None)
        else:
            st[l] = v

    def _run(self, sb, ssi, facts):
        body = self.body
        work = [(sb, ssi, facts)]
        first = True
        while work:
            bb, si, st = work.pop()
            if bb in self.avoid:
                continue
            if not first or si == 0:
                old = self.in_state.get(bb)
                if old is not None:
                    j = self._join(old, st)
                    if j == old:
                        continue
                    st = j
                self.in_state[bb] = dict(st)
            first = False
            st = dict(st)
            stmts = body.stmts(bb)
            for i in range(si, len(stmts)):
                self._transfer(st, stmts[i])
            t = body.term(bb)
            k = t["k"]
            if k == "switch":
                v = self._val(st, t["d"])
                if t.get("dty") == "bool":
                    v = v if v in (0, 1) else None
                else:
                    v = v[1] if isinstance(v, tuple) and v[0] == "I" else None
                targets = []
                if v is None:
                    targets = [a[1] for a in t["arms"]] + [t["otherwise"]]
                else:
                    hit = [a[1] for a in t["arms"] if a[0] == v]
                    targets = hit if hit else [t["otherwise"]]
                # refine: on a bool switch over a whole local, the arm fixes its value
                pl = op_place(t["d"])
                for tg in targets:
                    if tg is None:
                        continue
                    st2 = dict(st)
                    if t.get("dty") == "bool" and pl is not None and not pl["p"] and "move" not in t["d"]:
                        arm = [a[0] for a in t["arms"] if a[1] == tg]
                        if len(arm) == 1 and tg != t["otherwise"]:
                            st2[pl["l"]] = arm[0]
                        elif tg == t["otherwise"] and len(t["arms"]) == 1 and t["arms"][0][0] in (0, 1):
                            st2[pl["l"]] = 1 - t["arms"][0][0]
                    work.append((tg, 0, st2))
                continue
            if k == "call":
                d = t.get("dest")
                if d is not None and not d["p"]:
                    st.pop(d["l"], None)
                    cal = short(norm(t.get("callee"))) if t.get("callee") else None
                    if cal == "FromResidual::from_residual":
                        # `?` on the failure side: the value built is the failure variant of the function's return type
                        ty = body.local_ty(d["l"]).strip()
                        if ty.startswith(("std::result::Result<", "core::result::Result<")):
                            st[d["l"]] = ("V", "Err", 1)
                        elif ty.startswith(("std::option::Option<", "core::option::Option<")):
                            st[d["l"]] = ("V", "None", 0)
                    # adaptors that keep the variant, and `?`'s branch: Ok -> Continue, Err -> Break
                    if cal in ("Result::map_err", "Result::map", "Result::inspect_err", "Result::inspect", "Option::map", "Try::branch") and t.get("args"):
                        x = self._val(st, t["args"][0])
                        if isinstance(x, tuple) and x[0] == "R":
                            x = st.get(x[1])
                        if isinstance(x, tuple) and x[0] == "V":
                            if cal == "Try::branch":
                                st[d["l"]] = ("V", "Continue", 0, x[3] if len(x) > 3 else None) if x[1] in ("Ok", "Some") else ("V", "Break", 1, None)
                            else:
                                st[d["l"]] = x
                    tst = self._TESTS.get(cal)
                    if tst and t.get("args"):
                        x = self._val(st, t["args"][0])
                        if isinstance(x, tuple) and x[0] == "R":
                            x = st.get(x[1])
                        if isinstance(x, tuple) and x[0] == "V":
                            st[d["l"]] = tst[1] if x[1] == tst[0] else 1 - tst[1]
            if k == "yield":
                ra = t.get("resume_arg")
                if ra is not None and not ra["p"]:
                    st.pop(ra["l"], None)
            for tg in body._term_succ(t):
                if k in ("call", "drop", "assert") and tg == t.get("unwind"):
                    continue
                work.append((tg, 0, dict(st)))

    def value_at(self, bb, si, op):
        """Abstract value of operand `op` just before statement si of block bb (None = unknown or unreachable)."""
        if bb not in self.in_state:
            return "unreachable"
        st = dict(self.in_state[bb])
        stmts = self.body.stmts(bb)
        for i in range(0, si):
            self._transfer(st, stmts[i])
        return self._val(st, op)


def is_field_read(body, op, adt, field, depth=4):
    """Is the operand exactly a read of `<place>.field` of struct `adt` (directly, or through single-definition
    temporaries / casts)?  Flow-insensitive provenance cannot tell this from "depends on the field"."""
    pl = op_place(op)
    if pl is None or depth < 0:
        return False
    fs = [p for p in pl["p"] if isinstance(p, dict) and "n" in p]
    if fs:
        last = [p for p in pl["p"] if p != "*"][-1]
        return isinstance(last, dict) and last.get("n") == field and last_seg(norm(last.get("adt", ""))) == adt
    if pl["p"]:
        return False
    ds = body.defs().get(pl["l"], [])
    if len(ds) != 1 or ds[0][2] != "assign":
        return False
    rv = ds[0][3]["rv"]
    if rv["k"] in ("use", "cast"):
        return is_field_read(body, rv["a"][0], adt, field, depth - 1)
    return False


_FLIP = {"Lt": "Gt", "Gt": "Lt", "Le": "Ge", "Ge": "Le", "Eq": "Eq", "Ne": "Ne"}


def rel_edges(cd, pred_a, pred_b, prov):
    """For an ordered / equality comparison between an `A` operand (pred_a(roots)) and a `B` operand (pred_b(roots)),
    written either way round with any operator: {relation that holds for (A, B): target block} for both edges, e.g.
    {"Le": 7, "Gt": 9} for `if b < a {9} else {7}`.  {} if the switch is not such a comparison."""
    if cd.kind != "cmp" or cd.op not in _FLIP:
        return {}
    l, r = prov.of_operand(cd.lhs), prov.of_operand(cd.rhs)
    if pred_a(l) and pred_b(r):
        op = cd.op
    elif pred_a(r) and pred_b(l):
        op = _FLIP[cd.op]
    else:
        return {}
    out = {}
    tt, ft = cd.true_target(), cd.false_target()
    if tt is not None:
        out[op] = tt
    if ft is not None:
        out[NEG[op]] = ft
    return out


def as_min(body, op, depth=4):
    """If the operand is min(x, y) - a `min` call (method or free function, either order) or a local that is `x` on the
    path where x <= y (x < y) and `y` on the other path of one comparison - return the two operands (x, y); else None."""
    pl = op_place(op)
    if pl is None or pl["p"] or depth < 0:
        return None
    ds = body.defs().get(pl["l"], [])
    if len(ds) == 1:
        bi, si, kind, payload = ds[0]
        if kind == "assign" and payload["rv"]["k"] == "use":
            return as_min(body, payload["rv"]["a"][0], depth - 1)
        if kind == "call" and (payload.decl_s or "").split("::")[-1] == "min" and len(payload.args) == 2:
            return (payload.args[0], payload.args[1])
        return None
    if len(ds) == 2 and all((d[2] == "assign" and d[3]["rv"]["k"] == "use") or d[2] == "call" for d in ds):
        (b1, _, k1, p1), (b2, _, k2, p2) = ds
        # a value produced directly by a call (`n = bytes.len()` in one arm) is represented by that call
        x = p1["rv"]["a"][0] if k1 == "assign" else {"callval": p1}
        y = p2["rv"]["a"][0] if k2 == "assign" else {"callval": p2}
        for cd in conds(body):
            if cd.kind != "cmp" or cd.op not in ("Lt", "Le", "Gt", "Ge"):
                continue
            for (vx, bx, vy, by) in ((x, b1, y, b2), (y, b2, x, b1)):
                # vx chosen in block bx, vy in block by: need bx on the edge where vx <= vy, by on the other
                if _same_operand_value(body, cd.lhs, vx) and _same_operand_value(body, cd.rhs, vy):
                    small_t = cd.true_target() if cd.op in ("Lt", "Le") else cd.false_target()
                    big_t = cd.false_target() if cd.op in ("Lt", "Le") else cd.true_target()
                elif _same_operand_value(body, cd.lhs, vy) and _same_operand_value(body, cd.rhs, vx):
                    small_t = cd.true_target() if cd.op in ("Gt", "Ge") else cd.false_target()
                    big_t = cd.false_target() if cd.op in ("Gt", "Ge") else cd.true_target()
                else:
                    continue
                if small_t is not None and big_t is not None and bx in edge_dominated(body, cd.bb, small_t) and by in edge_dominated(body, cd.bb, big_t):
                    return (vx, vy)
    return None


def _same_operand_value(body, a, b_, depth=4):
    """Do two operands denote the same value (same constant, same place, or single-definition copies of one)?"""
    def canon(o, d):
        if "callval" in o:
            c_ = o["callval"]
            return ("call", c_.name, tuple(canon(x, d - 1) for x in c_.args))
        c = o.get("const")
        if c is not None:
            return ("c", c.get("v"), c.get("def"))
        pl = op_place(o)
        if pl is None:
            return None
        if not pl["p"] and d > 0:
            ds = body.defs().get(pl["l"], [])
            if len(ds) == 1 and ds[0][2] == "assign" and ds[0][3]["rv"]["k"] == "use":
                return canon(ds[0][3]["rv"]["a"][0], d - 1)
            if len(ds) == 1 and ds[0][2] == "call":
                c_ = ds[0][3]
                return ("call", c_.name, tuple(canon(x, d - 1) for x in c_.args))
            if len(ds) == 1 and ds[0][2] == "assign" and ds[0][3]["rv"]["k"] in ("ref", "rawptr"):
                from .core import place_key as _pk
                rp = ds[0][3]["rv"]["place"]
                if not [p for p in rp["p"] if p != "*"]:
                    return ("ref",) + (canon({"copy": {"l": rp["l"], "p": []}}, d - 1) or ("?",))
                return ("ref", _pk(rp))
        from .core import place_key
        return ("p", place_key(pl))
    # (structural equality of the defining expressions; generous depth so that both sides bottom out at places
    # or constants rather than at the depth limit)
    ca, cb = canon(a, 12), canon(b_, 12)
    return ca is not None and ca == cb


def comparison_sites(body, pred, prov=None):
    """Equality comparisons `a == b` / `a != b` (MIR BinaryOp or PartialEq::eq/ne call) whose operand roots satisfy
    `pred(roots_a, roots_b)` in either order.  -> [(start_bb, start_si, result_local, value_meaning_equal, site_bb)]:
    start_* is the first point at which the result is known (for BoolFlow)."""
    from .core import Prov
    prov = prov or Prov(body)
    out = []
    callmap = {c.bb: c for c in body.calls()}
    for bi in sorted(body.live_blocks()):
        t = body.term(bi)
        if t["k"] == "call":
            c = callmap.get(bi)
            if c is not None and c.is_("PartialEq::eq", "PartialEq::ne") and t.get("dest") is not None and not t["dest"]["p"] and t.get("t") is not None:
                l, r = prov.of_operand(c.args[0]), prov.of_operand(c.args[1])
                if pred(l, r) or pred(r, l):
                    out.append((t["t"], 0, t["dest"]["l"], 1 if c.is_("PartialEq::eq") else 0, bi))
        for si, st in enumerate(body.stmts(bi)):
            if st["k"] == "assign" and st["rv"]["k"] == "bin" and st["rv"]["op"] in ("Eq", "Ne") and not st["place"]["p"]:
                l, r = prov.of_operand(st["rv"]["a"][0]), prov.of_operand(st["rv"]["a"][1])
                if pred(l, r) or pred(r, l):
                    out.append((bi, si + 1, st["place"]["l"], 1 if st["rv"]["op"] == "Eq" else 0, bi))
    return out


def feasible_after(body, site, equal):
    """Blocks that can still execute after the comparison `site` (from comparison_sites) came out equal
    (`equal=True`) or unequal: three-valued propagation of the result through bool locals, `!`, `&`, `|`, moves and
    bool switches - so `if a != b { return }`, `let skip = a != b || ..; if skip { return }` and a helper returning
    that bool (inlined) are all the same to a rule."""
    sb, ssi, res, eqv, _ = site
    flow = BoolFlow(body, sb, ssi, {res: eqv if equal else 1 - eqv})
    return set(flow.in_state.keys()) | ({sb} if ssi else set())


def feasible_after_outcome(body, call, ok):
    """Blocks that can still execute after the fallible `call` returned Ok/Some (`ok=True`) or Err/None: the variant is
    propagated through moves, `?` (Try::branch / from_residual), map_err / map, is_ok() and matches - also when the
    call sits in an inlined helper whose own `?` returns to a second `?` in the caller."""
    ty = body.local_ty(call.dest["l"]).strip()
    is_opt = ty.startswith(("std::option::Option<", "core::option::Option<"))
    v = (("V", "Some", 1) if ok else ("V", "None", 0)) if is_opt else (("V", "Ok", 0) if ok else ("V", "Err", 1))
    if call.target is None or call.dest["p"]:
        return set(body.live_blocks())
    flow = BoolFlow(body, call.target, 0, {call.dest["l"]: v})
    return set(flow.in_state.keys())


def feasible_from_entry(body, avoid=()):
    """Blocks that can execute on some path from the entry that never enters a block of `avoid`, with the same
    three-valued / variant propagation (a `?` failure is known to be `Err`, so `if r.is_ok()` after it is decided)."""
    flow = BoolFlow(body, 0, 0, {}, avoid=avoid)
    return set(flow.in_state.keys())


# ---------------------------------------------------------------------------------------------
# Expression trees: the *shape* of an arithmetic value (provenance roots alone cannot tell
# ((t + d) / p) * p from (t / p) * p + (d / p) * p).

ARITH_CALLS = {
    "wrapping_add": "Add", "wrapping_sub": "Sub", "wrapping_mul": "Mul",
    "saturating_add": "Add", "saturating_sub": "Sub", "saturating_mul": "Mul",
    "checked_add": "Add", "checked_sub": "Sub", "checked_mul": "Mul", "checked_div": "Div", "checked_rem": "Rem",
    "overflowing_add": "Add", "overflowing_sub": "Sub",
    "div_ceil": "DivCeil", "rem_euclid": "Rem", "div_euclid": "Div", "next_multiple_of": "NextMultipleOf",
}
_WITH_OVERFLOW = {"AddWithOverflow": "Add", "SubWithOverflow": "Sub", "MulWithOverflow": "Mul"}
_ARITH_BIN = {"Add", "Sub", "Mul", "Div", "Rem", "Shl", "Shr", "BitAnd", "BitOr", "BitXor", "AddUnchecked", "SubUnchecked", "MulUnchecked"}


def expr_tree(body, op, prov=None, depth=12):
    """Nested tuples (op, lhs, rhs) for arithmetic, ("leaf", frozenset(roots)) otherwise.  Copies, casts,
    `?`/From conversions and the `.0` of checked arithmetic are looked through; a local with several
    reaching definitions is a leaf (its roots are the union)."""
    from .core import Prov
    prov = prov or Prov(body)

    def leaf(o):
        return ("leaf", frozenset(prov.of_operand(o)))

    def go(o, dep):
        c = const_int(o)
        if c is not None:
            return ("const", c)
        pl = op_place(o)
        if pl is None or dep <= 0:
            return leaf(o)
        l = pl["l"]
        proj = pl["p"]
        defs = body.defs().get(l, [])
        if len(defs) != 1:
            return leaf(o)
        bi, si, kind, payload = defs[0]
        if kind == "call":
            c = payload
            nm = (c.decl_s or "").split("::")[-1]
            if nm in ARITH_CALLS and len(c.args) >= 2:
                return (ARITH_CALLS[nm], go(c.args[0], dep - 1), go(c.args[1], dep - 1))
            if nm in ("from", "into", "try_from", "try_into", "branch", "unwrap", "unwrap_or_default", "get", "as_nanos", "clone") and c.args:
                return go(c.args[0], dep - 1)
            return leaf(o)
        if kind != "assign":
            return leaf(o)
        rv = payload["rv"]
        k = rv["k"]
        if k == "bin":
            opn = rv["op"]
            if opn in _WITH_OVERFLOW:
                # only meaningful through the `.0` projection
                if proj and isinstance(proj[0], dict) and proj[0].get("f") == 0:
                    return (_WITH_OVERFLOW[opn], go(rv["a"][0], dep - 1), go(rv["a"][1], dep - 1))
                return leaf(o)
            if opn in _ARITH_BIN and not proj:
                return (opn.replace("Unchecked", ""), go(rv["a"][0], dep - 1), go(rv["a"][1], dep - 1))
            return leaf(o)
        if k in ("use", "cast") and rv.get("a"):
            src = rv["a"][0]
            sp = op_place(src)
            if sp is not None and proj:
                # carry our projection over to the source place
                src = {"copy": {"l": sp["l"], "p": list(sp["p"]) + list(proj)}}
            elif sp is not None and sp["p"]:
                # e.g. (_x as Continue).0 or a tuple field: look through enum-payload / field-0 projections of temporaries
                base = {"copy": {"l": sp["l"], "p": []}}
                inner = go(base, dep - 1) if all(isinstance(x, dict) and ("dc" in x or x.get("f") == 0 or x.get("k") == "tuple") for x in sp["p"]) else None
                if inner is not None and inner[0] != "leaf":
                    return inner
                if sp["p"] and isinstance(sp["p"][0], dict) and sp["p"][0].get("f") == 0:
                    return go(src, dep - 1) if False else _through_overflow(src, dep)
                return leaf(o)
            return go(src, dep - 1)
        return leaf(o)

    def _through_overflow(src, dep):
        sp = op_place(src)
        defs = body.defs().get(sp["l"], [])
        if len(defs) == 1 and defs[0][2] == "assign" and defs[0][3]["rv"]["k"] == "bin" and defs[0][3]["rv"]["op"] in _WITH_OVERFLOW:
            rv = defs[0][3]["rv"]
            return (_WITH_OVERFLOW[rv["op"]], go(rv["a"][0], dep - 1), go(rv["a"][1], dep - 1))
        return leaf(src)

    return go(op, depth)


def tree_str(t):
    if t[0] == "leaf":
        names = sorted({str(r[-1]) if r[0] in ("arg", "upvar", "field") else (r[1].split("::")[-1] if r[0] in ("call", "await", "via") and isinstance(r[1], str) else r[0]) for r in t[1]})
        return "{" + ",".join(names[:4]) + "}"
    if t[0] == "const":
        return str(t[1])
    return "%s(%s, %s)" % (t[0], tree_str(t[1]), tree_str(t[2]))


def tree_ops(t):
    """Multiset (list) of operator names in the tree."""
    if t[0] in ("leaf", "const"):
        return []
    return [t[0]] + tree_ops(t[1]) + tree_ops(t[2])


# ---------------------------------------------------------------------------------------------
# decision tables: concrete interpretation of a small pure function over the bool fields of `self`


def enum_table(body, prog, adt_name, limit=400):
    """Evaluate a small pure method of an enum for each variant of `*self` (payload field 0 = the symbol "n"):
    -> {variant: int | "n" | variant name} or None when the body leaves the interpretable fragment."""
    adt = prog.adt(adt_name)
    out = {}
    for i, v in enumerate(adt["variants"]):
        r = decision_table(body, [], limit=limit, self_value=("variant", adt_name, v["name"], ["n"], v.get("discr", i)))
        if r is None:
            return None
        out[v["name"]] = r[()]
    return out


def decision_table(body, fields, limit=400, self_value=None):
    """Evaluate `body` (a method of a struct whose result depends only on the bool fields `fields` of `*self`) for
    every assignment of those fields.  -> {tuple(bools in the order of `fields`): variant name | int | bool} or None
    if some path leaves the interpretable fragment (calls, loops, unknown places).  Understands moves, `!`, tuples,
    enum/struct literals, discriminant reads, ==/!=/&/| on bools, SwitchInt."""
    import itertools

    UNK = object()

    def run(assign):
        env = {}

        def val_place(pl):
            l = pl["l"]
            v = (self_value if self_value is not None else ("self",)) if l == 1 else env.get(l, UNK)
            for p in pl["p"]:
                if p == "*":
                    continue
                if isinstance(p, dict) and "n" in p and v == ("self",):
                    if p["n"] in assign:
                        v = assign[p["n"]]
                    else:
                        return UNK
                elif isinstance(p, dict) and "f" in p and isinstance(v, tuple) and v and v[0] == "tuple":
                    v = v[1][p["f"]] if p["f"] < len(v[1]) else UNK
                elif isinstance(p, dict) and "dc" in p:
                    continue
                elif isinstance(p, dict) and "f" in p and isinstance(v, tuple) and v and v[0] == "variant":
                    v = v[3][p["f"]] if p["f"] < len(v[3]) else UNK
                else:
                    return UNK
                if v is UNK:
                    return UNK
            return v

        def val(op):
            c = op.get("const")
            if c is not None:
                if "variant" in c:
                    return ("variant", c.get("ty"), c["variant"], [], c.get("v"))
                if isinstance(c.get("v"), (int, bool)):
                    return c["v"]
                if "def" in c and isinstance(c.get("v"), int):
                    return c["v"]
                return UNK
            pl = op_place(op)
            return val_place(pl) if pl is not None else UNK

        bb = 0
        for _ in range(limit):
            blk = body.blocks[bb]
            for s in blk["stmts"]:
                if s["k"] != "assign":
                    continue
                rv = s["rv"]
                k = rv["k"]
                if k in ("use", "cast"):
                    v = val(rv["a"][0])
                elif k == "un" and rv["op"] == "Not":
                    x = val(rv["a"][0])
                    v = UNK if x is UNK else (not x if isinstance(x, bool) else (1 - x if x in (0, 1) else UNK))
                elif k == "agg":
                    items = [val(a) for a in rv["a"]]
                    if rv["ak"] == "tuple":
                        v = ("tuple", items)
                    elif rv["ak"] == "adt":
                        v = ("variant", rv["adt"], rv["variant"], items, rv.get("vi"))
                    else:
                        v = UNK
                elif k == "discr":
                    x = val_place(rv["place"])
                    v = x[4] if isinstance(x, tuple) and x and x[0] == "variant" and x[4] is not None else UNK
                elif k in ("ref", "rawptr"):
                    v = val_place(rv["place"])
                elif k == "bin":
                    x, y = val(rv["a"][0]), val(rv["a"][1])
                    if x is UNK or y is UNK or isinstance(x, tuple) or isinstance(y, tuple):
                        v = UNK
                    else:
                        o = rv["op"]
                        v = {"Eq": int(x) == int(y), "Ne": int(x) != int(y), "BitAnd": int(x) & int(y), "BitOr": int(x) | int(y), "BitXor": int(x) ^ int(y)}.get(o, UNK)
                else:
                    v = UNK
                dst = s["place"]
                if not dst["p"]:
                    env[dst["l"]] = v
                elif len(dst["p"]) == 1 and isinstance(dst["p"][0], dict) and "f" in dst["p"][0] and isinstance(env.get(dst["l"]), tuple) and env[dst["l"]][0] == "tuple":
                    env[dst["l"]][1][dst["p"][0]["f"]] = v
                else:
                    return UNK
            t = blk["term"]
            if t["k"] == "goto":
                bb = t["t"]
            elif t["k"] == "switch":
                d = val(t["d"])
                if d is UNK or isinstance(d, tuple):
                    return UNK
                d = int(d)
                nxt = t["otherwise"]
                for v_, tgt in t["arms"]:
                    if v_ == d:
                        nxt = tgt
                bb = nxt
            elif t["k"] == "return":
                r = env.get(0, UNK)
                if isinstance(r, tuple) and r and r[0] == "variant":
                    return r[2]
                return r
            elif t["k"] == "drop":
                bb = t["t"]
            else:
                return UNK
        return UNK

    table = {}
    for combo in itertools.product([False, True], repeat=len(fields)):
        r = run(dict(zip(fields, combo)))
        if r is UNK or isinstance(r, tuple):
            return None
        table[combo] = r
    return table
