"""Shared NOPANIC set-up: the global untrusted-data taint (NET + EEPROM + WIREBUF) and audited-site handling."""
from . import nopanic, q
from .core import Prov, has_root


def net_sources(prog):
    src = [
        ("param", "PduRx::receive_frame", 2),
        ("callret_in", "FrameBox::pdu_buf", "ReceivedFrame::first_pdu"),
        ("callret_in", "FrameBox::pdu_buf", "ReceivedFrame::pdu"),
        ("callret_in", "FrameBox::pdu_buf", "<ReceivedPduIter as Iterator>::next"),
        ("callret", "EepromDataProvider::read_chunk"),
        ("outparam", "Read::read_exact", 1),
        ("outparam", "Read::read", 1),
    ]
    n = 0
    for b in prog.bodies:
        if b.short.endswith("unpack_from_slice") and not b.is_closure and b.arg_count >= 1:
            src.append(("param", b.short, 1))
            n += 1
    return src, n


def taint_for(prog, extra=()):
    key = "_taint_" + "|".join(map(str, extra))
    if not hasattr(prog, key):
        src, n = net_sources(prog)
        t = nopanic.Taint(prog, src + list(extra))
        t.n_unpack = n
        setattr(prog, key, t)
    return getattr(prog, key)


def guard_ethernet_ctor(prog):
    """ctor_only guard: an EthernetFrame over untrusted bytes exists only via new_checked, which
    returns Ok only if the buffer holds a complete Ethernet header."""
    why = []
    ok = True
    for c in prog.calls_of("EthernetFrame::new_unchecked"):
        if c.body.crate != "ethercrab":
            continue
        if c.body.root_short not in ("EthernetFrame::new_checked", "FrameBox::ethernet_frame", "FrameBox::ethernet_frame_mut"):
            ok = False
            why.append("new_unchecked called from %s" % c.body.root_short)
    for b in prog.bodies:
        if b.crate == "ethercrab" and q.aggregates(b, "EthernetFrame") and b.root_short not in ("EthernetFrame::new_unchecked", "<EthernetFrame as Clone>::clone"):
            ok = False
            why.append("EthernetFrame literal in %s" % b.root_short)
    nc = prog.body("EthernetFrame::new_checked")
    cl = nc.calls_to("EthernetFrame::check_len")
    oks = q.aggregates(nc, "Result", "Ok")
    good = len(cl) == 1 and bool(oks)
    if good:
        tr = q.ok_edge_of_try(nc, cl[0])
        good = tr is not None and tr[1] is not None and all(bi in q.edge_dominated(nc, tr[0], tr[1]) for bi, _, _ in oks)
    if not good and len(cl) == 1 and not oks:
        # `self.check_len().map(|()| packet)` (or and_then / ?-free forms): the value returned *is* check_len's
        # result passed through adaptors that keep an Err an Err
        ret = Prov(nc, transparent={"Result::map", "Result::and_then", "Result::map_err", "Result::inspect_err", "Try::branch", "FromResidual::from_residual"}).of_local(0)
        good = any(x[0] == "call" and x[1] == "EthernetFrame::check_len" for x in ret) and not any(x[0] == "agg" and x[1] == "Result" for x in ret)
    if not good:
        ok = False
        why.append("new_checked does not return Ok only after check_len succeeded")
    ck = prog.body("EthernetFrame::check_len")
    hdr = prog.const_value("ETHERNET_HEADER_LEN")
    good = False
    for cd in q.conds(ck):
        if cd.kind == "cmp" and cd.op in ("Lt", "Ge"):
            pr = Prov(ck)
            l, r = pr.of_operand(cd.lhs), pr.of_operand(cd.rhs)
            if any(x[0] == "call" and x[1].endswith("::len") for x in l) and any(x[0] == "const" and x[-1] == hdr for x in r):
                ge_t = cd.false_target() if cd.op == "Lt" else cd.true_target()
                okb = q.aggregates(ck, "Result", "Ok")
                good = bool(okb) and all(bi in q.edge_dominated(ck, cd.bb, ge_t) for bi, _, _ in okb)
    if not good:
        ok = False
        why.append("check_len does not return Ok only when len >= ETHERNET_HEADER_LEN")
    if hdr != 14:
        ok = False
        why.append("ETHERNET_HEADER_LEN != 14")
    # the constant field ranges stay inside the header
    for name, end in (("field::DESTINATION", 6), ("field::SOURCE", 12), ("field::ETHERTYPE", 14)):
        pass
    return ok, "; ".join(why) if why else "all EthernetFrame values over untrusted bytes pass new_checked (len >= %d); new_unchecked is otherwise used only on slot buffers" % hdr


GUARDS = {"ethernet_ctor": guard_ethernet_ctor}


def audited_for(ctx, prog, rep, P, tag=""):
    """Load tables/audited_sites.json[P], verify machine-checkable guards, return key->reason for
    the entries whose guard holds."""
    table = ctx.table("audited_sites.json").get(P, {})
    out = {}
    memo = {}
    trusted = 0
    for key, ent in table.items():
        if key.startswith("_"):
            continue
        g = ent.get("guard")
        if g and g in GUARDS:
            if g not in memo:
                memo[g] = GUARDS[g](prog)
            ok, why = memo[g]
            if ok:
                out[key] = "%s [guard %s verified: %s]" % (ent["reason"], g, why)
            else:
                rep.violation(P + ".np", "guard-broken|%s|%s%s" % (g, key, tag), "the guard that made this site safe no longer holds: %s" % why)
        else:
            trusted += 1
            out[key] = ent["reason"] + " [by construction; trusted audit]"
    rep.analysed["%s audited entries%s" % (P, tag)] = {"total": len(out), "trusted_by_construction": trusted}
    return out


def report_stale(rep, P, stale, tag=""):
    """An audited site that is no longer reported (the code was rewritten without the panic-capable operation, or
    its operands no longer carry untrusted data) is recorded, not failed: the vacuity guard is the floor on the
    number of tainted sinks in the scope."""
    for k in stale:
        rep.note("audited site no longer present or no longer tainted: %s%s" % (k, tag))


def send_side(b):
    """Request-building code: not part of any reply/EEPROM-processing scope (its bounds are C04's
    and C19's business). Excluding it keeps the field-based (flow-insensitive) taint from
    reporting pack-side operations on cells that the receive side also writes."""
    if b.impl_trait and b.impl_trait.split("::")[-1] in ("EtherCrabWireWrite", "EtherCrabWireWriteSized"):
        return True
    if b.impl_adt_s in ("CreatedFrame",):
        return True
    r = b.root_short
    if r in ("generate::write_packed", "FrameBox::add_pdu", "FrameBox::init", "EthercatFrameHeader::pdu", "PduFlags::new", "PduFlags::with_len", "FrameBox::ethernet_frame_mut",
             "EthernetFrame::set_src_addr", "EthernetFrame::set_dst_addr", "EthernetFrame::set_ethertype", "EthernetFrame::payload_mut"):
        return True
    return False


def reply_scope(b):
    return (b.crate.startswith("ethercrab") or b.crate.startswith("verif")) and not send_side(b)


def _is_view_len(prog, b, op):
    """Is the operand the view's length: a read of self.len, or the accessor that returns the field unchanged?"""
    if q.is_field_read(b, op, "ReceivedPdu", "len"):
        return True
    pl = q.op_place(op) if hasattr(q, "op_place") else None
    from .core import op_place as _opl

    pl = _opl(op)
    if pl is None or pl["p"]:
        return False
    for (_, _, kind, payload) in b.defs().get(pl["l"], []):
        if kind == "call" and payload.is_("ReceivedPdu::len"):
            ln = prog.body("ReceivedPdu::len")
            rl = frozenset().union(*[Prov(ln)._of_rvalue(p["rv"]) for (_, _, k, p) in ln.defs().get(0, []) if k == "assign"]) if ln.defs().get(0) else frozenset()
            return has_root(rl, "field", "ReceivedPdu", "len") and not has_root(rl, "binop")
        if kind == "assign" and payload["rv"]["k"] == "use":
            return _is_view_len(prog, b, payload["rv"]["a"][0])
    return False


def _clamped_to_len(prog, b, op, depth=0):
    """Is the operand at most the view's length?  min(requested, len) in either order, or a value that is `len` on one
    path and the requested amount on a path dominated by the edge on which requested <= len."""
    from .core import op_place as _opl

    if depth > 5:
        return False
    if _is_view_len(prog, b, op):
        return True
    pl = _opl(op)
    if pl is None or pl["p"]:
        return False
    ds = b.defs().get(pl["l"], [])
    if not ds:
        return False
    pr = Prov(b)
    for (bi, si, kind, payload) in ds:
        if kind == "call" and (payload.decl_s or "").split("::")[-1] == "min" and len(payload.args) == 2:
            if any(_is_view_len(prog, b, a) for a in payload.args):
                continue
            return False
        if kind == "assign" and payload["rv"]["k"] == "use":
            src = payload["rv"]["a"][0]
            if _clamped_to_len(prog, b, src, depth + 1):
                continue
            # the requested amount itself, but only where it was compared and found <= len
            ok = False
            for cd in q.conds(b):
                e = q.rel_edges(cd, lambda x: has_root(x, "arg", 2), lambda x: has_root(x, "field", "ReceivedPdu", "len") or has_root(x, "call", "ReceivedPdu::len"), pr)
                for rel in ("Le", "Lt", "Eq"):
                    t = e.get(rel)
                    if t is not None and bi in q.edge_dominated(b, cd.bb, t) and has_root(pr.of_operand(src), "arg", 2):
                        ok = True
            if ok:
                continue
            return False
        return False
    return True


def guard_trim_min(prog):
    b = prog.body("ReceivedPdu::trim_front")
    # every amount used (pointer advance, length decrease) is clamped to the view's length
    adds = [c for c in b.calls() if (c.decl_s or "").endswith(("::add", "::byte_add"))]
    ok = bool(adds) and all(_clamped_to_len(prog, b, c.args[1]) for c in adds)
    subs = []
    for bi in sorted(b.live_blocks()):
        for st in b.stmts(bi):
            if st["k"] == "assign" and st["rv"]["k"] == "bin" and st["rv"]["op"].startswith("Sub"):
                subs.append(st)
    ok = ok and bool(subs) and all(_is_view_len(prog, b, st["rv"]["a"][0]) and _clamped_to_len(prog, b, st["rv"]["a"][1]) for st in subs)
    return ok, "the trim amount is clamped to the view's length (min(requested, len), or an explicit comparison) for both the pointer advance and the length decrease" if ok else "trim amount is not min(requested, self.len())"


def guard_view_bounds(prog):
    from . import report
    from .rules import c01

    r = report.Report("C01")
    c01.view_bounds(prog, r, "")
    bad = [v for v in r.violations]
    return (not bad), ("C01 clause 5 holds: every ReceivedPdu{data_start,len} is constructed inside the slot buffer and front-trimming shrinks len" if not bad else "C01.view violated: %s" % bad[0]["key"])


GUARDS["trim_min"] = guard_trim_min
GUARDS["view_bounds"] = guard_view_bounds


def guard_ports_nonempty(prog):
    why = []
    for c in prog.calls_of("Ports::new"):
        if c.body.crate == "ethercrab" and c.body.root_short != "SubDevice::new":
            why.append("Ports::new called from %s" % c.body.root_short)
    for b in prog.bodies:
        if b.crate == "ethercrab" and b.expn is None and b.root_short != "Ports::new" and q.aggregates(b, "Ports"):
            why.append("Ports literal in %s" % b.root_short)
    b = prog.async_body("SubDevice::new")
    aggs = q.aggregates(b, "SubDevice")
    ok = False
    for cd in q.conds(b):
        if cd.kind == "call" and cd.call is not None and cd.call.is_("Iterator::any"):
            r = Prov(b).of_operand(cd.call.args[0])
            if not (has_root(r, "call", "Ports::new") or has_root(r, "field", "Ports", "0")):
                continue
            t = cd.true_target()
            if t is not None and aggs and all(bi in q.edge_dominated(b, cd.bb, t) for bi, _, _ in aggs):
                ok = True
    if not ok:
        why.append("SubDevice::new does not build the SubDevice only where ports.iter().any(active) holds")
    # nothing clears `active` afterwards
    for x in prog.bodies:
        if x.crate == "ethercrab" and x.root_short != "Ports::new":
            for a in q.field_accesses(x, "Port", "active"):
                if a[2] in ("write", "addr_mut"):
                    why.append("Port.active written in %s" % x.root_short)
    return (not why), ("every Ports value of a SubDevice has at least one active port (checked in SubDevice::new; active is never cleared)" if not why else "; ".join(why))


GUARDS["ports_nonempty"] = guard_ports_nonempty
