"""python3 -m sa.dump <short-or-path> [config]: pretty print the extracted MIR of a body group."""
import sys

from . import context
from .core import op_const, op_place, short


def pl(p):
    s = "_%d" % p["l"]
    for x in p["p"]:
        if x == "*":
            s = "(*%s)" % s
        elif isinstance(x, str):
            s += "." + x
        elif "n" in x:
            s += "." + x["n"]
        elif "f" in x:
            s += ".%d" % x["f"]
        elif "dc" in x:
            s = "(%s as %s)" % (s, x["dc"])
        elif "idx" in x:
            s += "[_%d]" % x["idx"]
        elif "cidx" in x:
            s += "[%d]" % x["cidx"]
        else:
            s += "[..]"
    return s


def op(o):
    p = op_place(o)
    if p is not None:
        return ("move " if "move" in o else "") + pl(p)
    c = op_const(o)
    if c is None:
        return "?"
    if "fn" in c:
        return "fn:" + short(c["fn"])
    if "def" in c:
        return "const:%s=%s" % (short(c["def"]), c.get("v"))
    if "variant" in c:
        return "const:%s::%s" % (c["ty"], c["variant"])
    if "v" in c:
        return "%s_%s" % (c["v"], c["ty"])
    if "str" in c:
        return repr(c["str"])
    return "const<%s>" % c["ty"]


def rv(r):
    k = r["k"]
    if k == "use":
        return op(r["a"][0])
    if k == "bin":
        return "%s(%s, %s)" % (r["op"], op(r["a"][0]), op(r["a"][1]))
    if k == "un":
        return "%s(%s)" % (r["op"], op(r["a"][0]))
    if k == "cast":
        return "%s as %s [%s]" % (op(r["a"][0]), r["to"], r["ck"])
    if k in ("ref", "rawptr"):
        return "&%s%s %s" % ("raw " if k == "rawptr" else "", r["m"], pl(r["place"]))
    if k == "discr":
        return "discr(%s)" % pl(r["place"])
    if k == "agg":
        if r["ak"] == "adt":
            return "%s::%s{%s}" % (short(r["adt"]), r["variant"], ", ".join("%s: %s" % (f, op(a)) for f, a in zip(r["fields"], r["a"])))
        return "%s(%s)[%s]" % (r["ak"], short(r.get("def")) if r.get("def") else "", ", ".join(op(a) for a in r["a"]))
    if k == "repeat":
        return "[%s; %s]" % (op(r["a"][0]), r["n"])
    return str(r)[:100]


def dump(b):
    print("=== %s  (%s) kind=%s args=%d %s" % (b.path, b.short, b.kind, b.arg_count, b.span))
    for i, l in enumerate(b.locals):
        n = b.names.get(i)
        print("   _%d: %s%s" % (i, l["ty"], "  // " + n if n else ""))
    if b.upvar_names:
        print("   upvars:", b.upvar_names)
    live = b.live_blocks()
    for bi, blk in enumerate(b.blocks):
        if blk.get("cleanup") or bi not in live:
            continue
        print(" bb%d:" % bi)
        for s in blk["stmts"]:
            if s["k"] == "assign":
                print("    %s = %s" % (pl(s["place"]), rv(s["rv"])))
            elif s["k"] == "dead":
                pass
            else:
                print("    %s" % s)
        t = blk["term"]
        k = t["k"]
        if k == "call":
            nm = short(t.get("res") or t.get("callee")) if "callee" in t else "<indirect %s>" % op(t["indirect"])
            print("    %s = %s(%s) -> bb%s   [%s]%s" % (pl(t["dest"]), nm, ", ".join(op(a) for a in t["args"]), t.get("t"), short(t.get("callee")) if t.get("res") else "", " @" + t["sp"].split("/")[-1]))
        elif k == "switch":
            print("    switch %s : %s -> %s otherwise bb%d" % (op(t["d"]), t["dty"], ["%s:bb%d" % (a[0], a[1]) for a in t["arms"]], t["otherwise"]))
        elif k == "goto":
            print("    goto bb%d" % t["t"])
        elif k == "drop":
            print("    drop %s : %s -> bb%d" % (pl(t["place"]), t["ty"], t["t"]))
        elif k == "assert":
            print("    assert %s == %s [%s](%s) -> bb%d" % (op(t["cond"]), t["expected"], t["ak"], ", ".join(op(a) for a in t["ops"]), t["t"]))
        elif k == "yield":
            print("    yield -> bb%d" % t["t"])
        else:
            print("    %s" % k)


if __name__ == "__main__":
    ctx = context.Ctx()
    p = ctx.prog(sys.argv[2] if len(sys.argv) > 2 else "default")
    name = sys.argv[1]
    try:
        g = p.group(name)
    except Exception:
        g = [b for b in p.bodies if name in b.path]
    for b in g:
        dump(b)
