"""ERRDROP engine - error discipline: no `Result` is silently dropped or defaulted away.

For every non-test body in scope, every local of type `Result<T, E>` must be *looked at*: matched /
switched on, passed to `?` (`Try::branch`), returned, stored, or handed to another function.  Two
shapes are reported as a *discard*:

  unused          the Result (the return value of a call, or the `Ready` payload of an awaited future)
                  is never read on any path (`let _ = f();`, `f();`, `let _ = f().await;`) - also when it
                  is first moved through plain `_x = move _y` copies;
  adaptor:<name>  the Result is fed to an adaptor that forgets the error or replaces the failure by a
                  default (`ok`, `unwrap_or*`, `map_or*`, `or`, `or_else`, `err`, `iter`); `is_ok()` / `is_err()` count as looking at the value when their
                  bool is used (a branch on it handles both outcomes) and as a discard when it is not.

Every discard on today's tree is listed, with a reason, in tables/error_discards.json, keyed by
(function group, shape, producer of the value) plus a count - never by line or local name.  A discard that
is not in the table (or more instances of a listed one) is reported as an unaudited instance for the
property in whose scope the function lies: silently dropping the error of a slot state change, a device
access or a capacity check is exactly how "fails with an error" clauses get broken while every test that
exercises the happy path still passes.
"""
from collections import Counter

from .core import Prov, op_place, short, norm

SWALLOW = {
    "Result::unwrap_or", "Result::unwrap_or_default", "Result::unwrap_or_else",
    "Result::map_or", "Result::map_or_else", "Result::or", "Result::or_else",
    "Result::iter", "Result::into_iter", "Result::unwrap_or_unchecked",
    "mem::drop", "mem::forget",
}
# outcome tests: the Result is looked at iff the bool they return is used (a branch on `x.is_ok()` handles both
# outcomes like a `match` does; `let _ = x.is_ok();` does not)
# (`.ok()` / `.err()` keep the failure as `None`: a conversion, not a discard - unless the Option is then left unread)
TESTS = {"Result::is_ok", "Result::is_err", "Result::is_ok_and", "Result::is_err_and", "Result::ok", "Result::err"}


def _strip(ty):
    t = ty.strip()
    while t.startswith("&"):
        t = t[1:].lstrip()
        if t.startswith("mut "):
            t = t[4:]
        if t.startswith("'"):
            t = t.split(" ", 1)[1] if " " in t else t
    return t


def result_err_type(ty):
    """`std::result::Result<T, E>` -> E (string) or None when `ty` is no Result."""
    t = _strip(ty)
    for pre in ("std::result::Result<", "core::result::Result<"):
        if t.startswith(pre) and t.endswith(">"):
            inner = t[len(pre):-1]
            d = 0
            for i, c in enumerate(inner):
                if c in "<([":
                    d += 1
                elif c in ">)]" and not (c == ">" and i > 0 and inner[i - 1] == "-"):
                    d -= 1
                elif c == "," and d == 0:
                    return inner[i + 1:].strip()
            return None
    return None


def _uses(b):
    """local -> list of uses (kind, bb, payload); kinds: move (whole-local copy/move into `dst`), read, ref(dst),
    call(Call, argidx), switch, ret."""
    u = {}

    def add(l, x):
        u.setdefault(l, []).append(x)

    calls = {c.bb: c for c in b.calls()}
    for bi, blk in enumerate(b.blocks):
        if blk.get("cleanup"):
            continue
        for si, s in enumerate(blk["stmts"]):
            if s["k"] != "assign":
                continue
            rv = s["rv"]
            dst = s["place"]
            for a in rv.get("a", []):
                pl = op_place(a)
                if not pl:
                    continue
                if rv["k"] == "use" and not pl["p"] and not dst["p"]:
                    add(pl["l"], ("move", bi, dst["l"]))
                else:
                    add(pl["l"], ("read", bi, rv["k"]))
            if rv.get("place") is not None:
                pl = rv["place"]
                if rv["k"] in ("ref", "rawptr") and not pl["p"] and not dst["p"]:
                    add(pl["l"], ("ref", bi, dst["l"]))
                else:
                    add(pl["l"], ("read", bi, rv["k"]))
            if dst["p"]:
                # a write through a projection of the local is not a read of it
                pass
        t = blk["term"]
        if t["k"] == "call" and bi in calls:
            c = calls[bi]
            for i, a in enumerate(c.args):
                pl = op_place(a)
                if pl:
                    if pl["p"]:
                        add(pl["l"], ("read", bi, "callarg"))
                    else:
                        add(pl["l"], ("call", bi, (c, i)))
        elif t["k"] == "call":
            for a in t["args"]:
                pl = op_place(a)
                if pl:
                    add(pl["l"], ("read", bi, "callarg"))
        elif t["k"] == "switch":
            pl = op_place(t["d"])
            if pl:
                add(pl["l"], ("read", bi, "switch"))
        elif t["k"] == "yield":
            v = t.get("value") or t.get("v")
            pl = op_place(v) if isinstance(v, dict) else None
            if pl:
                add(pl["l"], ("read", bi, "yield"))
    add(0, ("ret", None, None))
    return u


def _producer(b, pr, l):
    names = set()
    for r in pr.of_local(l):
        if r[0] in ("call", "await", "cut"):
            names.add(("await:" if r[0] == "await" else "") + str(r[1]))
    if not names:
        for d in b.defs().get(l, []):
            if d[2] == "call":
                names.add(d[3].name)
    if not names:
        return "?"
    return ",".join(sorted(names))


def discards(prog, bodies):
    """-> list of dicts {key, func, kind, producer, err, loc}"""
    out = []
    for b in bodies:
        if b.d.get("is_test"):
            continue
        res_locals = [l for l in range(1, len(b.locals)) if result_err_type(b.locals[l]["ty"]) is not None and not b.locals[l]["ty"].lstrip().startswith("&")]
        if not res_locals:
            continue
        uses = _uses(b)
        pr = Prov(b)
        defs = b.defs()
        reported = set()

        def first_loc(l):
            ds = defs.get(l, [])
            return b.loc(ds[0][0], ds[0][1]) if ds else b.span

        def classify(l, seen):
            """-> list of (kind, loc) discards for the value held in l; [] if it is looked at."""
            if l in seen:
                return []
            seen = seen | {l}
            us = uses.get(l, [])
            if not us:
                return [("unused", first_loc(l))]
            found = []
            looked = False
            for kind, bi, pay in us:
                if kind == "move":
                    if result_err_type(b.locals[pay]["ty"]) is not None and pay != 0:
                        sub = classify(pay, seen)
                        if sub:
                            found += sub
                        else:
                            looked = True
                    else:
                        looked = True
                elif kind == "ref":
                    # &res handed to is_ok()/is_err() etc.
                    sub_us = uses.get(pay, [])
                    only_sw = bool(sub_us)
                    for k2, b2, p2 in sub_us:
                        if k2 == "call" and p2[1] == 0 and p2[0].decl_s in SWALLOW:
                            found.append(("adaptor:" + p2[0].decl_s, p2[0].span))
                        elif k2 == "call" and p2[1] == 0 and p2[0].decl_s in TESTS:
                            if uses.get(p2[0].dest["l"]):
                                only_sw = False
                            else:
                                found.append(("unused-test:" + p2[0].decl_s, p2[0].span))
                        else:
                            only_sw = False
                    if not only_sw:
                        looked = True
                elif kind == "call":
                    c, i = pay
                    if i == 0 and c.decl_s in SWALLOW:
                        found.append(("adaptor:" + c.decl_s, c.span))
                    elif i == 0 and c.decl_s in TESTS and not uses.get(c.dest["l"]):
                        found.append(("unused-test:" + c.decl_s, c.span))
                    else:
                        looked = True
                else:
                    looked = True
            if looked:
                # adaptor uses are still reported (they are sites where a failure is forgotten on that path)
                return [f for f in found if f[0].startswith("adaptor:") or f[0].startswith("unused-test:")]
            return found

        # only classify "source" locals: defined by a call or by an assignment that is not a plain move of another Result local
        for l in res_locals:
            ds = defs.get(l, [])
            if not ds:
                continue
            is_copy = all(d[2] == "assign" and d[3]["rv"]["k"] == "use" and op_place(d[3]["rv"]["a"][0]) is not None and not op_place(d[3]["rv"]["a"][0])["p"] and result_err_type(b.locals[op_place(d[3]["rv"]["a"][0])["l"]]["ty"]) is not None for d in ds)
            if is_copy:
                continue
            for kind, loc in classify(l, frozenset()):
                sig = (kind, loc)
                if sig in reported:
                    continue
                reported.add(sig)
                prod = _producer(b, pr, l)
                out.append({
                    "key": "%s|%s|%s" % (b.root_short, kind, prod),
                    "func": b.root_short, "kind": kind, "producer": prod,
                    "err": result_err_type(b.locals[l]["ty"]), "loc": loc, "file": b.file,
                })
    return out


def check(prog, rep, pid, in_scope, table, rule=None, err_filter=None, tag=""):
    """Report every discard in the bodies selected by `in_scope(body)` that the table does not list."""
    rule = rule or "%s.err" % pid
    bodies = [b for b in prog.bodies if b.crate in ("ethercrab", "ethercrab_wire") and in_scope(b)]
    ds = [d for d in discards(prog, bodies) if err_filter is None or err_filter(d["err"])]
    cnt = Counter(d["key"] for d in ds)
    ent = table.get("discards", {})
    for key in sorted(cnt):
        e = ent.get(key)
        locs = [d["loc"] for d in ds if d["key"] == key]
        allowed = e["count"] if e else 0
        ok = cnt[key] <= allowed
        rep.ob(rule, key + tag, ok, ("audited (%d of %d): %s" % (cnt[key], allowed, e["reason"])) if ok else
               "UNAUDITED discarded Result: %d instance(s) where tables/error_discards.json allows %d - the error of this call is dropped or defaulted away instead of being propagated or handled" % (cnt[key], allowed),
               loc=locs[0], how="inventory" if ok else "dataflow", nontrivial=not ok)
    rep.analysed["errdrop bodies" + tag] = len(bodies)
    rep.analysed["errdrop result-typed discards" + tag] = len(ds)
    return ds


# ------------------------------------------------------------------------------------------------
# scopes: which bodies belong to which property's error-discipline clause
# ------------------------------------------------------------------------------------------------

def _file(*prefixes):
    return lambda b: any(b.file.startswith(p) for p in prefixes)


def _groups(*names):
    s = set(names)
    return lambda b: b.root_short in s


def _any(*preds):
    return lambda b: any(p(b) for p in preds)


CRATE_ERR = lambda e: e is not None and (e.endswith("error::Error") or e == "Error" or e.endswith("::PduError") or e == "PduError")  # noqa: E731

SCOPES = {
    # slot state machine: a dropped CAS failure or claim failure is a lost or doubly owned slot
    "C02": (_file("src/pdu_loop/"), None),
    "C03": (_file("src/pdu_loop/"), None),
    "C05": (_file("src/pdu_loop/pdu_rx.rs", "src/ethernet.rs", "src/pdu_loop/frame_header.rs", "src/pdu_loop/pdu_header.rs"), None),
    "C06": (_file("src/pdu_loop/frame_element/receiving_frame.rs", "src/pdu_loop/frame_element/sendable_frame.rs", "src/pdu_loop/pdu_tx.rs", "src/timer_factory.rs"), None),
    "C07": (_groups("SubDeviceGroup::tx_rx", "SubDeviceGroup::tx_rx_sync_system_time", "SubDeviceGroup::tx_rx_dc", "SubDeviceGroup::process_received_pdi_chunk", "SubDeviceGroup::check_states"), None),
    "C08": (_any(_file("src/subdevice/configuration.rs", "src/subdevice/pdi.rs", "src/fmmu.rs", "src/sync_manager_channel.rs", "src/pdi.rs"),
                 _groups("SubDeviceGroup::configure_fmmus", "SubDeviceGroup::into_pre_op_pdi", "SubDeviceGroup::into_safe_op", "SubDeviceGroup::into_op", "SubDeviceGroup::into_pre_op")), None),
    "C09": (_any(_groups("MainDevice::init", "MainDevice::init_single_group", "MainDevice::count_subdevices", "MainDevice::reset_subdevices", "MainDevice::blank_memory", "SubDevice::new", "SubDevice::set_alias_address"),
                 _file("src/subdevice_group/handle.rs", "src/subdevice_group/group_id.rs")), None),
    "C10": (_groups("SubDeviceGroup::transition_to", "SubDeviceGroup::request_into_op", "SubDeviceGroup::wait_for_state", "SubDeviceGroup::is_state", "SubDeviceGroup::into_init", "SubDeviceGroup::into_pre_op",
                    "SubDeviceGroup::into_safe_op", "SubDeviceGroup::into_op", "SubDeviceGroup::into_pre_op_pdi", "SubDeviceGroup::into_boot", "SubDeviceGroup::all_op", "SubDeviceGroup::is_in_state", "SubDeviceGroup::group_in_single_state",
                    "SubDeviceRef::request_subdevice_state", "SubDeviceRef::request_subdevice_state_nowait", "SubDeviceRef::wait_for_state", "SubDeviceRef::state", "SubDeviceRef::status", "MainDevice::wait_for_state"), None),
    # every device access anywhere outside the frame machinery and the OS network drivers: the crate's own error type
    "C11": (lambda b: b.crate == "ethercrab" and not b.file.startswith("src/pdu_loop/") and not b.file.startswith("src/std/"), CRATE_ERR),
    "C12": (_file("src/eeprom/", "src/subdevice/eeprom.rs"), None),
    "C13": (_file("src/eeprom/", "src/subdevice/eeprom.rs"), None),
    "C14": (_any(_groups("SubDeviceRef::set_alias_address", "SubDeviceEeprom::set_station_alias", "EepromRange::write", "EepromRange::write_all"), _file("src/eeprom/device_provider.rs")), None),
    "C15": (_file("src/mailbox/", "src/coe/", "src/subdevice/mailbox.rs"), None),
    "C16": (_file("src/mailbox/", "src/coe/", "src/subdevice/mailbox.rs"), None),
    "C17": (_file("src/dc.rs", "src/subdevice/ports.rs"), None),
    "C18": (_any(_groups("SubDeviceGroup::configure_dc_sync", "SubDeviceGroup::tx_rx_dc"), _file("src/subdevice/dc.rs")), None),
    "C19": (lambda b: b.crate == "ethercrab_wire", None),
}


def check_property(ctx, rep, prog, pid, tag=""):
    scope, flt = SCOPES[pid]
    table = ctx.table("error_discards.json")
    ds = check(prog, rep, pid, scope, table, err_filter=flt, tag=tag)
    if not tag:
        rep.decided.append("error discipline: inside this property's functions no Result is left unread or defaulted away (`let _ =`, bare `f();`, `.ok()`, `.unwrap_or(..)`, `.is_ok()` ..) except the sites audited in tables/error_discards.json")
    return ds
