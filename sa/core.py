"""Program model over ecfacts output: path normalisation, bodies, CFG, dominators, call graph,
provenance (roots).  Stdlib only."""
import re
from collections import defaultdict, deque

# ----------------------------------------------------------------------------------------------
# path normalisation
# ----------------------------------------------------------------------------------------------

_LIFETIME = re.compile(r"'[A-Za-z_][A-Za-z0-9_]*\s*,?\s*")


def _match(s, i):
    """s[i] == '<': return index of matching '>' (ignoring '->')."""
    d = 0
    j = i
    n = len(s)
    while j < n:
        c = s[j]
        if c == "<":
            d += 1
        elif c == ">" and not (j > 0 and s[j - 1] == "-"):
            d -= 1
            if d == 0:
                return j
        j += 1
    return n - 1


def _has_as(inner):
    d = 0
    i = 0
    while i < len(inner):
        c = inner[i]
        if c in "<([":
            d += 1
        elif c in ">)]" and not (c == ">" and i > 0 and inner[i - 1] == "-"):
            d -= 1
        elif d == 0 and inner.startswith(" as ", i):
            return i
        i += 1
    return -1


def norm(s):
    """Strip generic arguments and lifetimes from a def path / type string.
    `a::B::<'x, T>::f` -> `a::B::f`; `k::<m::T<'a> as tr::Tr<U>>::f` -> `<m::T as tr::Tr>::f`."""
    if s is None:
        return None
    out = []
    i = 0
    n = len(s)
    while i < n:
        c = s[i]
        if c == "<":
            j = _match(s, i)
            inner = s[i + 1 : j]
            k = _has_as(inner)
            prev = s[i - 1] if i > 0 else ""
            qualified_pos = i == 0 or s[i - 2 : i] == "::" or prev in " (&[,"
            if k < 0 and qualified_pos and inner.startswith("impl ") and " for " in inner:
                # `<impl Trait for Type>` (impls on foreign types): same shape as `<Type as Trait>`
                tr, ty = inner[5:].split(" for ", 1)
                inner = "%s as %s" % (ty, tr)
                k = _has_as(inner)
            if k >= 0 and qualified_pos:
                a = norm(inner[:k])
                b = norm(inner[k + 4 :])
                # drop a leading `crate::` before a qualified segment
                while out and out[-1] == ":":
                    out.pop()
                # remove trailing crate name that precedes `::<X as Y>`
                m = re.search(r"[A-Za-z0-9_]+$", "".join(out))
                if m and "".join(out) == m.group(0):
                    out = []
                elif out:
                    out.append("::")
                out.append("<%s as %s>" % (a, b))
            elif qualified_pos and k < 0 and not (prev.isalnum() or prev == "_") and s[i - 2 : i] != "::":
                # `<[T]>::len` style
                out.append("<%s>" % norm(inner))
            else:
                # generic args: drop; also drop a preceding `::` (turbofish)
                if "".join(out[-2:]) == "::" or (out and out[-1].endswith("::")):
                    joined = "".join(out)
                    joined = joined[:-2]
                    out = [joined]
            i = j + 1
            continue
        out.append(c)
        i += 1
    r = "".join(out)
    r = _LIFETIME.sub("", r)
    r = r.replace("&mut ", "&mut ").strip()
    return r


def last_seg(p):
    p = p.strip()
    if p.startswith("<") or p.startswith("[") or p.startswith("&") or p.startswith("("):
        return p
    return p.split("::")[-1]


def short(p):
    """Short name used by rules: `Type::method`, `module::function`, `<Type as Trait>::method`,
    closures as `...::{closure#n}`."""
    if p is None:
        return None
    p = norm(p)
    m = re.search(r"(?:^|::)<(.+?) as (.+?)>::(.*)$", p)
    if m:
        return "<%s as %s>::%s" % (last_seg(m.group(1)), last_seg(m.group(2)), m.group(3))
    segs = p.split("::")
    tail = []
    while segs and (segs[-1].startswith("{") or segs[-1] == "_"):
        tail.insert(0, segs.pop())
    core = segs[-2:] if len(segs) >= 2 else segs
    return "::".join(core + tail)


def ty_short(t):
    """Type string with module paths and generics removed: used for type tests."""
    t = norm(t)
    return re.sub(r"([A-Za-z_][A-Za-z0-9_]*::)+", "", t)


# ----------------------------------------------------------------------------------------------
# operands / places helpers
# ----------------------------------------------------------------------------------------------


def op_place(op):
    return op.get("copy") or op.get("move")


def op_const(op):
    return op.get("const")


def place_key(pl):
    return (pl["l"], tuple(_proj_key(p) for p in pl["p"]))


def _proj_key(p):
    if isinstance(p, str):
        return p
    if "f" in p:
        return ("f", p["f"])
    if "dc" in p:
        return ("dc", p["dc"])
    if "idx" in p:
        return ("idx", p["idx"])
    if "cidx" in p:
        return ("cidx", p["cidx"])
    return ("sub",)


class Call:
    __slots__ = ("body", "bb", "t", "decl", "res", "decl_s", "res_s", "args", "dest", "target", "span", "expn", "self_adt", "indirect")

    def __init__(self, body, bb, t):
        self.body = body
        self.bb = bb
        self.t = t
        self.indirect = "callee" not in t
        self.decl = norm(t.get("callee")) if not self.indirect else None
        self.res = norm(t.get("res")) if t.get("res") else None
        self.decl_s = short(self.decl) if self.decl else None
        self.res_s = short(self.res) if self.res else None
        self.args = t["args"]
        self.dest = t["dest"]
        self.target = t.get("t")
        self.span = t.get("sp")
        self.expn = t.get("expn")
        self.self_adt = t.get("self_adt")

    @property
    def name(self):
        """Best name: resolved impl if known, else declared."""
        return self.res_s or self.decl_s or "<indirect>"

    @property
    def full(self):
        return self.res or self.decl

    def is_(self, *names):
        for n in names:
            if n == self.decl_s or n == self.res_s or n == self.decl or n == self.res:
                return True
        return False

    def __repr__(self):
        return "Call(%s @bb%d %s)" % (self.name, self.bb, self.span)


class Body:
    def __init__(self, prog, crate, d):
        self.prog = prog
        self.crate = crate
        self.d = d
        self.path = norm(d["path"])
        self.short = short(d["path"])
        self.root = norm(d["root"])
        self.root_short = short(d["root"])
        self.kind = d["kind"]
        self.is_closure = d["kind"] == "Closure"
        self.coroutine = d.get("coroutine", False)
        self.impl_adt = norm(d.get("impl_adt")) if d.get("impl_adt") else None
        self.impl_adt_s = last_seg(self.impl_adt) if self.impl_adt else None
        self.impl_trait = norm(d.get("impl_trait")) if d.get("impl_trait") else None
        self.span = d["span"]
        self.file = d["span"].rsplit(":", 2)[0]
        self.expn = d.get("expn")
        self.blocks = d["blocks"]
        self.locals = d["locals"]
        self.arg_count = d["arg_count"]
        self.nblocks = len(self.blocks)
        self._succ = None
        self._pred = None
        self._dom = None
        self._defs = None
        self._calls = None
        self.names = {}
        for e in d.get("dbg", []):
            pl = e["place"]
            if not pl["p"]:
                self.names.setdefault(pl["l"], e["n"])
        self.upvar_names = {}
        for e in d.get("dbg", []):
            pl = e["place"]
            ps = [p for p in pl["p"] if p != "*"]
            if pl["l"] == 1 and len(ps) == 1 and isinstance(ps[0], dict) and ps[0].get("k") == "upvar":
                self.upvar_names[ps[0]["f"]] = e["n"]

    # -- CFG ------------------------------------------------------------------------------
    def term(self, b):
        return self.blocks[b]["term"]

    def succ(self, b):
        if self._succ is None:
            self._build_cfg()
        return self._succ[b]

    def pred(self, b):
        if self._pred is None:
            self._build_cfg()
        return self._pred[b]

    def _term_succ(self, t):
        k = t["k"]
        if k == "goto":
            return [t["t"]]
        if k == "switch":
            s = [a[1] for a in t["arms"]]
            s.append(t["otherwise"])
            return s
        if k in ("call",):
            return [t["t"]] if t.get("t") is not None else []
        if k in ("drop", "assert"):
            return [t["t"]]
        if k == "yield":
            return [t["t"]]
        return []

    def _build_cfg(self):
        self._succ = []
        self._pred = [[] for _ in range(self.nblocks)]
        for i, b in enumerate(self.blocks):
            s = []
            for x in self._term_succ(b["term"]):
                if x not in s:
                    s.append(x)
            self._succ.append(s)
        for i, s in enumerate(self._succ):
            for x in s:
                self._pred[x].append(i)

    def reachable_from(self, start, avoid=()):
        """Blocks reachable from `start` (inclusive) without entering blocks in `avoid`."""
        avoid = set(avoid)
        seen = set()
        dq = deque([start] if start not in avoid else [])
        while dq:
            b = dq.popleft()
            if b in seen:
                continue
            seen.add(b)
            for s in self.succ(b):
                if s not in seen and s not in avoid:
                    dq.append(s)
        return seen

    def reachable_strict(self, start, avoid=()):
        """Blocks reachable from `start` by at least one edge."""
        avoid = set(avoid)
        seen = set()
        dq = deque(s for s in self.succ(start) if s not in avoid)
        while dq:
            b = dq.popleft()
            if b in seen:
                continue
            seen.add(b)
            for s in self.succ(b):
                if s not in seen and s not in avoid:
                    dq.append(s)
        return seen

    def live_blocks(self):
        return self.reachable_from(0)

    def dominators(self):
        """dom[b] = set of blocks dominating b (over blocks reachable from entry)."""
        if self._dom is not None:
            return self._dom
        live = sorted(self.live_blocks())
        allb = set(live)
        dom = {b: set(allb) for b in live}
        dom[0] = {0}
        changed = True
        # reverse post-order would be faster; sizes are small
        while changed:
            changed = False
            for b in live:
                if b == 0:
                    continue
                ps = [p for p in self.pred(b) if p in allb]
                if not ps:
                    new = {b}
                else:
                    new = set.intersection(*(dom[p] for p in ps)) | {b}
                if new != dom[b]:
                    dom[b] = new
                    changed = True
        self._dom = dom
        return dom

    def dominates(self, a, b):
        d = self.dominators()
        return b in d and a in d[b]

    def return_blocks(self):
        live = self.live_blocks()
        return [i for i in live if self.blocks[i]["term"]["k"] == "return"]

    def every_path_passes(self, src, dst, through):
        """True iff every path src ->* dst contains a block of `through` (src/dst themselves count)."""
        through = set(through)
        if src in through or dst in through:
            return True
        return dst not in self.reachable_from(src, avoid=through)

    # -- statements / defs ----------------------------------------------------------------
    def stmts(self, b):
        return self.blocks[b]["stmts"]

    def calls(self):
        if self._calls is None:
            self._calls = []
            for i, b in enumerate(self.blocks):
                if b.get("cleanup"):
                    continue
                t = b["term"]
                if t["k"] == "call":
                    self._calls.append(Call(self, i, t))
        return self._calls

    def calls_to(self, *names):
        return [c for c in self.calls() if c.is_(*names)]

    def defs(self):
        """local -> list of (bb, idx or 'term', kind, payload). kind: 'assign' (payload stmt),
        'call' (payload Call), 'yield'."""
        if self._defs is not None:
            return self._defs
        defs = defaultdict(list)
        for bi, b in enumerate(self.blocks):
            if b.get("cleanup"):
                continue
            for si, s in enumerate(b["stmts"]):
                if s["k"] == "assign":
                    defs[s["place"]["l"]].append((bi, si, "assign", s))
            t = b["term"]
            if t["k"] == "call":
                defs[t["dest"]["l"]].append((bi, "term", "call", Call(self, bi, t)))
            elif t["k"] == "yield":
                defs[t["resume_arg"]["l"]].append((bi, "term", "yield", t))
        self._defs = defs
        return defs

    def local_ty(self, l):
        return self.locals[l]["ty"]

    def local_name(self, l):
        return self.names.get(l)

    def loc(self, b, si=None):
        blk = self.blocks[b]
        if si is None or si == "term":
            return blk.get("tsp") or blk["term"].get("sp")
        return blk["stmts"][si].get("sp")

    def __repr__(self):
        return "Body(%s)" % self.short


# ----------------------------------------------------------------------------------------------
# Program
# ----------------------------------------------------------------------------------------------


class AnchorMissing(Exception):
    pass


class Program:
    def __init__(self, raw):
        """raw: {crate_name: facts dict}"""
        self.raw = raw
        self.bodies = []
        self.by_path = {}
        self.by_short = defaultdict(list)
        self.adts = {}
        self.adts_short = defaultdict(list)
        self.impls = []
        self.consts = {}
        self.consts_short = defaultdict(list)
        self.fns = {}
        for cname, d in raw.items():
            for bd in d["bodies"]:
                b = Body(self, cname, bd)
                self.bodies.append(b)
                self.by_path[b.path] = b
                self.by_short[b.short].append(b)
            for a in d["adts"]:
                p = norm(a["path"])
                a["npath"] = p
                a["crate"] = cname
                self.adts[p] = a
                self.adts_short[last_seg(p)].append(a)
            for im in d["impls"]:
                im["crate"] = cname
                self.impls.append(im)
            for c in d["consts"]:
                p = norm(c["path"])
                c["crate"] = cname
                self.consts[p] = c
                self.consts_short[short(p)].append(c)
                self.consts_short[last_seg(p)].append(c)
            for f in d["fns"]:
                f["crate"] = cname
                self.fns[norm(f["path"])] = f
        self.groups = defaultdict(list)
        for b in self.bodies:
            self.groups[b.root].append(b)
        self._callers = None

    # -- lookup, failing closed ----------------------------------------------------------------
    def body(self, name, crate=None):
        """Unique body by short name or full path; raises AnchorMissing."""
        if name in self.by_path:
            return self.by_path[name]
        c = [b for b in self.by_short.get(name, []) if crate is None or b.crate == crate]
        if len(c) == 1:
            return c[0]
        if not c:
            # suffix match on full path
            c = [b for b in self.bodies if b.path.endswith("::" + name) and (crate is None or b.crate == crate)]
            if len(c) == 1:
                return c[0]
        if not c:
            raise AnchorMissing("anchor missing: no body named %s" % name)
        raise AnchorMissing("anchor ambiguous: %s -> %s" % (name, [b.path for b in c]))

    def has_body(self, name):
        try:
            self.body(name)
            return True
        except AnchorMissing:
            return False

    def group(self, name):
        """All bodies (item + nested closures, incl. async body) of the item `name`."""
        b = self.body(name)
        return self.groups[b.root]

    def async_body(self, name):
        """The coroutine body of async fn `name` (or the body itself if not async)."""
        b = self.body(name)
        for x in self.groups[b.root]:
            if x.coroutine and x.d.get("parent") and norm(x.d["parent"]) == b.path:
                return x
        return b

    def const(self, name):
        c = self.consts.get(name)
        if c is None:
            cs = self.consts_short.get(name, [])
            uniq = {x["path"]: x for x in cs}
            if len(uniq) == 1:
                c = list(uniq.values())[0]
            elif not uniq:
                raise AnchorMissing("anchor missing: const %s" % name)
            else:
                raise AnchorMissing("anchor ambiguous: const %s -> %s" % (name, sorted(uniq)))
        return c

    def const_value(self, name):
        c = self.const(name)
        if "v" not in c:
            raise AnchorMissing("const %s has no evaluated scalar value" % name)
        return c["v"]

    def adt(self, name):
        if name in self.adts:
            return self.adts[name]
        c = self.adts_short.get(name, [])
        if len(c) == 1:
            return c[0]
        if not c:
            raise AnchorMissing("anchor missing: type %s" % name)
        raise AnchorMissing("anchor ambiguous: type %s" % name)

    def impls_of(self, trait_short, adt_short=None):
        r = []
        for im in self.impls:
            if "trait" not in im:
                continue
            if last_seg(norm(im["trait"])) != trait_short:
                continue
            if adt_short is not None:
                sa = im.get("self_adt")
                if not sa or last_seg(norm(sa)) != adt_short:
                    continue
            r.append(im)
        return r

    # -- call graph ---------------------------------------------------------------------------
    def callers(self):
        """callee full path -> list of Call (resolved and declared both indexed)."""
        if self._callers is None:
            m = defaultdict(list)
            for b in self.bodies:
                for c in b.calls():
                    seen = set()
                    for k in (c.res, c.decl):
                        if k and k not in seen:
                            seen.add(k)
                            m[k].append(c)
            self._callers = m
        return self._callers

    def calls_of(self, name):
        """All call sites (in any body) whose declared or resolved callee is `name` (short or full)."""
        out = []
        seen = set()
        for b in self.bodies:
            for c in b.calls():
                if c.is_(name) and id(c) not in seen:
                    seen.add(id(c))
                    out.append(c)
        return out

    def callees_closure(self, roots, within=lambda b: True, depth=None):
        """Transitive closure of workspace bodies reachable from the groups of `roots`
        (list of Body). Closures are attributed to their group."""
        seen = {}
        dq = deque()
        for r in roots:
            for b in self.groups[r.root]:
                if b.path not in seen:
                    seen[b.path] = 0
                    dq.append(b)
        while dq:
            b = dq.popleft()
            d = seen[b.path]
            if depth is not None and d >= depth:
                continue
            for c in b.calls():
                for k in (c.res, c.decl):
                    t = self.by_path.get(k) if k else None
                    if t is not None and within(t):
                        for g in self.groups[t.root]:
                            if g.path not in seen:
                                seen[g.path] = d + 1
                                dq.append(g)
                        break
        return [self.by_path[p] for p in seen]


# ----------------------------------------------------------------------------------------------
# provenance
# ----------------------------------------------------------------------------------------------

# callees whose result is (for provenance purposes) their receiver / first argument
TRANSPARENT = {
    "Try::branch", "FromResidual::from_residual", "IntoFuture::into_future", "Pin::new_unchecked",
    "Pin::new", "Deref::deref", "DerefMut::deref_mut", "Clone::clone", "Into::into", "From::from",
    "AsRef::as_ref", "AsMut::as_mut", "Option::as_ref", "Option::as_mut", "Option::unwrap",
    "Result::unwrap", "Option::expect", "Result::expect", "Result::ok", "Option::ok_or",
    "Option::ok_or_else", "Result::map_err", "Result::inspect_err", "Option::take", "Borrow::borrow",
    "Pin::as_mut", "Pin::get_mut", "Pin::get_unchecked_mut", "Option::unwrap_or", "Option::copied", "Option::cloned",
    "TryFrom::try_from", "TryInto::try_into", "Result::unwrap_or", "Option::map_or", "NonNull::as_ptr",
    "NonNull::new_unchecked", "NonNull::cast", "pin::pin", "slice::get", "slice::get_mut", "Index::index",
    "IndexMut::index_mut", "Result::ok_or", "const_ptr::cast_mut", "const_ptr::cast", "mut_ptr::cast",
    "mut_ptr::cast_const", "slice::iter", "slice::iter_mut", "IntoIterator::into_iter", "slice::as_ptr", "slice::as_mut_ptr", "Result::and_then", "Option::and_then", "Result::map", "Option::map", "Option::unwrap_unchecked", "Result::unwrap_unchecked",
}
AWAIT_POLL = {"Future::poll"}


class Prov:
    """Backward, flow-insensitive provenance over one body (optionally into the parent for
    closure captures)."""

    def __init__(self, body, cuts=(), transparent=TRANSPARENT, stop_at_fields=False, follow_all=()):
        self.body = body
        self.cuts = set(cuts)
        self.transparent = set(transparent)
        self.stop_at_fields = stop_at_fields
        self.follow_all = set(follow_all)
        self._memo = {}

    def of_operand(self, op):
        pl = op_place(op)
        if pl is not None:
            return self.of_place(pl)
        c = op_const(op)
        if c is not None:
            return frozenset([self._const_root(c)])
        return frozenset()

    @staticmethod
    def _const_root(c):
        if "fn" in c:
            return ("fn", short(c["fn"]))
        if "tyconst" in c:
            return ("const", c["tyconst"])
        if "def" in c:
            return ("const", short(c["def"]), c.get("v"))
        if "variant" in c:
            return ("const", ty_short(c["ty"]) + "::" + c["variant"], c.get("v"))
        if "v" in c:
            return ("const", c["v"])
        if "str" in c:
            return ("const", "str")
        return ("const", ty_short(c["ty"]))

    def of_place(self, pl):
        roots = set()
        # field roots for every ADT field projection on the way
        for p in pl["p"]:
            if isinstance(p, dict) and "n" in p:
                roots.add(("field", last_seg(norm(p["adt"])), p["n"]))
            elif isinstance(p, dict) and p.get("k") == "upvar":
                roots.add(("upvar", p["f"], self.body.upvar_names.get(p["f"])))
        if self.stop_at_fields and any(r[0] == "field" for r in roots):
            return frozenset(roots)
        # `t.k` of a tuple built in this body (a helper returning `(a, b)`, destructured by the caller): element k only
        first = pl["p"][0] if pl["p"] else None
        if isinstance(first, dict) and first.get("k") == "tuple" and "f" in first:
            ds = self.body.defs().get(pl["l"], [])
            src = []
            for d in ds:
                if d[2] == "assign" and not d[3]["place"]["p"] and d[3]["rv"]["k"] == "agg" and d[3]["rv"].get("ak") == "tuple" and first["f"] < len(d[3]["rv"]["a"]):
                    src.append(d[3]["rv"]["a"][first["f"]])
                elif d[2] == "assign" and not d[3]["place"]["p"] and d[3]["rv"]["k"] == "use" and op_place(d[3]["rv"]["a"][0]) is not None and not op_place(d[3]["rv"]["a"][0])["p"]:
                    src.append({"copy": {"l": op_place(d[3]["rv"]["a"][0])["l"], "p": [first]}})
                else:
                    src = None
                    break
            if src:
                for o in src:
                    roots |= self.of_operand(o)
                return frozenset(roots)
        roots |= self.of_local(pl["l"], self._first_field(pl))
        # index operands are *not* provenance of the value
        return frozenset(roots)

    @staticmethod
    def _first_field(pl):
        """The named field a place selects directly under its local (through derefs only): `(*l).f...` -> f."""
        for p in pl["p"]:
            if p == "*":
                continue
            if isinstance(p, dict) and "n" in p:
                return p["n"]
            return None
        return None

    def of_local(self, l, field=None):
        """`field`: the value read is `l.field` / `(*l).field` - stores into a *different* named field of `l` are not
        its provenance (one `&mut Self` local used for every access, as after inlining a `&mut self` helper)."""
        if field is not None:
            others = [d for d in self.body.defs().get(l, []) if d[2] == "assign" and self._first_field(d[3]["place"]) not in (None, field)]
            if not others:
                field = None
        if field is not None:
            key = (l, field)
            if key in self._memo:
                return self._memo[key]
            roots = set()
            b = self.body
            if 1 <= l <= b.arg_count:
                roots.add(("arg", l, b.local_name(l)))
            if not hasattr(self, "_inprog"):
                self._inprog = []
                self._hit = set()
            if key in self._inprog:
                return frozenset()
            self._inprog.append(key)
            for (bi, si, kind, payload) in b.defs().get(l, []):
                if kind == "assign":
                    if self._first_field(payload["place"]) not in (None, field):
                        continue
                    roots |= self._of_rvalue(payload["rv"])
                elif kind == "call":
                    roots |= self._of_call(payload)
                elif kind == "yield":
                    roots.add(("resume",))
            for (bi, si, kind, payload) in self._refs_of(l):
                roots.add(("outparam", payload.name))
            self._inprog.pop()
            r = frozenset(roots)
            if not self._hit:
                self._memo[key] = r
            return r
        if l in self._memo:
            return self._memo[l]
        if not hasattr(self, "_inprog"):
            self._inprog = []
            self._hit = set()
        if l in self._inprog:
            # back edge of a cycle: contributes nothing new, but results computed below the
            # cycle head are incomplete and must not be cached
            self._hit.add(l)
            return frozenset()
        self._inprog.append(l)
        b = self.body
        roots = set()
        if 1 <= l <= b.arg_count:
            roots.add(("arg", l, b.local_name(l)))
        for (bi, si, kind, payload) in b.defs().get(l, []):
            if kind == "assign":
                roots |= self._of_rvalue(payload["rv"])
            elif kind == "call":
                roots |= self._of_call(payload)
            elif kind == "yield":
                roots.add(("resume",))
        # out-parameters: &mut l passed to a call
        for (bi, si, kind, payload) in self._refs_of(l):
            roots.add(("outparam", payload.name))
        r = frozenset(roots)
        self._inprog.pop()
        self._hit.discard(l)
        if not self._hit:
            self._memo[l] = r
        return r

    def _refs_of(self, l):
        b = self.body
        if not hasattr(self, "_mutrefs"):
            self._mutrefs = defaultdict(list)
            reftmp = {}
            for bi, blk in enumerate(b.blocks):
                if blk.get("cleanup"):
                    continue
                for s in blk["stmts"]:
                    if s["k"] == "assign" and s["rv"]["k"] in ("ref", "rawptr") and s["rv"].get("m") in ("mut", "Mut") and not s["place"]["p"]:
                        src = s["rv"]["place"]
                        if not src["p"]:
                            reftmp[s["place"]["l"]] = src["l"]
            for c in b.calls():
                for a in c.args:
                    pl = op_place(a)
                    if pl and not pl["p"] and pl["l"] in reftmp:
                        self._mutrefs[reftmp[pl["l"]]].append((c.bb, "term", "call", c))
        return self._mutrefs.get(l, [])

    def _of_rvalue(self, rv):
        k = rv["k"]
        roots = set()
        if k in ("use", "cast", "un", "repeat"):
            for a in rv["a"]:
                roots |= self.of_operand(a)
        elif k == "bin":
            for a in rv["a"]:
                roots |= self.of_operand(a)
            roots.add(("binop", rv["op"].replace("WithOverflow", "")))
        elif k in ("ref", "rawptr", "discr"):
            roots |= self.of_place(rv["place"])
        elif k == "agg":
            if rv["ak"] == "adt":
                roots.add(("agg", last_seg(norm(rv["adt"])), rv["variant"]))
            elif rv["ak"] in ("closure", "coroutine", "coroutine_closure"):
                roots.add(("closure", short(rv["def"])))
            for a in rv["a"]:
                roots |= self.of_operand(a)
        return roots

    def _of_call(self, c):
        roots = set()
        if c.indirect:
            roots.add(("call", "<indirect>"))
            return roots
        name_set = {c.decl_s, c.res_s}
        if name_set & self.cuts:
            roots.add(("cut", (name_set & self.cuts).pop()))
            return roots
        if name_set & AWAIT_POLL:
            inner = set()
            for a in c.args[:1]:
                inner |= self.of_operand(a)
            for r in inner:
                if r[0] == "call":
                    roots.add(("await",) + r[1:])
                else:
                    roots.add(r)
            return roots
        if name_set & self.follow_all:
            for a in c.args:
                roots |= self.of_operand(a)
            roots.add(("via", c.name))
            return roots
        if name_set & self.transparent:
            for a in c.args[:1]:
                roots |= self.of_operand(a)
            return roots
        roots.add(("call", c.name, c.bb))
        return roots


def roots_str(roots):
    def one(r):
        return ":".join(str(x) for x in r if x is not None)

    return sorted(one(r) for r in roots)


def has_root(roots, kind, *rest):
    # a numeric constant matches a literal and a named constant with that value alike (`6usize` / `const FLAGS_OFFSET = 6`)
    if kind == "const" and len(rest) == 1 and isinstance(rest[0], int) and not isinstance(rest[0], bool):
        for r in roots:
            if r[0] == "const" and (r[1] == rest[0] or (len(r) > 2 and r[-1] == rest[0] and isinstance(r[-1], int))):
                return True
        return False
    for r in roots:
        if r[0] != kind:
            continue
        ok = True
        for i, x in enumerate(rest):
            if x is None:
                continue
            if len(r) <= i + 1 or r[i + 1] != x:
                ok = False
                break
        if ok:
            return True
    return False
