"""Per-run context: lazily extracted programs per configuration."""
import json
import os

from . import core, facts
from .core import AnchorMissing  # noqa: F401

VERIF = os.path.dirname(os.path.dirname(os.path.abspath(__file__)))


class Ctx:
    def __init__(self, tier="quick", seed=0):
        self.tier = tier
        self.seed = seed
        self._progs = {}
        self.repo = facts.REPO

    def configs(self):
        return ["default", "nostd"] if self.tier == "thorough" else ["default"]

    def prog(self, config="default"):
        if config not in self._progs:
            d = facts.extract(config)
            try:
                raw = facts.load_raw(d)
            except (FileNotFoundError, ValueError):
                # the directory was pruned or is incomplete (concurrent run): extract again
                import shutil

                shutil.rmtree(d, ignore_errors=True)
                d = facts.extract(config)
                raw = facts.load_raw(d)
            from . import inline

            self.inline_report = inline.transform(raw)
            p = core.Program(raw)
            p.inline_report = self.inline_report
            p.config = config
            p.factdir = d
            self._progs[config] = p
        return self._progs[config]

    def table(self, name):
        with open(os.path.join(VERIF, "tables", name)) as fh:
            return json.load(fh)

    def tree_hash(self):
        return facts.tree_hash()

    def src(self, rel):
        with open(os.path.join(self.repo, rel)) as fh:
            return fh.read()
