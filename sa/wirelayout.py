"""Wire-layout translation validation (C19, also C04/C12): the layout a derive site *declares*
(from ecsyn, computed here independently following the macro's documentation) versus the layout the
*generated code* implements (recovered from its MIR by a small symbolic evaluator)."""
import json
import os
import subprocess

from . import facts, q
from .core import Call, last_seg, norm, op_const, op_place, short, ty_short

ECSYN_DIR = os.path.join(facts.VERIF, "tools", "ecsyn")
ECSYN = os.path.join(ECSYN_DIR, "target", "release", "ecsyn")

PRIM_BITS = {"u8": 8, "i8": 8, "u16": 16, "i16": 16, "u32": 32, "i32": 32, "u64": 64, "i64": 64, "u128": 128, "i128": 128, "bool": 1, "f32": 32, "f64": 64}


def build_ecsyn():
    if os.path.exists(ECSYN) and os.path.getmtime(ECSYN) >= os.path.getmtime(os.path.join(ECSYN_DIR, "src", "main.rs")):
        return
    env = dict(os.environ)
    env.pop("RUSTUP_TOOLCHAIN", None)
    env["CARGO_NET_OFFLINE"] = "true"
    r = subprocess.run(["cargo", "build", "--offline", "--release"], cwd=ECSYN_DIR, env=env, capture_output=True, text=True)
    if r.returncode != 0:
        raise SystemExit("ecsyn failed to build:\n" + r.stderr[-3000:])


def declared(paths, features=("std", "default")):
    build_ecsyn()
    cmd = [ECSYN]
    for f in features:
        cmd += ["--feature", f]
    cmd += list(paths)
    out = subprocess.check_output(cmd, text=True)
    d = json.loads(out)
    if d["parse_failures"]:
        raise SystemExit("ecsyn could not parse: %s" % d["parse_failures"])
    return d


# ----------------------------------------------------------------------------------------------
# reference layout, from the declaration alone
# ----------------------------------------------------------------------------------------------


def ref_layout(item):
    """-> (total_bits, {field: (bit_start, bit_len) | None for skipped}, problems)"""
    problems = []
    w = item["wire"]
    total = w.get("bits") if "bits" in w else (w["bytes"] * 8 if "bytes" in w else None)
    pos = 0
    fields = {}
    order = []
    for f in item["fields"]:
        fw = f["wire"]
        if fw.get("skip"):
            fields[f["name"]] = None
            order.append(f["name"])
            continue
        pos += fw.get("pre_skip", 0) + 8 * fw.get("pre_skip_bytes", 0)
        if "bits" in fw:
            n = fw["bits"]
        elif "bytes" in fw:
            n = fw["bytes"] * 8
        else:
            n = PRIM_BITS.get(f["ty"])
            if n is None:
                problems.append("field %s has no width and is not a primitive" % f["name"])
                n = 0
        if n > 8 and pos % 8 != 0:
            problems.append("multi-byte field %s is not byte aligned (bit %d)" % (f["name"], pos))
        if n <= 8 and (pos % 8) + n > 8:
            problems.append("sub-byte field %s crosses a byte boundary" % f["name"])
        fields[f["name"]] = (pos, n)
        order.append(f["name"])
        pos += n
        pos += fw.get("post_skip", 0) + 8 * fw.get("post_skip_bytes", 0)
    if total is None:
        problems.append("struct has no #[wire(bits|bytes)]")
        total = pos
    if pos > total:
        problems.append("fields need %d bits but the struct declares %d" % (pos, total))
    return total, fields, problems


SIGNED = {"i8", "i16", "i32", "i64", "i128", "isize"}


def type_width_problems(item):
    """Declarations the generator accepts but cannot honour (it hands a primitive field's own impl a sub-slice
    of the *declared* width, and widens sub-byte fields without sign extension):
    [(kind, field, detail)] with kind in {"narrow-int-field", "signed-subbyte-field"}."""
    out = []
    for f in item.get("fields", []):
        fw = f["wire"]
        if fw.get("skip"):
            continue
        t = PRIM_BITS.get(f["ty"])
        if t is None or f["ty"] == "bool":
            continue
        n = fw["bits"] if "bits" in fw else (fw["bytes"] * 8 if "bytes" in fw else t)
        if n == t:
            continue
        if n < 8 and t == 8:
            if f["ty"] in SIGNED:
                out.append(("signed-subbyte-field", f["name"], "%s in %d bits: the value is masked and widened without sign extension, negative values do not round trip" % (f["ty"], n)))
            continue
        out.append(("narrow-int-field", f["name"], "%s declared %d bits wide: the %d byte sub-slice handed to <%s>::pack_to_slice_unchecked / unpack_from_slice is shorter than the %d bytes that impl needs (pack panics, unpack always fails)" % (f["ty"], n, (n + 7) // 8, f["ty"], t // 8)))
    return out


# ----------------------------------------------------------------------------------------------
# symbolic evaluation of MIR operands
# ----------------------------------------------------------------------------------------------

PLUMB = {"Try::branch", "Option::ok_or", "Into::into", "From::from", "Result::map_err", "Option::copied", "Deref::deref", "Option::ok_or_else"}


class Sym:
    def __init__(self, body):
        self.b = body
        self.memo = {}

    def operand(self, op):
        c = op_const(op)
        if c is not None:
            if "v" in c:
                return ("c", c["v"])
            if "def" in c:
                return ("cdef", short(c["def"]), c.get("v"))
            return ("const", c.get("ty"))
        pl = op_place(op)
        if pl is None:
            return ("?",)
        return self.place(pl)

    def place(self, pl):
        base = self.local(pl["l"])
        for p in pl["p"]:
            if p == "*":
                continue
            if isinstance(p, dict) and "n" in p:
                adt = last_seg(norm(p["adt"]))
                if adt in ("ControlFlow", "Option", "Result", "Poll"):
                    continue  # payload plumbing
                base = ("field", base, p["n"])
            elif isinstance(p, dict) and "dc" in p:
                continue
            elif isinstance(p, dict) and "idx" in p:
                base = ("idx", base, self.local(p["idx"]))
            elif isinstance(p, dict) and "cidx" in p:
                base = ("idx", base, ("c", p["cidx"]))
            elif isinstance(p, dict) and p.get("k") == "tuple":
                base = ("tup", base, p["f"])
            else:
                base = ("proj", base)
        return base

    def local(self, l):
        if l in self.memo:
            return self.memo[l]
        self.memo[l] = ("cycle", l)
        b = self.b
        if 1 <= l <= b.arg_count:
            r = ("arg", l)
            self.memo[l] = r
            return r
        ds = [d for d in b.defs().get(l, []) if not (d[2] == "assign" and d[3]["place"]["p"])]
        if len(ds) != 1:
            r = ("phi", l, len(ds))
            self.memo[l] = r
            return r
        bi, si, kind, payload = ds[0]
        if kind == "assign":
            r = self.rvalue(payload["rv"])
        elif kind == "call":
            r = self.call(payload)
        else:
            r = ("?",)
        self.memo[l] = r
        return r

    def rvalue(self, rv):
        k = rv["k"]
        if k == "use":
            return self.operand(rv["a"][0])
        if k in ("ref", "rawptr"):
            return self.place(rv["place"])
        if k == "cast":
            inner = self.operand(rv["a"][0])
            if rv["ck"].startswith("Coerce") or rv["ck"] in ("PtrToPtr",):
                return inner
            return ("cast", rv["to"].strip(), inner)
        if k == "bin":
            op = rv["op"].replace("WithOverflow", "").replace("Unchecked", "")
            return ("bin", op, self.operand(rv["a"][0]), self.operand(rv["a"][1]))
        if k == "un":
            return ("un", rv["op"], self.operand(rv["a"][0]))
        if k == "discr":
            return ("discr", self.place(rv["place"]))
        if k == "agg":
            if rv["ak"] == "array":
                return ("arr", tuple(self.operand(a) for a in rv["a"]))
            if rv["ak"] == "adt":
                n = last_seg(norm(rv["adt"]))
                if n in ("Range", "RangeFrom", "RangeTo"):
                    vals = {f: self.operand(a) for f, a in zip(rv["fields"], rv["a"])}
                    return ("range", vals.get("start", ("c", 0)), vals.get("end"))
                return ("adt", n, rv["variant"], tuple(self.operand(a) for a in rv["a"]))
            if rv["ak"] == "tuple":
                return ("tuple", tuple(self.operand(a) for a in rv["a"]))
            if rv["ak"] in ("closure",):
                return ("closure", short(rv["def"]))
        if k == "repeat":
            return ("repeat", self.operand(rv["a"][0]), rv.get("n"))
        return ("?", k)

    def call(self, c):
        if c.indirect:
            return ("call", "<indirect>", ())
        names = {c.decl_s, c.res_s}
        a = [self.operand(x) for x in c.args]
        if names & PLUMB:
            return a[0]
        n = c.decl_s
        if n in ("slice::get", "slice::get_mut", "Index::index", "IndexMut::index_mut"):
            return ("get", a[0], a[1])
        if n in ("BitAnd::bitand", "Shr::shr", "Shl::shl", "BitOr::bitor"):
            return ("bin", n.split("::")[0], a[0], a[1])
        if n == "EtherCrabWireRead::unpack_from_slice":
            self_ty = c.t.get("self_ty") or ""
            return ("unpack", ty_short(self_ty), a[0])
        if n == "Default::default":
            return ("default",)
        if n == "ptr::read_unaligned":
            return a[0]
        if n in ("slice::first_chunk",):
            return ("first_chunk", a[0])
        if n == "Option::map":
            return ("map", a[0], a[1])
        return ("call", c.name, tuple(a))


def _is_buf(e, n=None):
    """e denotes the re-sliced input buffer `buf.get(0..N)?` (or the raw argument)."""
    if e[0] == "arg":
        return True
    if e[0] == "get" and e[1][0] == "arg" and e[2][0] == "range" and e[2][1] == ("c", 0):
        return n is None or e[2][2] == ("c", n)
    return False


def _bitfield(e):
    """Match ((buf[i] & mask) >> shift) -> (i, mask, shift) or None."""
    if e[0] == "bin" and e[1] == "Shr" and e[3][0] == "c":
        inner = e[2]
        if inner[0] == "bin" and inner[1] == "BitAnd" and inner[3][0] == "c":
            g = inner[2]
            if g[0] == "get" and g[2][0] == "c" and _is_buf(g[1]):
                return g[2][1], inner[3][1], e[3][1]
    return None


def read_layout(prog, body):
    """Recover the read-side layout from a generated struct `unpack_from_slice`.
    -> dict(total_bytes, fields{name: spec}, problems[])"""
    sym = Sym(body)
    problems = []
    me = body.impl_adt_s
    aggs = [x for x in q.aggregates(body, me)]
    if len(aggs) != 1:
        return {"total": None, "fields": {}, "problems": ["expected exactly one `Self {..}` literal, found %d" % len(aggs)]}
    bi, si, s = aggs[0]
    rv = s["rv"]
    # total length: the first get(0..N) on the argument
    total = None
    for c in body.calls_to("slice::get"):
        e = sym.call(c)
        if e[0] == "get" and e[1][0] == "arg" and e[2][0] == "range" and e[2][1] == ("c", 0) and e[2][2] and e[2][2][0] == "c":
            total = e[2][2][1]
            # its failure must lead to Err(ReadBufferTooShort)
    fields = {}
    for name, a in zip(rv["fields"], rv["a"]):
        e = sym.operand(a)
        spec = None
        if e == ("default",):
            spec = {"kind": "skip"}
        else:
            inner = e
            kind = None
            if e[0] == "bin" and e[1] == "Gt" and e[3] == ("c", 0):
                inner = e[2]
                kind = "bool"
            elif e[0] == "unpack" and e[2][0] == "arr" and len(e[2][1]) == 1:
                inner = e[2][1][0]
                kind = "nested:" + e[1]
            bf = _bitfield(inner)
            if bf is not None:
                i, mask, shift = bf
                spec = {"kind": kind or "u8", "byte": i, "mask": mask, "shift": shift}
            elif e[0] == "unpack" and e[2][0] == "get" and e[2][2][0] == "range" and _is_buf(e[2][1]):
                r = e[2][2]
                if r[1][0] == "c" and r[2] and r[2][0] == "c":
                    spec = {"kind": "bytes:" + e[1], "start": r[1][1], "end": r[2][1]}
        if spec is None:
            problems.append("field %s: unrecognised read expression %s" % (name, str(e)[:160]))
            spec = {"kind": "unknown"}
        fields[name] = spec
    return {"total": total, "fields": fields, "problems": problems}


def write_layout(prog, body):
    """Recover the write-side layout from a generated struct `pack_to_slice_unchecked`."""
    sym = Sym(body)
    problems = []
    fields = {}
    total = None
    zero_fill = False
    # buf = match buf.get_mut(0..N)
    for c in body.calls_to("slice::get_mut"):
        e = sym.call(c)
        if e[0] == "get" and e[1][0] == "arg" and e[2][0] == "range" and e[2][1] == ("c", 0) and e[2][2] and e[2][2][0] == "c":
            total = e[2][2][1]
    wb = [c for c in body.calls() if (c.decl_s or "").endswith("::write_bytes")]
    first_write_bb = None
    if wb:
        v = sym.operand(wb[0].args[1])
        zero_fill = v == ("c", 0)
        first_write_bb = wb[0].bb

    def field_of(e):
        while e[0] in ("cast", "idx", "call", "get") and len(e) > 2 and e[0] != "field":
            if e[0] == "cast":
                e = e[2]
            elif e[0] == "idx":
                e = e[1]
            elif e[0] == "call":
                if not e[2]:
                    return None
                e = e[2][0]
            elif e[0] == "get":
                e = e[1]
        if e[0] == "field":
            return e[2]
        return None

    # (a) masked `|=` byte writes
    for bi in sorted(body.live_blocks()):
        for s in body.stmts(bi):
            if s["k"] != "assign":
                continue
            pl = s["place"]
            idxp = [p for p in pl["p"] if isinstance(p, dict) and ("idx" in p or "cidx" in p)]
            if not idxp:
                continue
            dest = sym.place(pl)
            if dest[0] != "idx" or dest[2][0] != "c":
                problems.append("byte write with a non-constant index")
                continue
            i = dest[2][1]
            e = sym.rvalue(s["rv"])
            ok = False
            if e[0] == "bin" and e[1] == "BitOr":
                lhs, rhs = e[2], e[3]
                if lhs[0] == "idx" and lhs[2] == ("c", i) and rhs[0] == "bin" and rhs[1] == "BitAnd" and rhs[3][0] == "c":
                    sh = rhs[2]
                    if sh[0] == "bin" and sh[1] == "Shl" and sh[3][0] == "c":
                        fld = field_of(sh[2])
                        if fld is None and sh[2][0] == "idx":
                            # res = pack(field, &mut field_buf)[0]
                            fld = field_of(sh[2][1])
                        if fld is not None:
                            fields[fld] = {"kind": "bits", "byte": i, "mask": rhs[3][1], "shift": sh[3][1], "bb": bi}
                            ok = True
            if not ok:
                # field_buf temporaries ([0u8; 1]) are not buffer writes
                if dest[1][0] in ("repeat", "arr") or (dest[1][0] == "phi"):
                    continue
                problems.append("unrecognised byte write at index %s: %s" % (i, str(e)[:140]))
    # (b) sub-range hand-offs
    for c in body.calls():
        if not (c.decl_s or "").endswith("pack_to_slice_unchecked"):
            continue
        dst = sym.operand(c.args[1])
        src = sym.operand(c.args[0])
        fld = field_of(src) if src[0] != "field" else src[2]
        if dst[0] == "get" and dst[2][0] == "range" and dst[2][1][0] == "c" and dst[2][2] and dst[2][2][0] == "c":
            if fld is None:
                problems.append("sub-range hand-off of an unrecognised source %s" % str(src)[:100])
                continue
            fields[fld] = {"kind": "bytes", "start": dst[2][1][1], "end": dst[2][2][1], "bb": c.bb, "ty": ty_short(c.t.get("self_ty") or "")}
        elif dst[0] in ("repeat", "arr", "phi"):
            continue  # the one-byte field_buf variant; accounted for by its `|=`
        else:
            problems.append("pack hand-off into an unrecognised destination %s" % str(dst)[:100])
    if first_write_bb is not None:
        for f, sp in fields.items():
            if not body.dominates(first_write_bb, sp["bb"]):
                problems.append("field %s is written before/without the zero fill" % f)
    return {"total": total, "fields": fields, "problems": problems, "zero_fill": zero_fill}


def enum_read_table(prog, body):
    """value -> variant table of a generated enum unpack_from_slice, and the fall-through."""
    me = body.impl_adt_s
    sw = None
    for cd in q.conds(body):
        if cd.kind in ("int", "bool") and cd.t.get("dty") in PRIM_BITS and len(cd.arms) >= 1 and cd.t.get("dty") != "bool":
            sw = cd
            break
    problems = []
    table = {}
    fall = None
    if sw is None:
        # enums whose every value goes to the fall-through (no primitive variants)
        return {"table": {}, "fall": None, "problems": ["no switch on the raw value found"], "repr": None}
    dty = sw.t["dty"]
    bits = PRIM_BITS[dty]

    def variant_at(start):
        # follow gotos to the block that builds the result
        seen = set()
        b = start
        while b not in seen:
            seen.add(b)
            for s in body.stmts(b):
                if s["k"] == "assign" and s["rv"]["k"] == "agg" and s["rv"]["ak"] == "adt":
                    n = last_seg(norm(s["rv"]["adt"]))
                    if n == me:
                        return ("variant", s["rv"]["variant"], len(s["rv"]["a"]))
                    if n == "WireError":
                        return ("err", s["rv"]["variant"], 0)
            t = body.term(b)
            if t["k"] == "goto":
                b = t["t"]
            else:
                break
        return ("?", None, 0)

    for v, tgt in sw.arms:
        if dty.startswith("i") and v >= (1 << (bits - 1)):
            v -= 1 << bits
        table[v] = variant_at(tgt)[1]
    fall = variant_at(sw.otherwise)
    return {"table": table, "fall": fall, "problems": problems, "repr": dty}


def enum_write_kind(prog, body):
    """How the generated enum pack obtains the value: ('discr', repr) for `*self as repr`,
    ('match', {variant: value}) for the catch-all form."""
    sym = Sym(body)
    for c in body.calls():
        if (c.decl_s or "").endswith("::to_le_bytes"):
            e = sym.operand(c.args[0])
            if e[0] == "cast" and e[2][0] == "discr":
                return ("discr", e[1])
            # match form: value local assigned in several arms
            pl = op_place(c.args[0])
            vals = {}
            if pl is not None:
                src = pl["l"]
                # follow one copy
                ds = body.defs().get(src, [])
                if len(ds) == 1 and ds[0][2] == "assign" and ds[0][3]["rv"]["k"] == "use":
                    p2 = op_place(ds[0][3]["rv"]["a"][0])
                    if p2 is not None:
                        src = p2["l"]
                for cd in q.conds(body):
                    if cd.kind == "discr":
                        vt = cd.variant_targets(prog)
                        for var, tgt in vt.items():
                            if var == "otherwise" or not isinstance(var, str):
                                continue
                            dom = q.edge_dominated(body, cd.bb, tgt)
                            for (bi, si, kind, payload) in body.defs().get(src, []):
                                if bi in dom and kind == "assign":
                                    e2 = Sym(body).rvalue(payload["rv"])
                                    vals[var] = e2
                return ("match", vals)
    return ("?", None)
