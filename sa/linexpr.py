"""Linear symbolic values of integer operands: {symbol: coefficient, 1: constant}.

Symbols: ("field", adt, name) for a field read, ("call", short name) for an opaque zero-/one-receiver call such as
`pdu_payload_len()` or `len()`, ("arg", i).  Constants come from evaluated `const` items; calls to small pure
workspace functions (`header_len()`, `buffer_len(n)`) are evaluated through their MIR with the caller's values
substituted for the parameters.  Anything else -> None.  Used to compare *what a length is* rather than how it was
written (`buffer_len(2 + n)` vs `header_len() + 2 + n`)."""
from .core import last_seg, norm, op_place

OPAQUE = ("FrameBox::pdu_payload_len", "slice::len", "ReceivedPdu::len")


def _add(x, y, sign=1):
    out = dict(x)
    for k, v in y.items():
        out[k] = out.get(k, 0) + sign * v
        if out[k] == 0 and k != 1:
            del out[k]
    out.setdefault(1, 0)
    return out


def lin(prog, b, op, env=None, depth=0):
    if depth > 14:
        return None
    env = env or {}
    c = op.get("const")
    if c is not None:
        return {1: c["v"]} if isinstance(c.get("v"), int) else None
    pl = op_place(op)
    if pl is None:
        return None
    proj = [p for p in pl["p"] if p != "*"]
    if proj:
        last = proj[-1]
        if isinstance(last, dict) and "n" in last:
            return {("field", last_seg(norm(last["adt"])), last["n"]): 1, 1: 0}
        if isinstance(last, dict) and last.get("k") == "tuple" and last.get("f") == 0 and len(proj) == 1:
            pass  # `.0` of checked arithmetic
        else:
            return None
    l = pl["l"]
    if l in env and not proj:
        return env[l]
    if 1 <= l <= b.arg_count and not b.defs().get(l):
        return {("arg", l): 1, 1: 0}
    ds = b.defs().get(l, [])
    if len(ds) != 1:
        return None
    bi, si, kind, payload = ds[0]
    if kind == "assign":
        rv = payload["rv"]
        if rv["k"] in ("use", "cast"):
            return lin(prog, b, rv["a"][0], env, depth + 1)
        if rv["k"] == "bin":
            o = rv["op"].replace("WithOverflow", "").replace("Unchecked", "")
            x = lin(prog, b, rv["a"][0], env, depth + 1)
            y = lin(prog, b, rv["a"][1], env, depth + 1)
            if x is None or y is None:
                return None
            if o == "Add":
                return _add(x, y)
            if o == "Sub":
                return _add(x, y, -1)
            if o == "Mul":
                for p_, q_ in ((x, y), (y, x)):
                    if set(p_) <= {1}:
                        return {k: v * p_.get(1, 0) for k, v in q_.items()}
            return None
        return None
    if kind == "call":
        c = payload
        if c.name in OPAQUE or c.decl_s in OPAQUE:
            return {("call", c.decl_s if c.decl_s in OPAQUE else c.name): 1, 1: 0}
        if (c.decl_s or "").split("::")[-1] in ("from", "into") and len(c.args) == 1:
            return lin(prog, b, c.args[0], env, depth + 1)
        t = prog.by_path.get(c.full)
        if t is not None and not t.coroutine and len(t.blocks) <= 12:
            args = [lin(prog, b, a, env, depth + 1) for a in c.args]
            if all(a is not None for a in args):
                ds0 = t.defs().get(0, [])
                if len(ds0) == 1 and ds0[0][2] == "assign" and ds0[0][3]["rv"]["k"] in ("use", "bin", "cast"):
                    sub = {i + 1: a for i, a in enumerate(args)}
                    # evaluate `_0`'s defining rvalue inside the callee
                    fake = {"copy": {"l": 0, "p": []}}
                    return lin(prog, t, fake, sub, depth + 1)
        return None
    return None


def show(x):
    if x is None:
        return "?"
    parts = []
    for k, v in sorted(x.items(), key=lambda kv: str(kv[0])):
        if k == 1:
            continue
        n = k[-1] if isinstance(k, tuple) else str(k)
        parts.append(("%d*" % v if v != 1 else "") + str(n))
    if x.get(1):
        parts.append(str(x[1]))
    return " + ".join(parts) or "0"
