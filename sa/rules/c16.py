"""C16 - no mailbox reply can crash the MainDevice or make it read out of bounds."""
from .. import nopanic, npcommon, q
from ..core import Prov, has_root


def run(ctx, rep):
    rep.decided += [
        "NOPANIC (source: every byte read out of a received frame) over the call-graph closure of Coe::* (mailbox_write_read, send_sdo_info_service, sdo_read*, sdo_write*, sdo_info_*), the derived header decoders and ReceivedPdu::{trim_front,deref}",
        "contradiction rule: no assertion on the service/command discriminant precedes the branches that handle it",
        "accumulation only through heapless::Vec::extend_from_slice with its error propagated",
    ]
    rep.undecided += ["that an endless stream of well-formed 'more fragments' replies ends (bounded only by the per-reply timeout)"]
    rep.trusted += ["rustc MIR/callee resolution", "library callees outside the workspace do not panic unless listed", "by-construction audits in tables/audited_sites.json", "C01 clause 5 (view bounds) for ReceivedPdu::deref"]
    rep.assumptions += ["request-building (pack) code is outside the scope (C04/C19)"]
    for cfg in ctx.configs():
        prog = ctx.prog(cfg)
        tag = "" if cfg == "default" else "@" + cfg
        rep.analysed["bodies" + tag] = len(prog.bodies)
        t = npcommon.taint_for(prog)
        aud = npcommon.audited_for(ctx, prog, rep, "C16", tag)
        scope, sinks, stale = nopanic.run_scope(prog, rep, "C16", t, ["Coe::*"], tag, audited=aud, within=npcommon.reply_scope)
        npcommon.report_stale(rep, "C16", stale, tag)
        rep.floor("C16 scope functions" + tag, len({b.root for b in scope}), 80)
        rep.floor("C16 tainted sinks" + tag, len({s.key for s in sinks}), 15)
        accumulate(prog, rep, tag)


def accumulate(prog, rep, tag):
    P = "C16.acc"
    b = prog.async_body("Coe::send_sdo_info_service")
    ext = [c for c in b.calls() if (c.decl_s or "").endswith("::extend_from_slice")]
    ok = len(ext) == 1
    if ok:
        # result goes through map_err + `?`
        tr = q.ok_edge_of_try(b, ext[0])
        if tr is None:
            for c in b.calls():
                if c.is_("Result::map_err") and (q.op_place(c.args[0]) or {}).get("l") == ext[0].dest["l"]:
                    tr = q.ok_edge_of_try(b, c)
        ok = tr is not None and tr[2] is not None
    rep.ob(P, "sdo-info:extend-checked" + tag, ok, "fragments are accumulated only with heapless::Vec::extend_from_slice whose capacity error is propagated", loc=b.span)
    pushes = [c for c in b.calls() if (c.decl_s or "").endswith(("::push_unchecked", "::set_len", "::extend_from_slice_unchecked"))]
    rep.ob(P, "sdo-info:no-unchecked-growth" + tag, not pushes, "no unchecked growth of the accumulation buffer", loc=b.span, how="inventory", nontrivial=False)
