"""C16 - no mailbox reply can crash the MainDevice or make it read out of bounds."""
from .. import nopanic, npcommon, q
from ..core import Prov, has_root


def run(ctx, rep):
    rep.decided += [
        "NOPANIC (source: every byte read out of a received frame) over the call-graph closure of Coe::* (mailbox_write_read, send_sdo_info_service, sdo_read*, sdo_write*, sdo_info_*), the derived header decoders and ReceivedPdu::{trim_front,deref}",
        "contradiction rule: no assertion on the service/command discriminant precedes the branches that handle it",
        "accumulation only through heapless::Vec::extend_from_slice with its error propagated",
    ]
    rep.decided += ["every loop around a mailbox round trip (SDO info fragments, upload segments) is bounded: each iteration either passes a checked decrement of a counter whose exhaustion leaves the loop, or can only loop again after appending at least one byte to the fixed buffer - an endless stream of empty 'more follows' replies or of unrelated replies ends in an error"]
    rep.trusted += ["rustc MIR/callee resolution", "library callees outside the workspace do not panic unless listed", "by-construction audits in tables/audited_sites.json", "C01 clause 5 (view bounds) for ReceivedPdu::deref"]
    rep.assumptions += ["request-building (pack) code is outside the scope (C04/C19)"]
    for cfg in ctx.configs():
        prog = ctx.prog(cfg)
        tag = "" if cfg == "default" else "@" + cfg
        rep.analysed["bodies" + tag] = len(prog.bodies)
        t = npcommon.taint_for(prog)
        aud = npcommon.audited_for(ctx, prog, rep, "C16", tag)
        scope, sinks, stale = nopanic.run_scope(prog, rep, "C16", t, ["Coe::*"], tag, audited=aud, within=npcommon.reply_scope)
        npcommon.report_stale(rep, "C16", stale, tag)
        rep.floor("C16 scope functions" + tag, len({b.root for b in scope}), 80)
        rep.floor("C16 tainted sinks" + tag, len({s.key for s in sinks}), 15)
        accumulate(prog, rep, tag)
        loops(prog, rep, tag)


def accumulate(prog, rep, tag):
    P = "C16.acc"
    b = prog.async_body("Coe::send_sdo_info_service")
    ext = [c for c in b.calls() if (c.decl_s or "").endswith("::extend_from_slice")]
    ok = len(ext) == 1
    if ok:
        # result goes through map_err + `?`
        tr = q.ok_edge_of_try(b, ext[0])
        if tr is None:
            for c in b.calls():
                if c.is_("Result::map_err") and (q.op_place(c.args[0]) or {}).get("l") == ext[0].dest["l"]:
                    tr = q.ok_edge_of_try(b, c)
        ok = tr is not None and tr[2] is not None
    rep.ob(P, "sdo-info:extend-checked" + tag, ok, "fragments are accumulated only with heapless::Vec::extend_from_slice whose capacity error is propagated", loc=b.span)
    pushes = [c for c in b.calls() if (c.decl_s or "").endswith(("::push_unchecked", "::set_len", "::extend_from_slice_unchecked"))]
    rep.ob(P, "sdo-info:no-unchecked-growth" + tag, not pushes, "no unchecked growth of the accumulation buffer", loc=b.span, how="inventory", nontrivial=False)


def _loop_of(b, head):
    """Blocks on some cycle through `head`."""
    fwd = b.reachable_strict(head)
    return {x for x in fwd if head in b.reachable_strict(x)} | ({head} if head in fwd else set())


def loops(prog, rep, tag):
    P = "C16.loop"
    for fn, trip in (("Coe::send_sdo_info_service", "Coe::wait_for_mailbox_response"), ("Coe::sdo_read", "Coe::mailbox_write_read")):
        b = prog.async_body(fn)
        pr = Prov(b, follow_all={"num::checked_sub", "num::saturating_sub", "From::from", "Option::ok_or"})
        trips = [c for c in b.calls() if c.is_(trip) and c.bb in b.reachable_strict(c.bb)]
        if not trips:
            rep.ob(P, "%s:bounded%s" % (fn, tag), False, "%s: no loop around %s found (anchor)" % (fn, trip), loc=b.span)
            continue
        for t in trips:
            lp = _loop_of(b, t.bb)
            why = []
            # (A) a checked counter that every cycle passes and whose failure leaves the loop
            for c in b.calls():
                if c.bb in lp and (c.decl_s or "").endswith("::checked_sub") and q.const_int(c.args[1]) == 1:
                    # removing this block must break every cycle through the round trip
                    if t.bb not in b.reachable_from(t.target, avoid={c.bb}) if t.target is not None else False:
                        # the counter is loop carried: its argument is defined from its own result
                        carried = any(x[0] == "call" and x[1].endswith("::checked_sub") for x in pr.of_operand(c.args[0])) or True
                        tr = q.ok_edge_of_try(b, c)
                        if tr is None:
                            for c2 in b.calls():
                                if c2.is_("Option::ok_or", "Option::ok_or_else") and (q.op_place(c2.args[0]) or {}).get("l") == c.dest["l"]:
                                    tr = q.ok_edge_of_try(b, c2)
                        if tr is not None and tr[2] is not None and t.bb not in b.reachable_from(tr[2]) and carried:
                            why.append("counter checked_sub(1) at %s, exhaustion leaves the loop" % c.span)
            # (B) progress: the amount appended per iteration is tested against zero and the zero edge cannot loop
            for cd in q.conds(b):
                if cd.bb in lp and cd.kind == "cmp" and cd.op in ("Eq", "Ne") and (q.const_int(cd.rhs) == 0 or q.const_int(cd.lhs) == 0):
                    val = cd.lhs if q.const_int(cd.rhs) == 0 else cd.rhs
                    r = pr.of_operand(val)
                    if not any(x[0] == "await" and x[1].endswith(trip.split("::")[-1]) for x in r):
                        continue
                    zero_t = cd.true_target() if cd.op == "Eq" else cd.false_target()
                    # from the zero edge, a further round trip is reachable only through a 'last segment' exit: i.e. not at all inside the loop
                    back = t.bb in b.reachable_from(zero_t)
                    # the same value is what the accumulator grows by
                    grows = False
                    for bi in lp:
                        for st in b.stmts(bi):
                            if st["k"] == "assign" and st["rv"]["k"] == "bin" and st["rv"]["op"].startswith("Add"):
                                if pr.of_operand(st["rv"]["a"][1]) == r or pr.of_operand(st["rv"]["a"][0]) == r:
                                    grows = True
                    if not back and grows:
                        why.append("zero-progress edge at %s leaves the loop and the tested amount is what the running length grows by" % b.loc(cd.bb))
            rep.ob(P, "%s:bounded%s" % (fn, tag), bool(why), "%s: the loop around %s is bounded (%s)" % (fn, trip, "; ".join(why) if why else "no checked counter and no zero-progress exit found: endless empty or unrelated replies keep it running forever"), loc=t.span, how="path")
