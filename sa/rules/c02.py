"""C02 - a frame buffer never has two parties inside it at once (structural clauses S1-S5)."""
from .. import slotfsm


def run(ctx, rep):
    rep.decided += [
        "S1 every write of the slot state enumerated; claims are compare-exchange (AcqRel) whose failure is propagated; CAS edges lie on the documented lifecycle; plain stores are exactly the six audited ones and none grants access",
        "S2 typestate handles are constructed only on the success edge of their claim",
        "S3 buffer accessors are called only by the handle type that owns the buffer in that state",
        "S4 data is written before the state that publishes it (mark_sendable, receive_frame, mark_received, poll)",
        "S5 nothing touches a slot through a handle after that handle released it",
    ]
    rep.undecided += ["mutual exclusion as a property of all schedules (model checking)", "the abandonment windows (C06)"]
    rep.trusted += ["rustc MIR/callee resolution", "atomic_enum's generated AtomicFrameState forwards orderings unchanged", "tables/who_may_call.json"]
    for cfg in ctx.configs():
        prog = ctx.prog(cfg)
        tag = "" if cfg == "default" else "@" + cfg
        rep.analysed["bodies" + tag] = len(prog.bodies)
        slotfsm.s1(prog, rep, "C02", tag)
        slotfsm.s2(prog, rep, "C02", tag)
        slotfsm.s3(prog, rep, "C02", ctx.table("who_may_call.json"), tag)
        slotfsm.s4(prog, rep, "C02", tag)
        slotfsm.s5(prog, rep, "C02", tag)
        slotfsm.s5_handle_escape(prog, rep, "C02", tag)
    if ctx.tier == "thorough":
        from .. import witness

        witness.run(ctx, rep, "C02", "C02")
