"""C17 - topology and propagation delays: no panic on any port/time report, monotone accumulator,
reference = first DC device, offset/delay register values."""
from .. import nopanic, npcommon, q
from ..core import Prov, has_root, op_place


def run(ctx, rep):
    rep.decided += [
        "NOPANIC (source: every byte read out of a received frame - DL status, port receive times, DC receive time) over the call-graph closure of dc::configure_dc and Ports::*",
        "propagation_delay is written only from the accumulator, which changes only by saturating_add of an unsigned value (non-decreasing in processing order)",
        "the DC reference is the first element with dc_support().any(); write_dc_parameters writes now - dc_receive_time to DcSystemTimeOffset and propagation_delay to DcSystemTimeTransmissionDelay",
    ]
    rep.decided += ["the parent search: the previous device is the parent unless it is a line end; otherwise the nearest *preceding* junction (search over the reversed prefix) that still has an unassigned downstream port (nested, fully populated forks are skipped)"]
    rep.decided += [
        "the 32 bit port receive latches are only ever stored relative to the (modulo 2^32) earliest one of the device, by the single function that writes them - the min/max/difference arithmetic on them is then independent of where the counters wrap",
        "delays are measured against the port times of a DC capable SubDevice only: a parent without DC support (all-zero latches) is walked past to the nearest DC capable one upstream",
    ]
    rep.undecided += ["the per-topology delay formulas as values"]
    rep.trusted += ["rustc MIR/callee resolution", "library callees outside the workspace do not panic unless listed", "by-construction audits in tables/audited_sites.json"]
    for cfg in ctx.configs():
        prog = ctx.prog(cfg)
        tag = "" if cfg == "default" else "@" + cfg
        rep.analysed["bodies" + tag] = len(prog.bodies)
        t = npcommon.taint_for(prog)
        aud = npcommon.audited_for(ctx, prog, rep, "C17", tag)
        scope, sinks, stale = nopanic.run_scope(prog, rep, "C17", t, ["dc::configure_dc", "Ports::*"], tag, audited=aud, within=npcommon.reply_scope)
        npcommon.report_stale(rep, "C17", stale, tag)
        rep.floor("C17 scope functions" + tag, len({b.root for b in scope}), 60)
        rep.floor("C17 tainted sinks" + tag, len({s.key for s in sinks}), 8)
        accumulator(prog, rep, tag)
        registers(prog, rep, tag)
        parent_search(prog, rep, tag)
        wrap_and_ancestor(prog, rep, tag)


def accumulator(prog, rep, tag):
    P = "C17.acc"
    # writers of SubDevice.propagation_delay
    n = 0
    for b in prog.bodies:
        if b.crate != "ethercrab":
            continue
        for (bi, si, kind, pl) in q.field_accesses(b, "SubDevice", "propagation_delay"):
            if kind not in ("write", "addr_mut"):
                continue
            n += 1
            ok = b.root_short == "dc::configure_subdevice_offsets"
            d = ""
            if ok:
                s = b.stmts(bi)[si]
                r = Prov(b)._of_rvalue(s["rv"])
                ok = has_root(r, "arg", 3) and not has_root(r, "binop")
                d = "value roots: delay_accum"
            rep.ob(P, "propagation_delay-writer:%s%s" % (b.root_short, tag), ok or b.root_short == "SubDevice::new", "SubDevice.propagation_delay written in %s %s" % (b.root_short, d), loc=q.loc(b, bi, si), how="dataflow")
    rep.floor("C17 propagation_delay writers" + tag, n, 1)
    b = prog.body("dc::configure_subdevice_offsets")
    # the delay is assigned on every way out: a DC device that leaves through the "nothing upstream" exit keeps the
    # accumulated value too (a second branch below a root without DC starts at what the first branch accumulated;
    # left at its initial 0 the programmed delays would decrease in processing order)
    wr = {bi for (bi, si, kind, pl) in q.field_accesses(b, "SubDevice", "propagation_delay") if kind == "write"}
    rets = [r for r in b.return_blocks() if not b.blocks[r].get("cleanup")]
    bad = [r for r in rets if not b.every_path_passes(0, r, wr)]
    rep.ob(P, "delay-assigned-on-every-exit" + tag, bool(wr) and bool(rets) and not bad, "every return of configure_subdevice_offsets is preceded by propagation_delay <- *delay_accum on every path (%d write sites, %d returns)" % (len(wr), len(rets)), loc=b.span)
    # every write through *delay_accum is a saturating_add of the previous value
    ok = True
    cnt = 0
    for bi in sorted(b.live_blocks()):
        for si, s in enumerate(b.stmts(bi)):
            if s["k"] == "assign" and s["place"]["l"] == 3 and "*" in s["place"]["p"]:
                cnt += 1
                r = Prov(b)._of_rvalue(s["rv"])
                good = any(x[0] == "call" and x[1].endswith("::saturating_add") for x in r)
                ok = ok and good
        t = b.term(bi)
        if t["k"] == "call" and t["dest"]["l"] == 3 and "*" in t["dest"]["p"]:
            cnt += 1
            from ..core import Call

            c = Call(b, bi, t)
            good = (c.decl_s or "").endswith("::saturating_add") and has_root(Prov(b).of_operand(c.args[0]), "arg", 3)
            ok = ok and good
    rep.ob(P, "accumulator-monotone" + tag, ok and cnt >= 1, "*delay_accum changes only by delay_accum.saturating_add(unsigned) (%d write sites): the programmed delay never decreases in processing order" % cnt, loc=b.span, how="dataflow")
    # no subtraction from the accumulator
    mut_refs = [c for c in b.calls() if c.bb in b.live_blocks() and any((op_place(a) or {}).get("l") == 3 and not (op_place(a) or {}).get("p") for a in c.args)]
    rep.ob(P, "accumulator-not-lent" + tag, not mut_refs, "the &mut accumulator is not handed to another function", loc=b.span, how="inventory", nontrivial=False)


def registers(prog, rep, tag):
    P = "C17.regs"
    b = prog.async_body("dc::write_dc_parameters")
    sends = b.calls_to("WrappedWrite::send")
    ok = len(sends) == 2
    seen = {}
    if ok:
        for s in sends:
            pr = Prov(b, follow_all={"Command::fpwr", "WrappedWrite::ignore_wkc", "Writes::wrap"})
            who = pr.of_operand(s.args[0])
            val = pr.of_operand(s.args[2])
            reg = [r for r in who if r[0] == "agg" and r[1] == "RegisterAddress"]
            for r in reg:
                seen[r[2]] = val
        off = seen.get("DcSystemTimeOffset", frozenset())
        for x in list(off):
            if x[0] == "call" and x[1].endswith("wrapping_sub"):
                for c in b.calls():
                    if c.bb == x[2]:
                        # minuend must be `now`, subtrahend the latched receive time
                        m, sb = Prov(b).of_operand(c.args[0]), Prov(b).of_operand(c.args[1])
                        if has_root(m, "arg", 4) or any(r[0] == "upvar" and r[2] == "now_nanos" for r in m):
                            if has_root(sb, "field", "SubDevice", "dc_receive_time"):
                                off = off | m | sb
        dly = seen.get("DcSystemTimeTransmissionDelay", frozenset())
        c1 = (has_root(off, "arg", 4) or any(r[0] == "upvar" and r[2] == "now_nanos" for r in off)) and has_root(off, "field", "SubDevice", "dc_receive_time") and (any(x[0] == "call" and x[1].endswith("wrapping_sub") for x in off) or has_root(off, "binop", "Sub"))
        c2 = has_root(dly, "field", "SubDevice", "propagation_delay") and not has_root(dly, "binop")
        ok = c1 and c2
    rep.ob(P, "offset-and-delay" + tag, ok, "DcSystemTimeOffset <- now - dc_receive_time; DcSystemTimeTransmissionDelay <- propagation_delay (registers seen: %s)" % sorted(seen), loc=b.span, how="dataflow")
    v1 = [a for p, a in prog.adts.items() if p.endswith("register::RegisterAddress")]
    if v1:
        d = {v["name"]: v.get("discr") for v in v1[0]["variants"]}
        rep.ob(P, "register-addresses" + tag, d.get("DcSystemTimeOffset") == 0x0920 and d.get("DcSystemTimeTransmissionDelay") == 0x0928 and d.get("DcReceiveTime") in (0x0918, None) and d.get("DcTimePort0") == 0x0900, "0x0900 port times, 0x0920 offset, 0x0928 delay (from rustc's discriminants)", how="table")
    # reference = first DC capable device
    cd = prog.async_body("dc::configure_dc")
    finds = [c for c in cd.calls() if c.is_("Iterator::find") or (c.decl_s or "").endswith("::find")]
    ok = False
    for c in finds:
        cl = [a for a in c.args[1:] if (op_place(a) or {}).get("l") in Prov(cd).body.defs()]
        # the predicate closure calls dc_support().any()
        for g in prog.group("dc::configure_dc"):
            if g.is_closure and g.calls_to("SubDevice::dc_support") and [x for x in g.calls() if (x.decl_s or "").endswith("::any")]:
                ok = True
    rep.ob(P, "reference-is-first-dc" + tag, ok and bool(finds), "the reference clock is found with iter().find(|s| s.dc_support().any()): the first DC-capable SubDevice", loc=cd.span)


def parent_search(prog, rep, tag):
    """'derived from that device's true upstream neighbour': in discovery (depth first) order the upstream
    neighbour of a device that follows a line end is the nearest earlier junction that still has a
    downstream port without a child.  Necessary structure: the search runs backwards from the device, and
    its predicate looks at the assignment state of the candidate's ports, not only at its port count."""
    P = "C17.parent"
    b = prog.body("dc::find_subdevice_parent")
    pr = Prov(b)
    d = {}
    finds = [c for c in b.calls() if (c.decl_s or "").split("::")[-1] in ("find", "rfind", "find_map", "position", "rposition")]
    d["one-search"] = len(finds) == 1
    if len(finds) == 1:
        c = finds[0]
        name = (c.decl_s or "").split("::")[-1]
        recv = pr.of_operand(c.args[0])
        backwards = name in ("rfind", "rposition") or has_root(recv, "call", "Iterator::rev") or "Rev<" in (c.t.get("self_ty") or "") or "Rev<" in (c.t.get("gargs") or "")
        d["searches-backwards"] = bool(backwards)
        d["over-the-preceding-devices"] = has_root(Prov(b, follow_all={"slice::iter", "Iterator::rev", "IntoIterator::into_iter", "Iterator::by_ref", "slice::split_last", "slice::split_first", "slice::get", "Index::index"}).of_operand(c.args[0]), "arg", 1)
        # the predicate closure(s) of this function: junction test and free-port test
        preds = [g for g in prog.group("dc::find_subdevice_parent") if g.is_closure and g.calls_to("Topology::is_junction")]
        d["predicate:is-junction"] = len(preds) == 1
        free = False
        if len(preds) == 1:
            # bodies reachable from the predicate closure itself (not from the enclosing function)
            seen, todo = {preds[0].path: preds[0]}, [(preds[0], 0)]
            while todo:
                g, depth = todo.pop()
                if depth >= 3:
                    continue
                for c in g.calls():
                    t = prog.by_path.get(c.res) or prog.by_path.get(c.decl)
                    if t is None:
                        continue
                    for h in prog.groups[t.root]:
                        if h.path not in seen:
                            seen[h.path] = h
                            todo.append((h, depth + 1))
            for g in seen.values():
                if [a for a in q.field_accesses(g, "Port", "downstream_to") if a[2] in ("read", "addr")]:
                    free = True
        d["predicate:has-unassigned-port"] = free
        # ... and the port it counts as free is never the entry port (whose downstream_to is always None: counting it
        # makes every junction look free and the search stops at a fully populated inner fork)
        excl = False
        for g in seen.values():
            if not (g.is_closure and g.locals[0]["ty"] == "bool"):
                continue
            # (edition 2024 closures capture `entry_port.number` itself, so the other side is an upvar)
            sites = q.comparison_sites(g, lambda x, y: has_root(x, "field", "Port", "number") and (has_root(y, "field", "Port", "number") or any(r[0] == "upvar" for r in y)) and x != y)
            for s_ in sites:
                flow = q.BoolFlow(g, s_[0], s_[1], {s_[2]: s_[3]})
                rets = [rb for rb in g.return_blocks() if rb in flow.in_state or rb == s_[0]]
                if rets and all(flow.value_at(rb, len(g.stmts(rb)), {"copy": {"l": 0, "p": []}}) == 0 for rb in rets):
                    excl = True
        d["predicate:entry-port-excluded"] = excl
    # the line-end test that selects between "previous device" and "search"
    le = [cd for cd in q.conds(b) if cd.kind == "call" and cd.call is not None and cd.call.is_("PartialEq::eq", "PartialEq::ne") and any(x[0] == "agg" and x[1] == "Topology" and x[2] == "LineEnd" for a in cd.call.args for x in pr.of_operand(a))]
    d["line-end-test"] = len(le) == 1
    if len(le) == 1 and len(finds) == 1:
        is_eq = le[0].call.is_("PartialEq::eq")
        on_le = le[0].true_target() if is_eq else le[0].false_target()
        d["search-only-after-line-end"] = finds[0].bb in q.edge_dominated(b, le[0].bb, on_le)
    rep.ob(P, "nearest-junction-with-free-port" + tag, all(d.values()), "find_subdevice_parent: previous device unless it is a LineEnd, else the nearest preceding junction with an unassigned downstream port; %s" % d, loc=b.span)


def wrap_and_ancestor(prog, rep, tag):
    P = "C17.wrap"
    # who writes Port.dc_receive_time
    writers = {}
    for b in prog.bodies:
        if b.crate != "ethercrab":
            continue
        w = [a for a in q.field_accesses(b, "Port", "dc_receive_time") if a[2] in ("write", "addr_mut")]
        if w:
            writers[b.root_short] = (b, w)
    only = set(writers) <= {"Ports::set_receive_times"}
    rep.ob(P, "latches-written-in-one-place" + tag, only and bool(writers), "Port.dc_receive_time is written only by Ports::set_receive_times (writers: %s)" % sorted(writers), how="inventory")
    sr = prog.body("Ports::set_receive_times")
    d = {}
    raw, rebased = [], []
    grp = prog.group("Ports::set_receive_times")
    for g in grp:
        pg = Prov(g)
        for (bi, si, kind, pl) in [a for a in q.field_accesses(g, "Port", "dc_receive_time") if a[2] == "write"]:
            st = g.stmts(bi)[si] if si != "term" else None
            r = pg._of_rvalue(st["rv"]) if st is not None else pg.of_operand({"copy": g.term(bi)["dest"]})
            if any(x[0] in ("call", "via") and x[1].endswith("wrapping_sub") for x in r) or (si == "term" and g.term(bi)["k"] == "call" and (g.term(bi).get("callee") or "").endswith("wrapping_sub")):
                rebased.append((g, bi))
            else:
                raw.append((g, bi))
    d["raw-stores"] = len(raw)
    d["rebased-stores"] = len(rebased)
    # the base is chosen with modular comparisons: some body of the group compares wrapping_sub(..) results
    modular = False
    for g in grp:
        pg = Prov(g, follow_all=set())
        for cd in q.conds(g):
            if cd.kind == "cmp" and cd.op in ("Lt", "Le", "Gt", "Ge"):
                if any(x[0] == "call" and x[1].endswith("wrapping_sub") for x in pg.of_operand(cd.lhs) | pg.of_operand(cd.rhs)):
                    modular = True
        for bi in g.live_blocks():
            for st in g.stmts(bi):
                if st["k"] == "assign" and st["rv"]["k"] == "bin" and st["rv"]["op"] in ("Lt", "Le", "Gt", "Ge"):
                    if any(x[0] == "call" and x[1].endswith("wrapping_sub") for a in st["rv"]["a"] for x in pg.of_operand(a)):
                        modular = True
    d["earliest-found-modulo-2^32"] = modular
    # every rebasing store happens after the raw stores (same body: reachable; other bodies: called later)
    ok = len(rebased) >= 1 and modular
    rep.ob(P, "receive-times-rebased" + tag, ok, "set_receive_times stores the latches relative to the earliest one, found with wrapping differences, so later min/max/saturating differences cannot straddle a counter wrap; %s" % d, loc=sr.span)
    # measured from a DC capable ancestor
    P2 = "C17.chain"
    b = prog.body("dc::configure_subdevice_offsets")
    pr = Prov(b)
    pf = Prov(b, follow_all={"SubDevice::dc_support"})

    def upstream(rs):
        # a value that does not come from the SubDevice being configured (parameter 1) alone: it was looked up among the devices before it
        return any(x[0] == "call" and x[1].split("::")[-1] in ("find", "rfind", "get", "nth", "position") for x in rs) or has_root(rs, "arg", 2) or has_root(rs, "field", "SubDevice", "parent_index")

    uses = [c for c in b.calls() if c.is_("Ports::total_propagation_time", "Ports::propagation_time_to", "Ports::intermediate_propagation_time_to", "Ports::topology") and upstream(pr.of_operand(c.args[0]))]
    # feasibility instead of dominance: the walk may live in a helper that hands the ancestor back in an Option (the
    # `any()` verdict then reaches the uses through `Some(..)` / `?`); a device for which any() was false must not be
    # measured from in the same round of the walk
    guards = [c for c in b.calls() if (c.decl_s or "").endswith("DcSupport::any") and upstream(pf.of_operand(c.args[0])) and c.target is not None and not c.dest["p"]]
    good = bool(uses) and len(guards) >= 1
    for c in guards:
        no = q.BoolFlow(b, c.target, 0, {c.dest["l"]: 0}, avoid={c.bb})
        yes = q.BoolFlow(b, c.target, 0, {c.dest["l"]: 1}, avoid={c.bb})
        good = good and not any(u.bb in no.in_state for u in uses) and any(u.bb in yes.in_state for u in uses)
    rep.ob(P2, "measured-from-dc-capable-upstream" + tag, good, "configure_subdevice_offsets reads port times of an upstream SubDevice only where dc_support().any() held for it (%d uses, %d guards): a non-DC device in between is walked past instead of contributing all-zero latches" % (len(uses), len(guards)), loc=b.span)
