"""C18 - DC sync set-up and per-cycle timing arithmetic are exact and total (structural clauses)."""
from .. import nopanic, npcommon, q
from ..core import TRANSPARENT, Prov, has_root, op_place, roots_str

T2 = TRANSPARENT | {"Duration::as_nanos"}

FOLLOW = {"SubDeviceRef::write", "WrappedWrite::ignore_wkc", "SubDeviceRef::read", "Writes::wrap"}


def run(ctx, rep):
    rep.decided += [
        "reject paths: NoReference is returned before any register write; period, start delay and shift pass u32::try_from(..)? before use",
        "only SubDevices passing dc_support().any() && dc_sync != Disabled are written",
        "register <-> value table: 0x0981<-0, 0x0990<-start time, 0x09A0<-period, 0x09A4<-sync1 period only for Sync01, 0x0981<-flags; flag constants per mode",
        "start time has the shape ((t + d) / p) * p with one and the same p",
        "tx_rx_dc reports time % period and (period - offset) + shift",
        "NOPANIC over configure_dc_sync and tx_rx_dc with device time (NET) and the user's durations (USER) as untrusted sources",
    ]
    rep.undecided += ["that the written start time lies in the stated interval as a number"]
    rep.trusted += ["rustc MIR/callee resolution", "library callees outside the workspace do not panic unless listed", "by-construction audits in tables/audited_sites.json"]
    rep.assumptions += ["SYNC0 period >= 1 ns (the property's quantifier); a zero period divides by zero"]
    for cfg in ctx.configs():
        prog = ctx.prog(cfg)
        tag = "" if cfg == "default" else "@" + cfg
        rep.analysed["bodies" + tag] = len(prog.bodies)
        user = [("field", "DcConfiguration", "start_delay"), ("field", "DcConfiguration", "sync0_period"), ("field", "DcConfiguration", "sync0_shift"),
                ("field", "HasDc", "sync0_period"), ("field", "HasDc", "sync0_shift")]
        t = npcommon.taint_for(prog, extra=tuple(user))
        aud = npcommon.audited_for(ctx, prog, rep, "C18", tag)
        roots = {prog.body("SubDeviceGroup::configure_dc_sync").root, prog.body("SubDeviceGroup::tx_rx_dc").root}
        scope, sinks, stale = nopanic.run_scope(prog, rep, "C18", t, ["SubDeviceGroup::configure_dc_sync", "SubDeviceGroup::tx_rx_dc"], tag, audited=aud, within=lambda b: b.root in roots)
        npcommon.report_stale(rep, "C18", stale, tag)
        rep.floor("C18 tainted sinks" + tag, len({s.key for s in sinks}), 4)
        configure(prog, rep, tag)
        cycle(prog, rep, tag)


def _reg_of(b, send):
    pr = Prov(b, follow_all=FOLLOW)
    who = pr.of_operand(send.args[0])
    regs = sorted({r[2] for r in who if r[0] == "agg" and r[1] == "RegisterAddress"})
    return regs


def configure(prog, rep, tag):
    P = "C18.cfg"
    b = prog.async_body("SubDeviceGroup::configure_dc_sync")
    pr = Prov(b, transparent=T2, follow_all={"num::wrapping_add"})
    sends = b.calls_to("WrappedWrite::send")
    rep.floor("C18 register writes" + tag, len(sends), 5)
    # a. NoReference before any write
    ref = b.calls_to("MainDevice::dc_ref_address")
    ok = len(ref) == 1
    if ok:
        tb = ref[0].target
        cd = q.Cond(b, tb) if b.term(tb)["k"] == "switch" else None
        some = cd.variant_targets(prog).get("Some") if cd is not None and cd.kind == "discr" else None
        none = cd.variant_targets(prog).get("None") if cd is not None and cd.kind == "discr" else None
        dom = q.edge_dominated(b, tb, some) if some is not None else set()
        errs = [x for x in q.aggregates(b, "DistributedClockError", "NoReference")]
        ok = some is not None and all(s.bb in dom for s in sends) and bool(errs) and all(bi not in dom for bi, _, _ in errs)
        reads = b.calls_to("SubDeviceRef::register_read")
        ok = ok and all(r.bb in dom for r in reads)
    rep.ob(P, "no-reference-before-any-access" + tag, ok, "without a DC reference Err(NoReference) is returned and no register is read or written", loc=b.span)
    # c. try_from checks dominate every write and the HasDc construction
    tf = [c for c in b.calls() if c.is_("TryFrom::try_from")]
    checked = {}
    for c in tf:
        r = pr.of_operand(c.args[0])
        for fld in ("sync0_period", "start_delay", "sync0_shift"):
            if has_root(r, "field", "DcConfiguration", fld) and b.calls_to("Duration::as_nanos"):
                # blocks that cannot run once this conversion failed (the `?` may sit in a helper and be followed by a
                # second `?` in this function: feasibility, not dominance)
                if "u32" in b.local_ty(c.dest["l"]):
                    bad = q.feasible_after_outcome(b, c, ok=False)
                    good = q.feasible_after_outcome(b, c, ok=True)
                    checked[fld] = (set(b.live_blocks()) - bad) & good
    hasdc = q.aggregates(b, "HasDc")
    for fld in ("sync0_period", "start_delay", "sync0_shift"):
        dom = checked.get(fld)
        ok = dom is not None and all(s.bb in dom for s in sends) and bool(hasdc) and all(bi in dom for bi, _, _ in hasdc)
        rep.ob(P, "range-check:%s%s" % (fld, tag), ok, "%s passes u32::try_from(as_nanos())? before any register write and before the group is returned" % fld, loc=b.span)
    # the SYNC1 period is a 32 bit register value too: it must pass u32::try_from before it is written
    s1 = None
    for c in tf:
        r = pr.of_operand(c.args[0])
        if any(x[0] == "field" and x[-1] == "sync1_period" for x in r):
            tr = q.ok_edge_of_try(b, c)
            if tr and tr[1] is not None and "u32" in b.local_ty(c.dest["l"]):
                s1 = q.edge_dominated(b, tr[0], tr[1])
    s1_sends = [s_ for s_ in sends if "DcSync1CycleTime" in _reg_of(b, s_)]
    # the SYNC0 cycle time is sent as a u64: 8 bytes from 0x09A0, i.e. it also writes (zeroes) the SYNC1 cycle time at
    # 0x09A4.  The SYNC1 write therefore has to come after it, never before.
    s0_sends = [s_ for s_ in sends if "DcSync0CycleTime" in _reg_of(b, s_)]
    ok_order = len(s0_sends) == 1 and len(s1_sends) == 1 and s1_sends[0].bb in b.reachable_strict(s0_sends[0].bb) and not (s0_sends[0].bb in b.reachable_from(s1_sends[0].bb, avoid={c.bb for c in b.calls() if c.is_("Iterator::next")}))
    rep.ob(P, "sync1-cycle-time-after-sync0" + tag, ok_order, "within one device's configuration the 8 byte write to DcSync0CycleTime (0x09A0..0x09A8) precedes the write of the SYNC1 cycle time at 0x09A4: the other order zeroes the SYNC1 period of a SYNC0+SYNC1 device", loc=b.span)
    rep.ob(P, "range-check:sync1_period" + tag, s1 is not None and len(s1_sends) == 1 and s1_sends[0].bb in s1, "sync1_period passes u32::try_from(as_nanos())? before it is written to DcSync1CycleTime (a 4 byte register: a larger value would spill into the latch control registers behind it)", loc=b.span)
    # HasDc carries the checked values
    if hasdc:
        s = hasdc[0][2]
        r1 = pr.of_operand(q.agg_field(s, "sync0_period"))
        r2 = pr.of_operand(q.agg_field(s, "sync0_shift"))
        r3 = pr.of_operand(q.agg_field(s, "reference"))
        ok = has_root(r1, "field", "DcConfiguration", "sync0_period") and has_root(r2, "field", "DcConfiguration", "sync0_shift") and has_root(r3, "call", "MainDevice::dc_ref_address")
        ok = ok and "u64" in b.local_ty(op_place(q.agg_field(s, "sync0_shift"))["l"]) and not has_root(r1, "binop") and not has_root(r2, "binop")
        rep.ob(P, "hasdc-values" + tag, ok, "HasDc{sync0_period, sync0_shift, reference} holds the range-checked period/shift and the reference address", loc=q.loc(b, hasdc[0][0]), how="dataflow")
    # b. filter
    flt = [c for c in b.calls() if c.is_("Iterator::filter")]
    okf = False
    for g in prog.group("SubDeviceGroup::configure_dc_sync"):
        if g.is_closure and not g.coroutine and g.calls_to("SubDeviceRef::dc_support") + g.calls_to("SubDevice::dc_support") and (g.calls_to("SubDeviceRef::dc_sync") + g.calls_to("SubDevice::dc_sync")):
            anyc = [c for c in g.calls() if (c.decl_s or "").endswith("::any")]
            disc = [cd for cd in q.conds(g) if cd.kind == "discr" and "DcSync" in (cd.enum_ty or "")]
            okf = bool(anyc) and bool(disc)
    # every write's device is the loop variable of the filtered iterator (except none)
    nxt = [c for c in b.calls() if c.is_("Iterator::next") and has_root(pr.of_operand(c.args[0]), "call", "Iterator::filter")]
    okl = bool(flt) and len(nxt) == 1
    if okl:
        for s in sends:
            w = Prov(b, follow_all=FOLLOW).of_operand(s.args[0])
            okl = okl and any(r[0] == "call" and r[1].endswith("::next") for r in w)
    # the same selection written as a guard inside the loop (`if !dc_support().any() || disabled { continue }`): within
    # one iteration no register write is feasible after any() returned false, nor on the Disabled edge of a test of the
    # device's DcSync
    okB = False
    nxt_all = [c for c in b.calls() if c.is_("Iterator::next")]
    if not (okf and okl) and nxt_all and sends:
        stop = {c.bb for c in nxt_all}
        anys = [c for c in b.calls() if (c.decl_s or "").endswith("::any") and any(x[0] == "call" and x[1].endswith("dc_support") for x in pr.of_operand(c.args[0]))]
        c1 = bool(anys) and all(not any(s_.bb in q.BoolFlow(b, c.target, 0, {c.dest["l"]: 0}, avoid=stop).in_state for s_ in sends) for c in anys if c.target is not None)
        c2 = False
        for cd in q.conds(b):
            if cd.kind == "discr" and "DcSync" in (cd.enum_ty or ""):
                t = cd.variant_targets(prog).get("Disabled")
                if t is not None and not any(s_.bb in q.BoolFlow(b, t, 0, {}, avoid=stop).in_state for s_ in sends):
                    c2 = True
        c3 = all(any(r[0] == "call" and r[1].endswith("::next") for r in Prov(b, follow_all=FOLLOW).of_operand(s_.args[0])) for s_ in sends)
        okB = c1 and c2 and c3
    rep.ob(P, "only-dc-devices" + tag, (okf and okl) or okB, "every register write addresses a device for which dc_support().any() held and dc_sync is not Disabled (iterator filter, or a guard at the top of the loop body)", loc=b.span)
    # e. register table
    regvals = {}
    order = []
    for s in sorted(sends, key=lambda c: c.bb):
        regs = _reg_of(b, s)
        val = pr.of_operand(s.args[2])
        for r in regs:
            regvals.setdefault(r, []).append((s, val))
            order.append(r)
    adt = [a for p, a in prog.adts.items() if p.endswith("register::RegisterAddress")][0]
    disc = {v["name"]: v.get("discr") for v in adt["variants"]}
    want = {"DcSyncActive": 0x0981, "DcSyncStartTime": 0x0990, "DcSync0CycleTime": 0x09A0, "DcSync1CycleTime": 0x09A4, "DcSystemTime": 0x0910}
    rep.ob(P, "register-addresses" + tag, all(disc.get(k) == v for k, v in want.items()), "RegisterAddress discriminants (from rustc): %s" % {k: hex(disc.get(k) or 0) for k in want}, how="table")
    ok = set(regvals) == {"DcSyncActive", "DcSyncStartTime", "DcSync0CycleTime", "DcSync1CycleTime"} and len(regvals.get("DcSyncActive", [])) == 2
    d = {}
    if ok:
        act = regvals["DcSyncActive"]
        first, last = act[0], act[1]
        c0 = q.const_int(first[0].args[2]) == 0 and all(b.dominates(first[0].bb, s.bb) for s in sends)
        st = regvals["DcSyncStartTime"][0][1]
        # d. shape ((t + d) / p) * p
        c1 = ((has_root(st, "binop", "Mul") and has_root(st, "binop", "Div")) or (has_root(st, "binop", "Sub") and has_root(st, "binop", "Rem"))) and (has_root(st, "via", "num::wrapping_add") or has_root(st, "binop", "Add"))
        c1 = c1 and has_root(st, "field", "DcConfiguration", "sync0_period") and has_root(st, "field", "DcConfiguration", "start_delay") and (has_root(st, "await", "SubDeviceRef::register_read") or has_root(st, "call", "SubDeviceRef::register_read"))
        c1 = c1 and _same_p(b)
        c1 = c1 and _start_shape(b, regvals["DcSyncStartTime"][0][0].args[2], d)
        p0 = regvals["DcSync0CycleTime"][0][1]
        c2 = has_root(p0, "field", "DcConfiguration", "sync0_period") and not has_root(p0, "binop")
        s1c, s1 = regvals["DcSync1CycleTime"][0]
        c3 = has_root(s1, "field", "DcSync", "sync1_period") or any(r[0] == "field" and r[2] == "sync1_period" for r in s1)
        # sync1 write only on the Sync01 arm
        c4 = False
        for cd in q.conds(b):
            if cd.kind == "discr" and "DcSync" in (cd.enum_ty or ""):
                vt = cd.variant_targets(prog)
                t01 = vt.get("Sync01")
                if t01 is not None and s1c.bb in q.edge_dominated(b, cd.bb, t01):
                    c4 = True
                    # f. flags per arm
                    fl = last[1]
                    d["flags-roots"] = roots_str(fl)[:8]
        fl = last[1]
        c5 = any(r[0] == "const" and "SYNC0_ACTIVATE" in str(r[1]) and r[-1] == 2 for r in fl) and any(r[0] == "const" and "CYCLIC_OP_ENABLE" in str(r[1]) and r[-1] == 1 for r in fl) and any(r[0] == "const" and "SYNC1_ACTIVATE" in str(r[1]) and r[-1] == 4 for r in fl) and has_root(fl, "binop", "BitOr")
        c6 = all(b.dominates(s.bb, last[0].bb) for s in sends if s is not last[0] and s is not s1c) and last[0].bb in b.reachable_strict(s1c.bb)
        d.update({"disable-first": c0, "start-shape": c1, "period": c2, "sync1-value": c3, "sync1-only-Sync01": c4, "flags": c5, "activate-last": c6})
        ok = all(v for k, v in d.items() if k != "flags-roots")
    rep.ob(P, "register-value-table" + tag, ok, "writes per device: 0x0981<-0 first, 0x0990<-((t+d)/p)*p, 0x09A0<-p, 0x09A4<-sync1 period iff Sync01, 0x0981<-flags last; %s" % d, loc=b.span, how="dataflow")
    # flags per arm: SYNC1 only on the Sync01 arm
    okf2 = False
    for cd in q.conds(b):
        if cd.kind == "discr" and "DcSync" in (cd.enum_ty or ""):
            vt = cd.variant_targets(prog)
            t01 = vt.get("Sync01")
            if t01 is None:
                continue
            dom01 = q.edge_dominated(b, cd.bb, t01)
            with1 = []
            without = []
            for bi in sorted(b.live_blocks()):
                for s in b.stmts(bi):
                    if s["k"] == "assign" and s["rv"]["k"] == "bin" and s["rv"]["op"] == "BitOr":
                        r = pr._of_rvalue(s["rv"])
                        has1 = any(x[0] == "const" and "SYNC1_ACTIVATE" in str(x[1]) for x in r)
                        (with1 if has1 else without).append(bi)
            okf2 = bool(with1) and all(x in dom01 for x in with1) and bool(without) and all(x not in dom01 for x in without)
    rep.ob(P, "flags-per-mode" + tag, okf2, "SYNC1_ACTIVATE is ORed in only on the Sync01 arm; the other arm uses SYNC0_ACTIVATE | CYCLIC_OP_ENABLE", loc=b.span)


def _start_shape(b, operand, d):
    """The value written to DcSyncStartTime is floor((t + d) / p) * p as a tree, not merely built from
    t, d and p: rounding happens once, after the sum (rounding the terms separately can be a whole period
    early)."""
    pr = Prov(b, follow_all={"Duration::as_nanos", "TryFrom::try_from", "From::from"})
    t = q.expr_tree(b, operand, prov=pr)

    def is_leaf(x, *want):
        return x[0] == "leaf" and all(any(w in str(r) for r in x[1]) for w in want)

    def is_sum(x):
        if x[0] != "Add":
            return False
        a, c = x[1], x[2]
        return (is_leaf(a, "register_read") and is_leaf(c, "start_delay")) or (is_leaf(c, "register_read") and is_leaf(a, "start_delay"))

    def is_p(x):
        return is_leaf(x, "sync0_period")

    ok = False
    if t[0] == "Mul":
        for q_, p2 in ((t[1], t[2]), (t[2], t[1])):
            if q_[0] == "Div" and is_sum(q_[1]) and is_p(q_[2]) and is_p(p2):
                ok = True
    if t[0] == "Sub" and is_sum(t[1]) and t[2][0] == "Rem" and t[2][1] == t[1] and is_p(t[2][2]):
        ok = True
    d["start-tree"] = q.tree_str(t)
    return ok


def _same_p(b):
    """The divisor of the Div and the multiplier of the Mul are the same value."""
    div = mul = None
    for bi in sorted(b.live_blocks()):
        for s in b.stmts(bi):
            if s["k"] == "assign" and s["rv"]["k"] == "bin":
                op = s["rv"]["op"].replace("WithOverflow", "")
                if op == "Div" and "u64" in s["rv"].get("lty", ""):
                    div = s["rv"]["a"][1]
                if op == "Mul" and "u64" in s["rv"].get("lty", ""):
                    mul = s["rv"]["a"]
                if op == "Rem" and "u64" in s["rv"].get("lty", ""):
                    return True  # x - x % p: one p by construction (the tree shape is checked by _start_shape)
    if div is None or mul is None:
        return False
    return any(nopanic._same_value(b, div, m) or Prov(b).of_operand(div) == Prov(b).of_operand(m) for m in mul)


def cycle(prog, rep, tag):
    P = "C18.cycle"
    b = prog.async_body("SubDeviceGroup::tx_rx_dc")
    pr = Prov(b, transparent=TRANSPARENT | {"Duration::from_nanos"})
    ci = q.aggregates(b, "CycleInfo")
    ok = len(ci) == 1
    d = {}
    if ok:
        s = ci[0][2]
        off = pr.of_operand(q.agg_field(s, "cycle_start_offset"))
        nxt = pr.of_operand(q.agg_field(s, "next_cycle_wait"))
        tm = pr.of_operand(q.agg_field(s, "dc_system_time"))
        d["offset"] = has_root(off, "binop", "Rem") and has_root(off, "field", "HasDc", "sync0_period") and not has_root(off, "binop", "Add") and not has_root(off, "binop", "Sub")
        d["wait"] = has_root(nxt, "binop", "Sub") and has_root(nxt, "binop", "Add") and has_root(nxt, "binop", "Rem") and has_root(nxt, "field", "HasDc", "sync0_period") and has_root(nxt, "field", "HasDc", "sync0_shift") and not has_root(nxt, "binop", "Mul")
        # time comes from the response to the FRMW datagram
        d["time"] = any(r[0] == "call" and r[1].endswith("unpack_from_slice") for r in tm) or has_root(tm, "call", "Iterator::next") or any(r[0] == "call" for r in tm)
        # exact shapes: Rem(time, period); Sub(period, offset); Add(sub, shift)
        shapes = {"rem": False, "sub": False, "add": False}
        for bi in sorted(b.live_blocks()):
            for st in b.stmts(bi):
                if st["k"] != "assign" or st["rv"]["k"] != "bin":
                    continue
                op = st["rv"]["op"].replace("WithOverflow", "")
                a0, a1 = pr.of_operand(st["rv"]["a"][0]), pr.of_operand(st["rv"]["a"][1])
                if op == "Rem" and has_root(a1, "field", "HasDc", "sync0_period") and not has_root(a0, "field", "HasDc", "sync0_period"):
                    shapes["rem"] = True
                if op == "Sub" and has_root(a0, "field", "HasDc", "sync0_period") and not has_root(a0, "binop") and has_root(a1, "binop", "Rem"):
                    shapes["sub"] = True
                if op == "Add" and has_root(a0, "binop", "Sub") and has_root(a1, "field", "HasDc", "sync0_shift") and not has_root(a1, "binop"):
                    shapes["add"] = True
        d.update(shapes)
        ok = all(d.values())
    rep.ob(P, "cycle-info" + tag, ok, "CycleInfo{cycle_start_offset: time mod period, next_cycle_wait: (period - offset) + shift}; %s" % d, loc=b.span, how="dataflow")
