"""C06 - deadlines and retries: poll order, error-only on expiry, retry bookkeeping, exclusive-store rule (S7)."""
from .. import q, slotfsm
from ..core import Prov, has_root, op_place, roots_str


def run(ctx, rep):
    rep.decided += [
        "poll: the RxDone test precedes the timer poll; Ready(Ok) only on the success edge of RxDone->RxProcessing; expiry with no retries left releases and returns Err(Timeout)",
        "retry path: re-arm timer, poll it once (re-waking the task if it is already due), re-queue the frame by compare-exchange Sent -> Sendable, wake the sender only then, decrement retries_left by exactly one; retries_left written only there and from the constructor argument",
        "a reply nobody waits for any more (expired, dropped, duplicate) is Ok(Ignored) in receive_frame, not an error: the shipped TX/RX tasks end on any Err from receive_frame",
        "RetryBehaviour::retry_count maps None/Count(n)/Forever to 0/n/usize::MAX",
        "send_blocking changes the slot state only after the send closure returned, never reads the buffer afterwards, and ends in exactly one of mark_sent / release_sending_claim (S4/S6 transmit side)",
        "S7 every plain store to the slot state is made by a sole holder or under reset's unsafe contract (reports the stores that can race with the transmit/receive side)",
    ]
    rep.undecided += ["transmission counts and byte-identical retransmission as observed values", "all positions of a deadline under virtual time"]
    rep.trusted += ["rustc MIR/callee resolution", "holder-state table in sa/slotfsm.py (derived by hand from S1/S2)"]
    for cfg in ctx.configs():
        prog = ctx.prog(cfg)
        tag = "" if cfg == "default" else "@" + cfg
        rep.analysed["bodies" + tag] = len(prog.bodies)
        sites = slotfsm.transitions(prog)[0]
        rep.floor("C06 state-change sites" + tag, len(sites), 13)
        slotfsm.s7(prog, rep, "C06", sites, tag)
        slotfsm.s6_poll(prog, rep, "C06", tag)
        # the transmit side hands the slot on (->Sent: the receive side may now write into it, a retry may requeue it)
        # only after the network driver has finished reading the bytes, and resolves its claim exactly once
        slotfsm.s4(prog, rep, "C06", tag, parts=("send_blocking",))
        slotfsm.s6_send(prog, rep, "C06", tag)
        poll_rules(prog, rep, tag)
        retry_count(prog, rep, tag)
        late_replies(prog, rep, tag)


def poll_rules(prog, rep, tag):
    P = "C06.poll"
    b = prog.body("<ReceiveFrameFut as Future>::poll")
    pr = Prov(b)
    sw = [c for c in b.calls_to("FrameBox::swap_state") if slotfsm._state_of(pr.of_operand(c.args[1])) == ["RxDone"]]
    tp = [c for c in b.calls() if c.is_("Future::poll", "FutureExt::poll") and has_root(pr.of_operand(c.args[0]), "field", "ReceiveFrameFut", "timeout_timer")]
    ok = len(sw) == 1 and len(tp) >= 1 and all(b.dominates(sw[0].bb, t.bb) for t in tp)
    rep.ob(P, "done-test-before-timer" + tag, ok, "the RxDone->RxProcessing test dominates every poll of the timeout timer: a response already received wins over the deadline", loc=b.span)
    rep.floor("C06 timer polls in poll" + tag, len(tp), 1)
    # Ready(Ok(..)) only on success edge
    oks = [x for x in q.aggregates(b, "Result", "Ok")]
    good = bool(oks) and len(sw) == 1
    if good:
        tb = sw[0].target
        cd = q.Cond(b, tb) if b.term(tb)["k"] == "switch" else None
        okedge = cd.variant_targets(prog).get("Ok") if cd is not None and cd.kind == "discr" else None
        good = okedge is not None and all(bi in q.edge_dominated(b, tb, okedge) for bi, _, _ in oks)
    rep.ob(P, "ready-ok-only-after-response" + tag, good, "Poll::Ready(Ok(_)) is built only on the success edge of the RxDone->RxProcessing compare-exchange: a missing response can never resolve to success", loc=b.span)
    # retry path
    writes = [x for x in q.field_accesses(b, "ReceiveFrameFut", "retries_left") if x[2] == "write"]
    okw = len(writes) == 1
    d = ""
    if okw:
        bi, si, _, _ = writes[0]
        s = b.stmts(bi)[si]
        r = pr._of_rvalue(s["rv"])
        # value written = retries_left - 1 (checked sub produces a tuple; follow through)
        csubs = [c for c in b.calls() if (c.decl_s or "").endswith("::checked_sub") and any(x[0] == "call" and x[1].endswith("::checked_sub") and len(x) > 2 and x[2] == c.bb for x in r)]
        if csubs:
            # `let Some(left) = self.retries_left.checked_sub(1) else { give up }; ..; self.retries_left = left`
            okw = all(q.const_int(c.args[1]) == 1 and has_root(pr.of_operand(c.args[0]), "field", "ReceiveFrameFut", "retries_left") for c in csubs)
        else:
            okw = has_root(r, "field", "ReceiveFrameFut", "retries_left") and (has_root(r, "binop", "SubWithOverflow") or has_root(r, "binop", "Sub")) and has_root(r, "const", 1)
        # on the path: timer re-armed, polled, Sendable stored, sender woken; all dominate the decrement and lie on retries_left != 0 edge
        arm = [x for x in q.field_accesses(b, "ReceiveFrameFut", "timeout_timer") if x[2] == "write"]
        # re-queue: compare-exchange Sent -> Sendable (a response that is arriving or has arrived is not overwritten)
        st = [c for c in b.calls_to("FrameBox::swap_state") if slotfsm._state_of(pr.of_operand(c.args[1])) == ["Sent"] and slotfsm._state_of(pr.of_operand(c.args[2])) == ["Sendable"]]
        plain = [c for c in b.calls_to("FrameBox::set_state") if slotfsm._state_of(pr.of_operand(c.args[1])) == ["Sendable"]]
        wk = b.calls_to("PduLoop::wake_sender")
        # the re-armed timer must get polled with its expiry handled: either this future asks to be polled
        # again right away (wake_by_ref after the re-arm; the poll at the top of the next call handles a timer
        # that is already due), or it polls the new timer here and acts on Ready.  A poll whose result is
        # thrown away loses the expiry of a timer that is due at once.
        selfwake = [c for c in b.calls() if (c.decl_s or "").endswith("Waker::wake_by_ref") and arm and c.bb in b.reachable_strict(arm[0][0]) and b.dominates(arm[0][0], c.bb)]
        tp_after = [t for t in tp if arm and t.bb in b.reachable_strict(arm[0][0]) and b.dominates(arm[0][0], t.bb)]
        used = []
        for t in tp_after:
            if any(cd.bb in b.reachable_strict(t.bb) and any(x[0] == "call" and len(x) > 2 and x[2] == t.bb for x in Prov(b, follow_all={"Poll::is_ready", "Poll::is_pending"}).of_operand(cd.t["d"] if cd.kind != "discr" else {"copy": cd.place})) for cd in q.conds(b)):
                used.append(t)
        tp2 = selfwake or used
        parts = {"rearm": bool(arm), "new-timer-polled-with-expiry-handled": bool(tp2) and not (tp_after and not used and not selfwake), "requeue-by-cas-from-Sent": len(st) == 1 and not plain, "wake": len(wk) == 1}
        if all(parts.values()):
            seq = [arm[0][0], tp2[0].bb, st[0].bb, bi]
            inorder = all(b.dominates(seq[i], seq[i + 1]) for i in range(len(seq) - 1))
            # the sender is woken only where the re-queue took place, and the retry is consumed either way
            okw_edge = False
            pf = Prov(b, follow_all={"Result::is_ok", "Result::is_err"})
            for cd in q.conds(b):
                opnd = pf.of_operand(cd.t["d"]) if cd.kind != "discr" else pf.of_operand({"copy": cd.place})
                if any(x[0] == "call" and x[1] == "FrameBox::swap_state" and x[2] == st[0].bb for x in opnd):
                    neg = any(x[0] == "via" and x[1].endswith("is_err") for x in opnd)
                    tgt = cd.variant_targets(prog).get("Ok") if cd.kind == "discr" else (cd.false_target() if neg else cd.true_target())
                    if tgt is not None and wk[0].bb in q.edge_dominated(b, cd.bb, tgt):
                        okw_edge = True
            parts["wake-only-if-requeued"] = okw_edge
            parts["in-order"] = inorder
            # the retry is used up on *every* way out of the expired-timer branch, re-queued or not: a frame the
            # sender never picks up (or that is still being sent) must still run out of retries and time out
            rets = [rb for rb in b.return_blocks() if rb in b.reachable_from(arm[0][0])]
            parts["retry-consumed-on-every-path"] = bool(rets) and all(b.every_path_passes(arm[0][0], rb, {bi}) for rb in rets)
            # new timer made from the stored timeout
            ra = b.stmts(arm[0][0])[arm[0][1]]
            rr = pr._of_rvalue(ra["rv"]) if ra["k"] == "assign" else frozenset()
            parts["timer-from-timeout"] = has_root(rr, "call", "timer_factory::timer")
        d = str(parts)
        okw = okw and all(parts.values())
    rep.ob(P, "retry-bookkeeping" + tag, okw, "the retry path re-arms the timer from self.timeout, polls it once, re-queues the frame by compare-exchange Sent -> Sendable (waking the sender only then) and decrements retries_left by exactly one; " + d, loc=b.span)
    # retries_left writers across the crate: constructor + that decrement
    n = 0
    for x in prog.bodies:
        if x.crate != "ethercrab":
            continue
        for a in q.field_accesses(x, "ReceiveFrameFut", "retries_left"):
            if a[2] in ("write", "addr_mut"):
                n += 1
                rep.ob(P, "retries_left-writer:%s%s" % (x.root_short, tag), x.root_short == "<ReceiveFrameFut as Future>::poll", "retries_left written in %s" % x.root_short, loc=q.loc(x, a[0]), how="inventory", nontrivial=False)
    ms = prog.body("CreatedFrame::mark_sendable")
    ag = q.aggregates(ms, "ReceiveFrameFut")
    okc = len(ag) == 1 and has_root(Prov(ms).of_operand(q.agg_field(ag[0][2], "retries_left")), "arg", 4) and has_root(Prov(ms).of_operand(q.agg_field(ag[0][2], "timeout")), "arg", 3)
    rep.ob(P, "ctor-retries-from-arg" + tag, okc, "the future starts with retries_left = the `retries` argument and timeout = the `timeout` argument", loc=ms.span, how="dataflow")
    # callers pass retry_count()
    sp = prog.async_body("MainDevice::single_pdu")
    c = sp.calls_to("CreatedFrame::mark_sendable")
    okr = len(c) == 1 and has_root(Prov(sp).of_operand(c[0].args[3]), "call", "RetryBehaviour::retry_count")
    rep.ob(P, "single_pdu-uses-retry_count" + tag, okr, "single_pdu hands config.retry_behaviour.retry_count() to mark_sendable", loc=sp.span, how="dataflow")


def retry_count(prog, rep, tag):
    """The mapping is read off by interpreting the method's MIR for each variant of RetryBehaviour (payload = the
    symbol n), so a `match`, an `if let` over a helper returning Option, or named constants all give the same table."""
    P = "C06.retry_count"
    b = prog.body("RetryBehaviour::retry_count")
    tb = q.enum_table(b, prog, "RetryBehaviour")
    want = {"None": 0, "Count": "n", "Forever": 18446744073709551615}
    rep.ob(P, "mapping" + tag, tb == want, "retry_count maps None->0, Count(n)->n, Forever->usize::MAX; evaluated %s" % (tb if tb is not None else "a body outside the interpretable fragment"), loc=b.span, how="table")


def late_replies(prog, rep, tag):
    """'Expiry or abandonment ... never breaks the transmit/receive tasks': every shipped TX/RX task returns
    (ends) when PduRx::receive_frame returns Err.  After a request expired or was dropped its reply can still
    arrive; after a retry both replies can arrive.  Those frames find no slot awaiting them: the three places
    where receive_frame discovers that (lookup finds nothing, the claim fails, the marker changed after the
    claim) must answer Ok(Ignored)."""
    P = "C06.rx"
    b = prog.body("PduRx::receive_frame")
    pr = Prov(b)
    ign = {x[0] for x in q.aggregates(b, "ReceiveAction", "Ignored")}
    errs = {c.bb for c in b.calls() if c.is_("FromResidual::from_residual")} | {x[0] for x in q.aggregates(b, "Result", "Err")}
    edges = {}
    for cd in q.conds(b):
        if cd.kind == "discr":
            r = pr.of_operand({"copy": cd.place})
            for nm, key in (("PduStorageRef::frame_index_by_first_pdu_index", "lookup-found-nothing"), ("PduStorageRef::claim_receiving", "claim-failed")):
                if any(x[0] == "call" and x[1] == nm for x in r) and "Option" in (cd.enum_ty or ""):
                    t = cd.variant_targets(prog).get("None")
                    if t is not None:
                        edges[key] = (cd.bb, t)
        elif cd.kind == "call" and cd.call is not None:
            t_ = prog.by_path.get(cd.call.res) or prog.by_path.get(cd.call.decl)
            reach = cd.call.is_("FrameElement::first_pdu_is") or (t_ is not None and any(x.calls_to("FrameElement::first_pdu_is") for x in prog.callees_closure([t_], depth=3)))
            if reach and has_root(pr.of_operand(cd.call.args[0]), "call", "PduStorageRef::claim_receiving"):
                edges["marker-changed-after-claim"] = (cd.bb, cd.false_target())
    for key in ("lookup-found-nothing", "claim-failed", "marker-changed-after-claim"):
        e = edges.get(key)
        ok = False
        if e is not None and e[1] is not None:
            dom = q.edge_dominated(b, e[0], e[1])
            ok = bool(dom & ign) and not (dom & errs)
        rep.ob(P, "%s:ignored-not-error%s" % (key, tag), ok, "receive_frame answers Ok(Ignored) where %s (an Err would end the TX/RX task that called it)" % key.replace("-", " "), loc=b.span, how="path")
    # the claim made for a frame that is then ignored is handed back (checked by S4 under C05/C01)
    # inventory: the shipped tasks that end on Err
    users = sorted({c.body.root_short for c in prog.calls_of("PduRx::receive_frame") if c.body.crate == "ethercrab"})
    rep.analysed["receive_frame callers" + tag] = users
