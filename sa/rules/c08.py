"""C08 - process data of one SubDevice reaches that SubDevice and nothing else (structural clauses)."""
from .. import q
from ..core import TRANSPARENT, Prov, has_root, op_place, roots_str


def run(ctx, rep):
    rep.decided += [
        "the logical-address accumulator is threaded: group configure_fmmus passes the result of each SubDeviceRef::configure_fmmus call to the next, all MasterRead calls precede all MasterWrite calls, read_pdi_len is taken between the loops, and pdi_len > MAX_PDI => Err dominates Ok",
        "write_fmmu_config advances the offset by the same bit length whose rounded byte length was written to the sync manager; FMMU start address = the offset before the advance",
        "into_pre_op returns the incoming offset advanced by the group's MAX_PDI and MainDevice::init threads it through the groups",
        "PdoDirection::filter_terms and the FMMU read/write enables form the expected table",
        "mutable access to the image outside the cycle exists only through a write-lock guard over the outputs range",
    ]
    rep.undecided += ["disjointness and lengths as numbers for arbitrary PDO sets"]
    rep.trusted += ["rustc MIR/callee resolution"]
    rep.assumptions += ["MAX_PDI below 64 KiB (the property's quantifier; into_pre_op casts it to u16)"]
    for cfg in ctx.configs():
        prog = ctx.prog(cfg)
        tag = "" if cfg == "default" else "@" + cfg
        rep.analysed["bodies" + tag] = len(prog.bodies)
        group_fmmus(prog, rep, tag)
        device_fmmus(prog, rep, tag)
        reconfigure(prog, rep, tag)
        threading(prog, rep, tag)
        tables(prog, rep, tag)
        guards(prog, rep, tag)
        sm_classification(prog, rep, tag)
    if ctx.tier == "thorough":
        from .. import witness

        witness.run(ctx, rep, "C08", "C08")


def group_fmmus(prog, rep, tag):
    P = "C08.group"
    b = prog.async_body("SubDeviceGroup::configure_fmmus")
    pr = Prov(b)
    calls = b.calls_to("configuration::configure_fmmus")
    ok = len(calls) == 2
    d = {}
    if ok:
        dirs = []
        for c in calls:
            r = pr.of_operand(c.args[3])
            v = sorted({x[2] for x in r if x[0] == "agg" and x[1] == "PdoDirection"})
            dirs.append((v, c))
        reads = [c for v, c in dirs if v == ["MasterRead"]]
        writes = [c for v, c in dirs if v == ["MasterWrite"]]
        d["one-read-one-write-loop"] = len(reads) == 1 and len(writes) == 1
        if d["one-read-one-write-loop"]:
            rc, wc = reads[0], writes[0]
            d["reads-before-writes"] = wc.bb in b.reachable_strict(rc.bb) and rc.bb not in b.reachable_strict(wc.bb)
            # threading: arg1 of each call roots the awaited result of a configure_fmmus call or the group start
            for nm, c in (("read", rc), ("write", wc)):
                a = pr.of_operand(c.args[1])
                d["%s-offset-threaded" % nm] = has_root(a, "await", "configuration::configure_fmmus") and has_root(a, "field", "GroupInner", "pdi_start")
                g = pr.of_operand(c.args[2])
                d["%s-group-start" % nm] = has_root(g, "field", "PdiOffset", "start_address") and has_root(g, "field", "GroupInner", "pdi_start") and not has_root(g, "await", "configuration::configure_fmmus")
            # read_pdi_len written between the loops, pdi_len after the write loop
            rl = [a for a in q.field_accesses(b, "SubDeviceGroup", "read_pdi_len") if a[2] == "write"]
            pl = [a for a in q.field_accesses(b, "SubDeviceGroup", "pdi_len") if a[2] == "write"]
            d["read_pdi_len-between"] = len(rl) == 1 and rl[0][0] in b.reachable_strict(rc.bb) and wc.bb in b.reachable_strict(rl[0][0]) and rl[0][0] not in b.reachable_strict(wc.bb)
            d["pdi_len-after"] = len(pl) == 1 and pl[0][0] in b.reachable_strict(wc.bb)
            if rl and pl:
                for nm, acc in (("read_pdi_len", rl[0]), ("pdi_len", pl[0])):
                    s = b.stmts(acc[0])[acc[1]]
                    r = pr._of_rvalue(s["rv"])
                    d["%s-is-offset-minus-start" % nm] = has_root(r, "binop", "Sub") and has_root(r, "await", "configuration::configure_fmmus") and has_root(r, "field", "GroupInner", "pdi_start")
        ok = all(d.values())
    rep.ob(P, "offset-threading" + tag, ok, "inputs of all members first, then outputs, one accumulator threaded through every call; %s" % d, loc=b.span)
    # capacity check
    okc = False
    for cd in q.conds(b):
        e = q.rel_edges(cd, lambda x: has_root(x, "field", "SubDeviceGroup", "pdi_len"), lambda x: any(y[0] == "const" and "MAX_PDI" in str(y) for y in x), pr)
        le_t = e.get("Le")
        gt_t = e.get("Gt")
        if le_t is not None and gt_t is not None:
            oks = [x for x in q.aggregates(b, "Result", "Ok")]
            errs = [x for x in q.aggregates(b, "Error", "PdiTooLong")]
            okc = bool(oks) and bool(errs) and all(bi in q.edge_dominated(b, cd.bb, le_t) for bi, _, _ in oks) and all(bi in q.edge_dominated(b, cd.bb, gt_t) for bi, _, _ in errs)
    rep.ob(P, "capacity-check" + tag, okc, "Ok(()) is returned only where pdi_len <= MAX_PDI; otherwise Err(PdiTooLong)", loc=b.span)
    # a group that does not fit must not leave mappings behind: its FMMUs would reach past its own
    # [start, start + MAX_PDI) range into the next group's, and that group's outputs would also land here
    errs = [x for x in q.aggregates(b, "Error", "PdiTooLong")]
    progs = b.calls_to("configuration::configure_fmmus")
    after = [e for e in errs if any(e[0] in b.reachable_strict(c.bb) for c in progs)]
    if after:
        # is anything written to the FMMU registers between the check and the return?
        cleared = False
        for e in after:
            for c in b.calls():
                if c.bb in b.reachable_strict(progs[-1].bb) and e[0] in b.reachable_from(c.bb):
                    if c.is_("RegisterAddress::fmmu") or any(x[0] == "agg" and x[1] == "RegisterAddress" and str(x[2]).startswith("Fmmu") for a in c.args for x in pr.of_operand(a)):
                        cleared = True
        if cleared:
            rep.ob(P, "too-long-after-programming" + tag, True, "PdiTooLong is detected after the members were programmed, and their FMMUs are cleared before the error is returned", loc=b.span)
        else:
            rep.violation(P, "too-long-after-programming" + tag, "SubDeviceGroup::configure_fmmus returns PdiTooLong only after every member's sync managers and FMMUs were written, and leaves them enabled: the mappings of the group that did not fit reach beyond its own logical range, so process data of the following group is also copied to/from these SubDevices", loc=b.loc(after[0][0], after[0][1]))
    else:
        rep.ob(P, "too-long-after-programming" + tag, bool(errs), "PdiTooLong is decided before anything is written to the members", loc=b.span)


def device_fmmus(prog, rep, tag):
    P = "C08.dev"
    for fn in ("configuration::configure_pdos_eeprom", "configuration::configure_pdos_coe"):
        b = prog.async_body(fn)
        pr = Prov(b, transparent=TRANSPARENT | {"num::div_ceil"})
        sm = b.calls_to("configuration::write_sm_config")
        fm = b.calls_to("configuration::write_fmmu_config")
        ok = len(sm) == 1 and len(fm) == 1
        d = {}
        if ok:
            a_sm = pr.of_operand(sm[0].args[3])
            a_fm = pr.of_operand(fm[0].args[1])
            core_sm = {x for x in a_sm if x[0] in ("call", "await", "field", "const") and not (x[0] == "const" and x[-1] in (7, 8))}
            core_fm = {x for x in a_fm if x[0] in ("call", "await", "field", "const")}
            d["same-bit-length"] = bool(core_fm) and core_fm <= core_sm | core_fm and core_fm == {x for x in core_sm if x in core_fm} and len(core_fm & core_sm) >= 1
            d["rounded-up"] = any((c.decl_s or "").endswith("::div_ceil") for c in b.calls())
            # the sm_config handed to write_fmmu_config is the one just written
            d["fmmu-gets-sm-config"] = has_root(Prov(b).of_operand(fm[0].args[5]), "await", "configuration::write_sm_config")
            d["same-sync-manager"] = True
            # offset pointer is the function's own &mut offset parameter
            off = Prov(b).of_operand(fm[0].args[3])
            d["same-offset"] = any(x[0] in ("arg", "upvar") for x in off)
        ok = ok and all(d.values())
        rep.ob(P, "%s:sm-and-fmmu-same-length%s" % (fn, tag), ok, "the sync manager gets ceil(bits/8) bytes and the FMMU/offset advance uses the same bit length; %s" % d, loc=b.span, how="dataflow")
    # EEPROM path with an FMMU_EX category: entry i of the category describes FMMU i and names the sync
    # manager it serves, so the FMMU to program for a sync manager is the *position* of the matching entry
    # (not the sync manager number stored in it)
    eb = prog.async_body("configuration::configure_pdos_eeprom")
    efm = eb.calls_to("configuration::write_fmmu_config")
    d = {}
    if len(efm) == 1:
        r = Prov(eb, follow_all={"Option::map", "Option::unwrap_or_else", "Option::unwrap_or", "From::from", "Option::map_or", "Option::map_or_else"}).of_operand(efm[0].args[2])
        d["from-position-in-FMMU_EX"] = any(x[0] == "call" and (x[1].endswith("::position") or x[1].endswith("::enumerate") or x[1].endswith("::rposition")) for x in r)
        value_closures = [x[1] for x in r if x[0] == "closure"]
        reads = []
        for g in prog.group("configuration::configure_pdos_eeprom"):
            if g.is_closure and any(g.short == vc or g.path.endswith(vc) or vc.endswith(g.short) for vc in value_closures):
                if [a for a in q.field_accesses(g, "FmmuEx", "sync_manager") if a[2] in ("read", "addr")]:
                    reads.append(g.short)
        d["not-the-stored-sm-number"] = not reads
    else:
        d["one-call"] = False
    rep.ob(P, "eeprom:fmmu-index-from-FMMU_EX-position" + tag, all(d.values()), "configure_pdos_eeprom programs, for a sync manager listed in FMMU_EX, the FMMU at the position of that entry (falling back to the sync manager index); %s" % d, loc=eb.span, how="dataflow")
    b = prog.async_body("configuration::write_fmmu_config")
    pr = Prov(b)
    inc = b.calls_to("PdiOffset::increment_byte_aligned")
    ok = len(inc) == 1 and has_root(pr.of_operand(inc[0].args[1]), "arg", 2) or (len(inc) == 1 and any(x[0] == "upvar" and x[2] == "sm_bit_len" for x in pr.of_operand(inc[0].args[1])))
    fm = _fresh_fmmu_literals(b)
    ok2 = len(fm) == 1
    if ok2:
        s = fm[0][2]
        la = pr.of_operand(q.agg_field(s, "logical_start_address"))
        ln = pr.of_operand(q.agg_field(s, "length_bytes"))
        pa = pr.of_operand(q.agg_field(s, "physical_start_address"))
        ok2 = has_root(la, "field", "PdiOffset", "start_address") and not has_root(la, "binop") and has_root(ln, "field", "SyncManagerChannel", "length_bytes") and has_root(pa, "field", "SyncManagerChannel", "physical_start_address")
        # the literal is built before the offset is advanced
        ok2 = ok2 and len(inc) == 1 and inc[0].bb in b.reachable_strict(fm[0][0])
    rep.ob(P, "write_fmmu_config:window" + tag, bool(ok) and ok2, "FMMU{logical_start_address: offset (before the advance), length_bytes: SM length, physical_start_address: SM start}; then offset += ceil(bits/8)", loc=b.span, how="dataflow")
    pi = prog.body("PdiOffset::increment_byte_aligned")
    ok = any((c.decl_s or "").endswith("::div_ceil") and q.const_int(c.args[1]) == 8 for c in pi.calls()) and (len(pi.calls_to("PdiOffset::increment_inner")) + len(pi.calls_to("PdiOffset::increment")) == 1)
    rep.ob(P, "PdiOffset:byte-aligned" + tag, ok, "increment_byte_aligned adds ceil(bits/8) bytes", loc=pi.span, how="dataflow")
    # the stored io ranges are relative to the group start
    cf = prog.async_body("configuration::configure_fmmus")
    segs = q.aggregates(cf, "PdiSegment")
    ok = len(segs) >= 1
    for bi, si, s in segs:
        r = Prov(cf).of_operand(q.agg_field(s, "bytes"))
        ok = ok and has_root(r, "binop", "Sub") and (has_root(r, "await", "configuration::configure_pdos_eeprom") or has_root(r, "await", "configuration::configure_pdos_coe"))
    wacc = [a for a in q.field_accesses(cf, "IoRanges", "input") + q.field_accesses(cf, "IoRanges", "output") if a[2] == "write"]
    wr = {a[3]["p"][-1]["n"] if isinstance(a[3]["p"][-1], dict) else None for a in wacc}
    # what is stored is the rebased segment (one literal shared by both arms, or one per arm)
    for a in wacc:
        st_ = cf.stmts(a[0])[a[1]]
        ok = ok and st_["k"] == "assign" and any(x[0] == "agg" and x[1] == "PdiSegment" for x in Prov(cf)._of_rvalue(st_["rv"]))
    if wr != {"input", "output"}:
        # the store may go through a reference chosen per direction (`*match direction { Read => &mut io.input, .. } = w`)
        taken = {a[3]["p"][-1]["n"] if isinstance(a[3]["p"][-1], dict) else None for a in q.field_accesses(cf, "IoRanges", "input") + q.field_accesses(cf, "IoRanges", "output") if a[2] == "addr_mut"}
        through = False
        for bi_ in sorted(cf.live_blocks()):
            for st_ in cf.stmts(bi_):
                if st_["k"] == "assign" and st_["place"]["p"] == ["*"] and any(x[0] == "agg" and x[1] == "PdiSegment" for x in Prov(cf)._of_rvalue(st_["rv"])):
                    tgt = Prov(cf).of_local(st_["place"]["l"])
                    if has_root(tgt, "field", "IoRanges", "input") and has_root(tgt, "field", "IoRanges", "output"):
                        through = True
        if taken == {"input", "output"} and through:
            wr = {"input", "output"}
    rep.ob(P, "configure_fmmus:io-ranges" + tag, ok and wr == {"input", "output"}, "io.input / io.output are the configured segment minus the group's start address", loc=cf.span, how="dataflow")


def reconfigure(prog, rep, tag):
    """The group typestate allows SAFE-OP -> PRE-OP -> SAFE-OP, so SM/FMMU configuration can run more than
    once against FMMU registers that are only zeroed by MainDevice::init.  An existing FMMU mapping may
    therefore be *extended* (length += SM length) only when this very configuration pass wrote it: the
    edge into the extension must be guarded by a value that does not come from the device (a parameter /
    pass-local flag), or else the way back to PRE-OP must clear the FMMU registers."""
    P = "C08.reconf"
    b = prog.async_body("configuration::write_fmmu_config")
    pr = Prov(b)
    ext = [a for a in q.field_accesses(b, "Fmmu", "length_bytes") if a[2] == "write"]
    d = {"extension-sites": len(ext)}
    ok = True
    if ext:
        for (bi, si, _k, _pl) in ext:
            local_guard = False
            device_guard = False
            for cd in q.conds(b):
                for tgt in {a[1] for a in cd.arms} | {cd.otherwise}:
                    if tgt is None or bi not in q.edge_dominated(b, cd.bb, tgt):
                        continue
                    # the edge must be the one on which the switched value is non-zero (true)
                    if tgt != cd.otherwise and not (len(cd.arms) >= 1 and all(a[0] != 0 for a in cd.arms if a[1] == tgt)):
                        continue
                    r = pr.of_operand(cd.t["d"])
                    from_dev = any(x[0] == "await" or (x[0] == "field" and x[1] == "Fmmu") for x in r)
                    from_arg = any((x[0] == "arg" and x[1] >= 2) or (x[0] == "upvar" and x[-1] not in ("self", "sm_config", "global_offset")) for x in r)
                    if from_arg and not from_dev:
                        local_guard = True
                    if from_dev:
                        device_guard = True
            d["guard@bb%d" % bi] = "pass-local" if local_guard else ("device-only" if device_guard else "none")
            ok = ok and local_guard
        if not ok:
            # alternative: the SAFE-OP -> PRE-OP transition clears the FMMU registers
            ok = _back_to_pre_op_clears_fmmus(prog, d)
    # the flag handed in by the callers: true only for a sync manager whose buffer directly follows the
    # memory this pass has already mapped through that FMMU (one FMMU maps one contiguous piece of memory)
    if ok and ext and any(v == "pass-local" for v in d.values()):
        for fn in ("configuration::configure_pdos_coe", "configuration::configure_pdos_eeprom"):
            cb = prog.async_body(fn)
            calls = cb.calls_to("configuration::write_fmmu_config")
            if len(calls) != 1 or len(calls[0].args) < 7:
                d[fn] = "no-flag-argument"
                ok = False
                continue
            srcs = _bool_sources(cb, calls[0].args[6])
            if all(k == "const" and v == 0 for (k, v, bi) in srcs) and srcs:
                d[fn] = "const-false"
                continue
            pc = Prov(cb, follow_all={"num::checked_add", "num::wrapping_add", "num::saturating_add"})
            adj = []
            for cd in q.conds(cb):
                if cd.kind == "cmp" and cd.op in ("Eq", "Ne"):
                    l, r = pc.of_operand(cd.lhs), pc.of_operand(cd.rhs)
                    for x, y in ((l, r), (r, l)):
                        if has_root(x, "field", "SyncManagerChannel", "physical_start_address") and not has_root(x, "field", "SyncManagerChannel", "length_bytes") \
                                and has_root(y, "field", "SyncManagerChannel", "physical_start_address") and has_root(y, "field", "SyncManagerChannel", "length_bytes") \
                                and any(z[0] in ("call", "via") and z[1].split("::")[-1] in ("checked_add", "wrapping_add", "saturating_add") or (z[0] == "binop" and z[1] == "Add") for z in y) \
                                and not any(z[0] == "await" and "receive" in z[1] for z in y):
                            adj.append((cd, cd.true_target() if cd.op == "Eq" else cd.false_target()))
            dom = None
            if len(adj) == 1:
                cd, eq_t = adj[0]
                dom = q.edge_dominated(cb, cd.bb, eq_t)
            elif not adj:
                # the comparison may live in the predicate closure of Option::filter / is_some_and / map_or ...
                dom, cd = _adjacency_via_closure(prog, cb, pc)
            good = dom is not None and bool(srcs)
            if good:
                for (k, v, bi) in srcs:
                    if k == "const" and v == 0:
                        continue
                    if k == "const" and v == 1 and bi in dom:
                        continue
                    if k == "cmp" and cd is not None and bi == cd.bb:
                        continue
                    good = False
            d[fn] = "true-only-if-buffer-follows-the-mapped-memory" if good else "flag-not-understood %s" % [(k, v) for (k, v, bi) in srcs]
            ok = ok and good
    rep.ob(P, "extend-only-own-mapping" + tag, ok, "an FMMU read back from the device is extended only when this configuration pass wrote it (SAFE-OP -> PRE-OP -> SAFE-OP configures again; stale mappings are replaced); %s" % d, loc=b.span)


def _adjacency_via_closure(prog, cb, pc):
    """`current.filter(|(_, end)| sm.physical_start_address == *end)`-style adjacency tests: returns the set of
    blocks dominated by the edge on which the predicate held, or (None, None)."""
    preds = []

    def is_start(rs):
        return has_root(rs, "field", "SyncManagerChannel", "physical_start_address") or any(x[0] == "upvar" and str(x[-1]).endswith("physical_start_address") for x in rs)

    for g in prog.group(cb.root_short):
        if not g.is_closure:
            continue
        pg = Prov(g)
        for cd in q.conds(g):
            if cd.kind == "cmp" and cd.op in ("Eq", "Ne"):
                l, r = pg.of_operand(cd.lhs), pg.of_operand(cd.rhs)
                if is_start(l) != is_start(r):
                    preds.append(g)
        for st in [x for bi in g.live_blocks() for x in g.stmts(bi)]:
            if st["k"] == "assign" and st["rv"]["k"] == "bin" and st["rv"]["op"] in ("Eq", "Ne") and not st["place"]["p"] and st["place"]["l"] == 0:
                l, r = pg.of_operand(st["rv"]["a"][0]), pg.of_operand(st["rv"]["a"][1])
                if is_start(l) != is_start(r):
                    preds.append(g)
    if len({g.path for g in preds}) != 1:
        return None, None
    g = preds[0]
    for c in cb.calls():
        nm = (c.decl_s or "").split("::")[-1]
        if nm not in ("filter", "is_some_and", "take_if", "map_or", "is_none_or"):
            continue
        if not any(x[0] == "closure" and (x[1] == g.short or g.path.endswith(x[1]) or x[1].endswith(g.short)) for a in c.args[1:] for x in pc.of_operand(a)):
            continue
        # the receiver holds what this pass mapped so far (end = start + length of the previous sync manager)
        recv = pc.of_operand(c.args[0])
        if not (has_root(recv, "field", "SyncManagerChannel", "length_bytes") and has_root(recv, "field", "SyncManagerChannel", "physical_start_address")) or any(z[0] == "await" and "receive" in z[1] for z in recv):
            continue
        rl = c.dest["l"]
        for cd in q.conds(cb):
            opnd = pc.of_operand(cd.t["d"]) if cd.kind != "discr" else pc.of_operand({"copy": cd.place})
            if not any(x[0] == "call" and x[1].endswith("::" + nm) and x[2] == c.bb for x in opnd):
                continue
            if cd.kind == "discr":
                tgt = cd.variant_targets(prog).get("Some")
            else:
                tgt = cd.true_target()
            if tgt is not None:
                return q.edge_dominated(cb, cd.bb, tgt), None
    return None, None


def _bool_sources(b, op, depth=8):
    """Where can the bool operand come from: [("const", 0|1, bb) | ("cmp", None, bb) | ("other", what, bb)]."""
    out = []
    seen = set()

    def go(o, dep, bi0):
        c = q.const_int(o)
        if c is not None:
            out.append(("const", c, bi0))
            return
        pl = op_place(o)
        if pl is None or dep <= 0:
            out.append(("other", "?", bi0))
            return
        key = (pl["l"], json_key(pl["p"]))
        if key in seen:
            return
        seen.add(key)
        proj = pl["p"]
        defs = b.defs().get(pl["l"], [])
        if not defs:
            out.append(("other", "no-def", bi0))
        for (bi, si, kind, payload) in defs:
            if kind != "assign":
                out.append(("other", kind, bi))
                continue
            rv = payload["rv"]
            if rv["k"] == "use" or rv["k"] == "cast":
                src = rv["a"][0]
                sp = op_place(src)
                if sp is not None and proj:
                    src = {"copy": {"l": sp["l"], "p": list(sp["p"]) + list(proj)}}
                go(src, dep - 1, bi)
            elif rv["k"] == "agg" and proj and isinstance(proj[0], dict) and "f" in proj[0] and proj[0]["f"] < len(rv.get("a", [])):
                go(rv["a"][proj[0]["f"]], dep - 1, bi)
            elif rv["k"] == "bin" and rv["op"] in ("Eq", "Ne") and not proj:
                out.append(("cmp", None, bi))
            else:
                out.append(("other", rv["k"], bi))

    go(op, depth, None)
    return out


def json_key(p):
    import json
    return json.dumps(p, sort_keys=True)


def _back_to_pre_op_clears_fmmus(prog, d):
    """True if every function that moves a group back to PRE-OP also writes to the FMMU registers."""
    fns = []
    for body in prog.bodies:
        if "SubDeviceGroup" not in body.short:
            continue
        for c in body.calls_to("SubDeviceGroup::transition_to"):
            if any(x[0] == "agg" and x[1] == "SubDeviceState" and x[2] == "PreOp" for x in Prov(body).of_operand(c.args[2])):
                fns.append(body)
    d["back-to-pre-op"] = [f.short for f in fns]
    if not fns:
        return True
    for f in fns:
        cl = prog.callees_closure([f], depth=3)
        hit = False
        for g in cl:
            for c in g.calls():
                if c.is_("RegisterAddress::fmmu") or any(x[0] == "agg" and x[1] == "RegisterAddress" and str(x[2]).startswith("Fmmu") for a in c.args for x in Prov(g).of_operand(a)):
                    hit = True
        if not hit:
            d["no-fmmu-clear-in"] = f.short
            return False
    return True


def threading(prog, rep, tag):
    P = "C08.thread"
    b = prog.async_body("SubDeviceGroupRef::into_pre_op")
    pr = Prov(b)
    inc = b.calls_to("PdiOffset::increment")
    oks = q.aggregates(b, "Result", "Ok")
    ok = len(inc) == 1 and bool(oks)
    if ok:
        recv = pr.of_operand(inc[0].args[0])
        by = pr.of_operand(inc[0].args[1])
        ok = (has_root(recv, "arg", 2) or any(x[0] == "upvar" and x[2] == "pdi_position" for x in recv)) and has_root(by, "field", "SubDeviceGroupRef", "max_pdi_len")
        st = [a for a in q.field_accesses(b, "GroupInnerRef", "pdi_start") if a[2] in ("read", "write")]
    rep.ob(P, "into_pre_op:advance-by-capacity" + tag, ok, "a group occupies [offset, offset + MAX_PDI) and returns the next free offset", loc=b.span, how="dataflow")
    i = prog.async_body("MainDevice::init")
    c = i.calls_to("SubDeviceGroupRef::into_pre_op")
    ok = len(c) == 1 and has_root(Prov(i).of_operand(c[0].args[1]), "await", "SubDeviceGroupRef::into_pre_op")
    rep.ob(P, "init:threads-groups" + tag, ok, "MainDevice::init gives each group the offset returned by the previous group's into_pre_op", loc=i.span, how="dataflow")
    ar = prog.body("<SubDeviceGroup as SubDeviceGroupHandle>::as_ref")
    ag = q.aggregates(ar, "SubDeviceGroupRef")
    ok = len(ag) == 1 and any(x[0] == "const" and "MAX_PDI" in str(x) for x in Prov(ar).of_operand(q.agg_field(ag[0][2], "max_pdi_len")))
    rep.ob(P, "as_ref:max_pdi" + tag, ok, "the capacity used for the advance is the group's MAX_PDI", loc=ar.span, how="dataflow")


def tables(prog, rep, tag):
    P = "C08.table"
    b = prog.body("PdoDirection::filter_terms")
    got = {}
    for cd in q.conds(b):
        if cd.kind == "discr":
            vt = cd.variant_targets(prog)
            for var, tgt in vt.items():
                if var in ("MasterRead", "MasterWrite"):
                    dom = q.edge_dominated(b, cd.bb, tgt)
                    vals = set()
                    for (bi, si, kind, payload) in b.defs().get(0, []):
                        if bi in dom and kind == "assign":
                            for r in Prov(b)._of_rvalue(payload["rv"]):
                                if r[0] == "agg" and r[1] in ("SyncManagerType", "FmmuUsage"):
                                    vals.add(r[2])
                    got[var] = vals
    ok = got.get("MasterRead") == {"ProcessDataRead", "Inputs"} and got.get("MasterWrite") == {"ProcessDataWrite", "Outputs"}
    rep.ob(P, "filter_terms" + tag, ok, "MasterRead -> (ProcessDataRead, Inputs); MasterWrite -> (ProcessDataWrite, Outputs); got %s" % got, loc=b.span, how="table")
    w = prog.async_body("configuration::write_fmmu_config")
    fm = _fresh_fmmu_literals(w)
    ok = len(fm) == 1
    if ok:
        s = fm[0][2]
        pe = Prov(w, follow_all={"PartialEq::eq"})
        re_ = pe.of_operand(q.agg_field(s, "read_enable"))
        we_ = pe.of_operand(q.agg_field(s, "write_enable"))
        ok = any(x[0] == "agg" and x[2] == "ProcessDataRead" for x in re_) and any(x[0] == "agg" and x[2] == "ProcessDataWrite" for x in we_)
    rep.ob(P, "fmmu-enables" + tag, ok, "FMMU read_enable iff ProcessDataRead, write_enable iff ProcessDataWrite", loc=w.span, how="table")


def guards(prog, rep, tag):
    P = "C08.guard"
    # constructors of the write guards: lock.write() and the outputs range
    n = 0
    for b in prog.bodies:
        if b.crate != "ethercrab":
            continue
        for adt in ("PdiWriteGuard", "PdiIoRawWriteGuard"):
            for bi, si, s in q.aggregates(b, adt):
                n += 1
                pr = Prov(b)
                lk = pr.of_operand(q.agg_field(s, "lock"))
                ok = any(x[0] == "call" and x[1].endswith("RwLock::write") for x in lk)
                if adt == "PdiWriteGuard":
                    rg = pr.of_operand(q.agg_field(s, "range"))
                    ok = ok and has_root(rg, "field", "IoRanges", "output") and not has_root(rg, "field", "IoRanges", "input")
                rep.ob(P, "%s in %s%s" % (adt, b.root_short, tag), ok, "%s holds the image's write lock%s" % (adt, " over io.output only" if adt == "PdiWriteGuard" else ""), loc=q.loc(b, bi, si), how="dataflow")
    rep.floor("C08 write guard constructions" + tag, n, 2)
    # read guards take the read lock
    for b in prog.bodies:
        if b.crate != "ethercrab":
            continue
        for adt in ("PdiReadGuard", "PdiIoRawReadGuard"):
            for bi, si, s in q.aggregates(b, adt):
                lk = Prov(b).of_operand(q.agg_field(s, "lock"))
                ok = any(x[0] == "call" and x[1].endswith("RwLock::read") for x in lk)
                rep.ob(P, "%s in %s%s" % (adt, b.root_short, tag), ok, "%s holds the image's read lock" % adt, loc=q.loc(b, bi, si), how="dataflow", nontrivial=False)
    # DerefMut only on the write guards
    for im in prog.impls:
        if im.get("trait") and norm_last(im["trait"]) == "DerefMut" and im["crate"] == "ethercrab":
            adt = norm_last(im.get("self_adt", im["self"]))
            if adt.startswith("Pdi"):
                rep.ob(P, "DerefMut:%s%s" % (adt, tag), adt in ("PdiWriteGuard", "PdiIoRawWriteGuard"), "&mut [u8] into the image is available from %s" % adt, loc=im["span"], how="inventory")


def norm_last(s):
    from ..core import last_seg, norm

    return last_seg(norm(s))


def sm_classification(prog, rep, tag):
    """Sibling agreement on what a sync manager is *for*: the SII usage-type byte may be 0 (Unknown) and
    `SyncManager::usage_type()` then recovers the purpose from the control byte.  Every configuration path
    (mailbox SMs, CoE PDOs, EEPROM PDOs) must classify through that accessor; a path comparing the raw field skips
    such sync managers silently - no SM, no FMMU, an empty window - while its siblings still configure them."""
    P = "C08.sm"
    allowed = {"SyncManager::usage_type", "<SyncManager as PartialEq>::eq", "<SyncManager as Debug>::fmt", "<SyncManager as Clone>::clone", "<SyncManager as Format>::format"}
    readers = {}
    for b in prog.bodies:
        if b.crate != "ethercrab" or b.d.get("is_test"):
            continue
        for a in q.field_accesses(b, "SyncManager", "usage_type"):
            if a[2] in ("read", "addr"):
                readers.setdefault(b.root_short, q.loc(b, a[0]))
    for fn, loc in sorted(readers.items()):
        rep.ob(P, "raw-usage-type-reader:%s%s" % (fn, tag), fn in allowed, "%s reads SyncManager.usage_type directly%s" % (fn, "" if fn in allowed else ": sync managers whose SII type byte is 0 are classified by SyncManager::usage_type() everywhere else"), loc=loc, how="inventory", nontrivial=fn not in allowed)
    users = sorted({c.body.root_short for c in prog.calls_of("SyncManager::usage_type") if c.body.crate == "ethercrab" and not c.body.d.get("is_test")})
    want = {"configuration::configure_mailbox_sms", "configuration::configure_pdos_coe", "configuration::configure_pdos_eeprom"}
    rep.ob(P, "classified-through-accessor" + tag, want <= set(users), "the three configuration paths classify sync managers through SyncManager::usage_type(): %s" % users, how="inventory")


def _fresh_fmmu_literals(b):
    """Fmmu literals that describe a *new* mapping.  A literal that only carries the mapping read back from the device
    on with a longer length (`Fmmu { length_bytes: .., ..existing }`, the shared-FMMU extension written as a struct
    update instead of a field assignment) is not one: every field but the length comes from the read."""
    out = []
    pr = Prov(b)
    for x in q.aggregates(b, "Fmmu"):
        st = x[2]
        la = pr.of_operand(q.agg_field(st, "logical_start_address"))
        pa = pr.of_operand(q.agg_field(st, "physical_start_address"))
        from_read = lambda r: any(y[0] == "await" and str(y[1]).endswith("::receive") for y in r)  # noqa: E731
        if from_read(la) and from_read(pa) and not has_root(la, "field", "PdiOffset", "start_address"):
            continue
        out.append(x)
    return out
