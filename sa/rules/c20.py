"""C20 - tasks sharing one MainDevice do not disturb each other (structural clauses)."""
import re

from .. import q, slotfsm
from ..core import Prov, has_root, last_seg, norm, op_place

UNSAFE_TOKENS = ("NonNull<", "*mut ", "*const ", "UnsafeCell<", "Cell<", "RefCell<", "Rc<", "std::rc::")
EXT_SAFE = ("std::sync::atomic::", "atomic_waker::AtomicWaker", "std::marker::PhantomData", "std::time::Duration", "heapless::", "async_io::Timer", "embassy_time::",
            "lock_api::RwLock", "spin::", "bitflags::", "std::option::Option", "std::num::", "core::", "std::result::Result", "std::ops::Range", "crc::")
PRIMS = {"u8", "u16", "u32", "u64", "u128", "usize", "i8", "i16", "i32", "i64", "i128", "isize", "bool", "char", "f32", "f64", "()", "str"}


def run(ctx, rep):
    rep.decided += [
        "audit of every hand-written unsafe impl Send/Sync: each field is thread-safe by its own type or listed with its arbitration (a new Cell/NonNull field fails)",
        "shared mutable words: pdu_idx / frame_idx are only ever fetch_add-ed (and reset); slot states via SLOTFSM S1",
        "SubDeviceGroupHandle::{push,as_ref} (which manufacture &mut from &self) are called only from MainDevice::init",
        "every process-data cycle takes its own group's write lock before the first frame and keeps it to the return; the image is owned by value by its group",
        "responses are routed per slot and validated against the caller's handle (C01 clauses 1,3 re-checked); the index lookup only matches slots awaiting a response, so another task's held or freed slot cannot shadow a live request after the 8-bit index wraps (C01 clause 4 re-checked)",
    ]
    rep.undecided += ["equivalence with a sequential run under all interleavings and latencies"]
    rep.trusted += ["rustc MIR/callee resolution", "tables/unsafe_impls.json justifications"]
    for cfg in ctx.configs():
        prog = ctx.prog(cfg)
        tag = "" if cfg == "default" else "@" + cfg
        rep.analysed["bodies" + tag] = len(prog.bodies)
        unsafe_impls(ctx, prog, rep, tag)
        shared_words(prog, rep, tag)
        handle_callers(prog, rep, tag)
        locks(prog, rep, tag)
        slotfsm.s4(prog, rep, "C20", tag, parts=("receive_frame",))
        from . import c01

        c01.handle_validation(prog, rep, tag)
        # "no operation fails merely because of the others": a slot that another task still holds (or that was
        # freed) must not shadow a live request when the shared 8-bit index wraps (C01 clause 4 re-checked)
        slotfsm.s8(prog, rep, "C20", slotfsm.transitions(prog)[0], tag)
        # "... as long as fewer frames are in flight than the storage holds": a slot stranded without an owner by the
        # transmit side (a state written unconditionally after the request was given up by another task) is capacity
        # lost to every task; and the slot state machine as a whole stays the audited one
        from . import c03

        sites_ = slotfsm.s1(prog, rep, "C20", tag)
        c03.tx_lets_go(prog, rep, sites_ if sites_ is not None else slotfsm.transitions(prog)[0], tag, P0="C20")
        one_slot_per_transfer(prog, rep, tag)
        index_reuse(prog, rep, tag)


def _classify(prog, ty, trait, memo, depth=0):
    """-> ('safe'|'unsafe'|'unknown', detail)"""
    t = ty.strip()
    if t.startswith("&"):
        trait = "Sync"  # &T: Send/Sync  <=>  T: Sync
    for tok in UNSAFE_TOKENS:
        if re.search(r"(?<![A-Za-z0-9_])" + re.escape(tok), t):
            return "unsafe", tok.strip("<")
    # strip refs / arrays / tuples and check component type names
    names = re.findall(r"[A-Za-z_][A-Za-z0-9_:]*", t)
    verdict = "safe"
    detail = ""
    for n in names:
        base = n
        if base in PRIMS or base in ("mut", "dyn", "static", "const", "as", "impl"):
            continue
        if len(base) <= 2 and base.isupper():
            continue  # generic parameter
        if re.fullmatch(r"[A-Z][A-Z0-9_]*", base):
            continue  # const generic
        if base.startswith(EXT_SAFE):
            continue
        # workspace ADT?
        cands = [a for p, a in prog.adts.items() if p.endswith("::" + base) or p == base or p.endswith(base)]
        if cands:
            a = cands[0]
            key = (a["npath"], trait)
            if key in memo:
                v = memo[key]
            else:
                memo[key] = ("safe", "")
                # audited unsafe impl?
                has_impl = any(im.get("unsafe") and im.get("self_adt") and norm(im["self_adt"]) == a["npath"] and last_seg(norm(im["trait"])) == trait and im.get("expn") is None for im in prog.impls)
                if has_impl:
                    v = ("safe", "unsafe impl audited separately")
                else:
                    v = ("safe", "")
                    for var in a["variants"]:
                        for f in var["fields"]:
                            r = _classify(prog, f["ty"], trait, memo, depth + 1)
                            if r[0] != "safe":
                                v = (r[0], "%s.%s: %s" % (last_seg(a["npath"]), f["name"], r[1]))
                memo[key] = v
            if v[0] != "safe":
                return v
            continue
        if "::" not in base:
            continue  # lifetimes' names, type params
        verdict, detail = "unknown", base
    return verdict, detail


def unsafe_impls(ctx, prog, rep, tag):
    P = "C20.unsafe"
    table = ctx.table("unsafe_impls.json")
    n = 0
    memo = {}
    for im in prog.impls:
        if not im.get("unsafe") or im.get("expn") is not None or "trait" not in im:
            continue
        tr = last_seg(norm(im["trait"]))
        if tr not in ("Send", "Sync"):
            continue
        if not im["crate"].startswith("ethercrab"):
            continue
        n += 1
        adt = last_seg(norm(im.get("self_adt", im["self"])))
        key = "%s:%s" % (adt, tr)
        ent = table.get(key)
        if ent is None:
            rep.violation(P, "impl:%s%s" % (key, tag), "UNAUDITED `unsafe impl %s for %s`: whoever adds one asserts thread-safety the compiler could not prove" % (tr, adt), loc=im["span"])
            continue
        a = prog.adts.get(norm(im["self_adt"]))
        for var in a["variants"]:
            for f in var["fields"]:
                verdict, detail = _classify(prog, f["ty"], tr, memo)
                fk = "%s.%s%s" % (key, f["name"], tag)
                if verdict == "safe":
                    rep.ob(P, fk, True, "%s: %s is thread-safe by its own type" % (f["name"], f["ty"][:80]), loc=im["span"], how="type", nontrivial=False)
                elif f["name"] in ent:
                    rep.ob(P, fk, True, "%s: %s (%s) - audited: %s" % (f["name"], f["ty"][:80], detail, ent[f["name"]]), loc=im["span"], how="audit")
                else:
                    rep.violation(P, fk, "field %s: %s of %s is not thread-safe by its type (%s: %s) and is not covered by the audit of `unsafe impl %s`" % (f["name"], f["ty"], adt, verdict, detail, tr), loc=im["span"])
    rep.floor("C20 unsafe Send/Sync impls" + tag, n, 11)
    for key in table:
        if key.startswith("_"):
            continue
        adt, tr = key.split(":")
        present = any(im.get("unsafe") and im.get("expn") is None and last_seg(norm(im.get("self_adt", ""))) == adt and last_seg(norm(im.get("trait", ""))) == tr for im in prog.impls)
        rep.ob(P, "table-entry-live:%s%s" % (key, tag), present, "audited impl %s still exists" % key, how="inventory", nontrivial=False)


def shared_words(prog, rep, tag):
    P = "C20.words"
    ops = {}
    for b in prog.bodies:
        if b.crate != "ethercrab":
            continue
        for c in b.calls():
            n = c.decl_s or ""
            if not n.startswith("Atomic::"):
                continue
            r = Prov(b).of_operand(c.args[0])
            for fld in ("pdu_idx", "frame_idx"):
                if has_root(r, "field", "PduStorageRef", fld) or has_root(r, "field", "FrameBox", fld) or has_root(r, "field", "PduStorage", fld):
                    ops.setdefault(fld, []).append((n.split("::")[1], b.root_short, c))
    allowed = {
        "pdu_idx": {("fetch_add", "FrameBox::next_pdu_idx"), ("store", "PduStorageRef::reset"), ("new", "PduStorage::new")},
        "frame_idx": {("fetch_add", "PduStorageRef::alloc_frame"), ("store", "PduStorageRef::reset"), ("new", "PduStorage::new")},
    }
    cnt = 0
    for fld, lst in ops.items():
        for op, fn, c in lst:
            cnt += 1
            rep.ob(P, "%s:%s@%s%s" % (fld, op, fn, tag), (op, fn) in allowed[fld], "%s.%s in %s" % (fld, op, fn), loc=c.span, how="inventory")
    rep.floor("C20 index-word operations" + tag, cnt, 4)
    # the index returned to the builder is the fetch_add result (each datagram gets its own index)
    b = prog.body("FrameBox::next_pdu_idx")
    fa = [c for c in b.calls() if (c.decl_s or "").endswith("::fetch_add")]
    ok = len(fa) == 1 and q.const_int(fa[0].args[1]) == 1 and fa[0].dest["l"] == 0
    rep.ob(P, "next_pdu_idx:fetch_add-1" + tag, ok, "every datagram index is pdu_idx.fetch_add(1): an atomic read-modify-write, so concurrent builders never get the same index while fewer than 256 are outstanding", loc=b.span, how="dataflow")


def handle_callers(prog, rep, tag):
    P = "C20.handle"
    n = 0
    for name in ("SubDeviceGroupHandle::push", "SubDeviceGroupHandle::as_ref"):
        for c in prog.calls_of(name):
            if c.body.crate != "ethercrab":
                continue
            n += 1
            rep.ob(P, "%s<-%s%s" % (name, c.body.root_short, tag), c.body.root_short == "MainDevice::init", "%s (manufactures &mut from &self) called from %s" % (name, c.body.root_short), loc=c.span, how="inventory")
    rep.floor("C20 handle call sites" + tag, n, 2)
    # raw access to the inner cell outside the handle impl
    for b in prog.bodies:
        if b.crate != "ethercrab":
            continue
        for c in b.calls_to("MySyncUnsafeCell::get"):
            r = Prov(b).of_operand(c.args[0])
            if has_root(r, "field", "SubDeviceGroup", "inner"):
                ok = b.root_short in ("<SubDeviceGroup as SubDeviceGroupHandle>::push", "<SubDeviceGroup as SubDeviceGroupHandle>::as_ref", "SubDeviceGroup::inner")
                rep.ob(P, "inner.get<-%s%s" % (b.root_short, tag), ok, "SubDeviceGroup.inner's UnsafeCell opened in %s" % b.root_short, loc=c.span, how="inventory")


def one_slot_per_transfer(prog, rep, tag):
    """'no operation fails merely because of the others as long as fewer frames are in flight than the
    storage holds': a response the caller still holds keeps its slot claimed.  The only operation that
    issues further requests while holding a response is the segmented SDO upload; it must let go of the
    initiate response before it asks for the first segment, or one transfer pins two slots."""
    P = "C20.slots"
    b = prog.async_body("Coe::sdo_read")
    pr = Prov(b)
    seg = b.calls_to("SdoSegmented::upload")
    first = [c for c in b.calls() if (c.decl_s or "").endswith("mailbox_write_read") and seg and b.dominates(c.bb, seg[0].bb) and c.bb not in b.reachable_strict(seg[0].bb)]
    drops = []
    for c in b.calls():
        if c.is_("mem::drop") and any(x[0] == "await" and x[1].endswith("mailbox_write_read") and first and x[2] == first[0].bb for x in pr.of_operand(c.args[0])):
            drops.append(c)
    for bi in b.live_blocks():
        t = b.term(bi)
        if t["k"] == "drop" and "ReceivedPdu" in (t.get("ty") or "") and "(" not in (t.get("ty") or "") and seg and b.dominates(bi, seg[0].bb) and bi not in b.reachable_strict(seg[0].bb):
            drops.append(t)
    ok = len(seg) == 1 and len(first) == 1 and any((getattr(d, "bb", None) is not None and b.dominates(d.bb, seg[0].bb)) or isinstance(d, dict) for d in drops)
    rep.ob(P, "sdo_read:initiate-response-released-before-segments" + tag, ok, "the segmented upload drops the initiate response (whose slot stays claimed while it is held) before the first segment request is allocated: one transfer occupies one slot at a time", loc=b.span, how="path")
    # no other function awaits a new request while it holds a ReceivedPdu / ReceivedFrame of an earlier one: inventory
    holders = []
    for body in prog.bodies:
        if body.crate != "ethercrab" or not body.coroutine:
            continue
        reqs = [c for c in body.calls() if (c.decl_s or "").split("::")[-1] in ("mailbox_write_read", "single_pdu", "alloc_frame")]
        if len(reqs) >= 2:
            holders.append(body.root_short)
    rep.analysed["functions issuing several requests" + tag] = len(set(holders))


def index_reuse(prog, rep, tag):
    """'no task ever receives another task's response': responses are routed by the 8-bit index of a frame's
    first datagram, taken from one wrapping counter shared by all tasks.  Unless the allocation skips
    indices that are still the routing key of a frame in use, 256 allocations by fast tasks while a slow
    frame is outstanding give two live frames the same key (C01 assumes this away explicitly; C20's
    quantifier - latencies up to 500 us, tasks free to run in between - does not)."""
    P = "C20.index"
    bad = []
    n = 0
    for fn in ("CreatedFrame::push_pdu", "CreatedFrame::push_pdu_slice_rest"):
        b = prog.body(fn)
        nx = [c for c in b.calls() if c.is_("FrameBox::next_pdu_idx")]
        n += len(nx)
        cl = prog.callees_closure([b], depth=4)
        scans = [g.root_short for g in cl if g.calls_to("FrameElement::first_pdu_is")]
        if nx and not scans:
            bad.append(fn)
    rep.floor("C20 index allocation sites" + tag, n, 2)
    if bad:
        rep.violation(P, "first-index-unique-among-live-frames" + tag,
                      "%s take the routing index straight from the shared wrapping counter (FrameBox::next_pdu_idx) without checking it against the first-datagram markers of frames that are still in use: after 256 allocations a second live frame carries the same key and the lookup hands the first response to whichever slot comes first" % " and ".join(bad),
                      loc=prog.body(bad[0]).span)
    else:
        rep.ob(P, "first-index-unique-among-live-frames" + tag, True, "the index given to a frame's first datagram is checked against the markers of the frames in use", how="path")


def pdi_lockers(prog):
    """Bodies that acquire the group's image lock directly: {path: (body, [acquire calls])}."""
    out = {}
    for b in prog.bodies:
        if b.crate != "ethercrab":
            continue
        acq = [c for c in b.calls() if (c.decl_s or "").split("::")[-1] in ("write", "read", "upgradable_read", "try_write", "try_read") and "RwLock" in (c.decl_s or "") and any(r[0] == "field" and r[-1] == "pdi" for r in Prov(b).of_operand(c.args[0]))]
        if acq:
            out[b.path] = (b, acq)
    return out


def reentrancy(prog, rep, tag, P="C20.lock"):
    """The image lock is not re-entrant (lock_api::RwLock over a raw spin/std lock): a function that holds a
    guard on self.pdi must not call - directly or through helpers - a function that acquires self.pdi again;
    that call never returns."""
    lockers = pdi_lockers(prog)
    # functions from which a locker is reachable (callee closure), by root
    roots = {b.root for b, _ in lockers.values()}
    reach = {}
    for b in prog.bodies:
        if b.crate != "ethercrab":
            continue
        for c in b.calls():
            t = prog.by_path.get(c.res) or prog.by_path.get(c.decl)
            if t is not None:
                reach.setdefault(b.root, set()).add(t.root)
    may_lock = set(roots)
    changed = True
    while changed:
        changed = False
        for r, outs in reach.items():
            if r not in may_lock and outs & may_lock:
                may_lock.add(r)
                changed = True
    n = 0
    for path, (b, acq) in sorted(lockers.items()):
        for a in acq:
            if a.dest["p"]:
                continue
            gl = a.dest["l"]
            # blocks in which the guard may still be held: forward from the acquisition, stopping after its drop
            held = set()
            todo = [a.target] if a.target is not None else []
            while todo:
                x = todo.pop()
                if x in held:
                    continue
                held.add(x)
                t = b.term(x)
                if t["k"] == "drop" and not t["place"]["p"] and t["place"]["l"] == gl:
                    continue
                # a move of the guard into a returned/owned structure ends our knowledge: treat as held (conservative)
                for y in b.succ(x):
                    todo.append(y)
            bad = []
            for c in b.calls():
                if c.bb not in held or c is a:
                    continue
                t = prog.by_path.get(c.res) or prog.by_path.get(c.decl)
                if t is not None and t.root in may_lock:
                    bad.append("%s at %s" % (c.name, c.span))
                if c is not a and c in acq and c.bb in held:
                    bad.append("second acquisition at %s" % c.span)
            n += 1
            rep.ob(P, "%s:no-reacquire-while-held%s" % (b.root_short, tag), not bad,
                   "%s holds a guard on self.pdi; while it is held no call reaches a function that locks self.pdi again (the lock is not re-entrant: such a call never returns) %s" % (b.root_short, bad), loc=a.span, how="path")
    rep.floor(P.split(".")[0] + " image lock holders" + tag, n, 8)


def locks(prog, rep, tag):
    P = "C20.lock"
    for fn in ("SubDeviceGroup::tx_rx", "SubDeviceGroup::tx_rx_sync_system_time", "SubDeviceGroup::tx_rx_dc"):
        b = prog.async_body(fn)
        wr = [c for c in b.calls() if (c.decl_s or "").endswith("RwLock::write") and has_root(Prov(b).of_operand(c.args[0]), "field", "SubDeviceGroup", "pdi")]
        al = b.calls_to("PduLoop::alloc_frame")
        ok = len(wr) == 1 and bool(al) and all(b.dominates(wr[0].bb, a.bb) for a in al)
        if ok:
            gl = wr[0].dest["l"]
            # the guard is not dropped explicitly before a return, nor moved out
            dropped_early = [c for c in b.calls() if c.is_("mem::drop") and (op_place(c.args[0]) or {}).get("l") == gl]
            ok = not dropped_early
        rep.ob(P, "%s:own-lock-whole-cycle%s" % (fn, tag), ok, "%s takes self.pdi.write() before its first frame and holds the guard to the end" % fn, loc=b.span)
    reentrancy(prog, rep, tag)
    g = prog.adt("SubDeviceGroup")
    f = {x["name"]: x["ty"] for x in g["variants"][0]["fields"]}
    ok = f.get("pdi", "").startswith("lock_api::RwLock<") and "&" not in f.get("pdi", "") and "Arc" not in f.get("pdi", "")
    rep.ob(P, "image-owned-by-group" + tag, ok, "SubDeviceGroup.pdi is an RwLock owned by value (%s): groups cannot share an image" % f.get("pdi", "?")[:70], how="type")
