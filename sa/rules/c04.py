"""C04 - every transmitted frame is a well-formed EtherCAT frame saying what was asked (structural clauses)."""
import os

from .. import q, wirelayout as wl
from ..core import Prov, has_root, op_place, roots_str


def run(ctx, rep):
    rep.decided += [
        "1 FrameBox::init sets source = MAINDEVICE_ADDR, destination = broadcast, EtherType = 0x88A4 and zero-fills the payload on its only path",
        "2 Command::code maps the 11 variants to the ETG1000.4 codes; Command::pack uses (register << 16) + address / the 32-bit logical address",
        "3 PduHeader's derived layout equals the spec table; hand-written constants that must agree with it do (flags offset 6, index byte 1); PduFlags and EthercatFrameHeader pack/unpack agree on LEN_MASK and bit positions",
        "4 bounds: the only writes of push_pdu / push_pdu_slice_rest go through get_mut(start..start+alloc) whose failure returns TooLong; add_pdu(alloc) is dominated by that success and gets the same alloc; the more-follows back-patch follows add_pdu; the two siblings agree",
        "5 mark_sendable writes a header whose length is pdu_payload_len() before publishing; as_bytes trims to header + that length",
    ]
    rep.undecided += ["byte-for-byte equality with an independent encoder over all push programs", "zero padding and length-override arithmetic as values"]
    rep.trusted += ["rustc MIR/callee resolution", "tables/spec_etg.json (my transcription of ETG.1000.4)"]
    spec = ctx.table("spec_etg.json")
    for cfg in ctx.configs():
        prog = ctx.prog(cfg)
        tag = "" if cfg == "default" else "@" + cfg
        rep.analysed["bodies" + tag] = len(prog.bodies)
        init(prog, rep, spec, tag)
        commands(prog, rep, spec, tag)
        layouts(ctx, prog, rep, spec, tag)
        pushes(prog, rep, tag)
        headers(prog, rep, tag)


def init(prog, rep, spec, tag):
    P = "C04.init"
    b = prog.body("FrameBox::init")
    pr = Prov(b)
    want = {"EthernetFrame::set_src_addr": "MAINDEVICE_ADDR", "EthernetFrame::set_dst_addr": "BROADCAST", "EthernetFrame::set_ethertype": "ETHERCAT_ETHERTYPE"}
    rets = b.return_blocks()
    for callee, cname in want.items():
        cs = b.calls_to(callee)
        ok = len(cs) == 1
        if ok:
            r = pr.of_operand(cs[0].args[1])
            ok = any(x[0] == "const" and cname in str(x[1]) for x in r) and all(b.every_path_passes(0, rb, {cs[0].bb}) for rb in rets)
            ok = ok and has_root(pr.of_operand(cs[0].args[0]), "call", "FrameBox::ethernet_frame_mut")
        rep.ob(P, callee + tag, ok, "%s(%s) on every path of FrameBox::init" % (callee, cname), loc=b.span)
    rep.ob(P, "ethertype-value" + tag, prog.const_value("ETHERCAT_ETHERTYPE") == spec["ethertype"], "ETHERCAT_ETHERTYPE == 0x88A4", how="table")
    fills = [c for c in b.calls() if (c.decl_s or "").endswith("::fill")]
    ok = len(fills) == 1 and q.const_int(fills[0].args[1]) == 0 and has_root(pr.of_operand(fills[0].args[0]), "call", "EthernetFrame::payload_mut") and all(b.every_path_passes(0, rb, {fills[0].bb}) for rb in rets)
    if ok:
        # ... and it is the *whole* payload: nothing narrows the slice between payload_mut() and fill()
        from ..core import TRANSPARENT

        narrow = {"Index::index", "IndexMut::index_mut", "slice::get", "slice::get_mut", "Option::unwrap", "Option::expect", "Option::unwrap_or", "Option::map", "Option::and_then", "Option::unwrap_unchecked"}
        strict = Prov(b, transparent=TRANSPARENT - narrow)
        rr = strict.of_operand(fills[0].args[0])
        via = sorted({x[1] for x in rr if x[0] == "call" and x[1] not in ("EthernetFrame::payload_mut", "FrameBox::ethernet_frame_mut")})
        ok = not via
    rep.ob(P, "zero-fill" + tag, ok, "the whole Ethernet payload is zero-filled on every path, not a sub-range of it (padding, working counters and IRQ fields start as zero whatever the slot held before)", loc=b.span)
    # payload_mut really is everything after the 14-byte header
    rep.ob(P, "header-len" + tag, prog.const_value("ETHERNET_HEADER_LEN") == spec["ethernet_header_len"], "ETHERNET_HEADER_LEN == 14", how="table")
    # claim_created always initialises
    cc = prog.body("CreatedFrame::claim_created")
    i = cc.calls_to("FrameBox::init")
    ag = q.aggregates(cc, "CreatedFrame")
    ok = len(i) == 1 and bool(ag) and all(cc.dominates(i[0].bb, x[0]) for x in ag)
    rep.ob(P, "claim-initialises" + tag, ok, "every CreatedFrame is initialised (init dominates its construction)", loc=cc.span)


def commands(prog, rep, spec, tag):
    P = "C04.cmd"
    b = prog.body("Command::code")
    pr = Prov(b)
    got = {}
    for cd in q.conds(b):
        if cd.kind != "discr":
            continue
        vt = cd.variant_targets(prog)
        for var, tgt in vt.items():
            if var == "otherwise" or not isinstance(var, str):
                continue
            dom = q.edge_dominated(b, cd.bb, tgt)
            vals = set()
            for (bi, si, kind, payload) in b.defs().get(0, []):
                if bi in dom and kind == "assign":
                    for r in pr._of_rvalue(payload["rv"]):
                        if r[0] == "const" and isinstance(r[-1], int):
                            vals.add(r[-1])
            if len(vals) == 1:
                got[var] = vals.pop()
    for var, code in spec["commands"].items():
        rep.ob(P, "code:%s%s" % (var, tag), got.get(var) == code, "Command::code(%s) == %d (ETG1000.4); extracted %s" % (var, code, got.get(var)), loc=b.span, how="table")
    rep.floor("C04 command codes" + tag, len(got), 11)
    # pack: the four address bytes, evaluated symbolically per definition of the return value (byte k = which byte
    # of which field of which variants), whatever the arithmetic: `(u32(reg) << 16) + u32(addr)` then to_le_bytes,
    # or the two halves' to_le_bytes put side by side
    pk = prog.body("<Command as EtherCrabWireWriteSized>::pack")
    forms = _pack_forms(prog, pk)
    reg_variants = {"Aprd", "Fprd", "Brd", "Frmw", "Apwr", "Fpwr", "Bwr"}
    log_variants = {"Lrd", "Lwr", "Lrw"}
    reg = [f for f in forms if f[0] == [("address", 0), ("address", 1), ("register", 0), ("register", 1)]]
    log = [f for f in forms if f[0] == [("address", 0), ("address", 1), ("address", 2), ("address", 3)]]
    other = [f for f in forms if f not in reg and f not in log and f[0] is not None and any(x != 0 for x in f[0])]
    unknown = [f for f in forms if f[0] is None]
    got_reg = set().union(*[f[1] for f in reg]) if reg else set()
    got_log = set().union(*[f[1] for f in log]) if log else set()
    rep.ob(P, "pack:register-address" + tag, got_reg == reg_variants and not other and not unknown, "register-addressed commands pack the station address in bytes 0..2 and the register in bytes 2..4, little endian (= (u32(register) << 16) + u32(address)); variants %s%s" % (sorted(got_reg), (" other layouts: %s" % other) if other or unknown else ""), loc=pk.span, how="dataflow")
    rep.ob(P, "pack:logical-address" + tag, got_log == log_variants and not other and not unknown, "logical commands pack the 32-bit address, little endian; variants %s" % sorted(got_log), loc=pk.span, how="dataflow")


def layouts(ctx, prog, rep, spec, tag):
    P = "C04.layout"
    decl = wl.declared([os.path.join(ctx.repo, "src", "pdu_loop")])
    items = {i["name"]: i for i in decl["items"]}
    it = items.get("PduHeader")
    if it is None:
        rep.anchor_missing("PduHeader derive site")
        return
    total, ref, problems = wl.ref_layout(it)
    want = {k: tuple(v) for k, v in spec["pdu_header"].items() if not k.startswith("_")}
    rep.ob(P, "PduHeader:declared==spec" + tag, ref == want and total == spec["pdu_header"]["_bytes"] * 8 and not problems, "declared PduHeader layout %s equals ETG1000.4 datagram header" % ref, how="table")
    rb = prog.body("<PduHeader as EtherCrabWireRead>::unpack_from_slice")
    wb = prog.body("<PduHeader as EtherCrabWireWrite>::pack_to_slice_unchecked")
    r, w = wl.read_layout(prog, rb), wl.write_layout(prog, wb)

    def pos(sp):
        if "byte" in sp:
            return (sp["byte"] * 8 + sp["shift"], bin(sp["mask"] >> sp["shift"]).count("1"))
        return (sp["start"] * 8, (sp["end"] - sp["start"]) * 8)

    gr = {k: pos(v) for k, v in r["fields"].items()}
    gw = {k: pos(v) for k, v in w["fields"].items()}
    rep.ob(P, "PduHeader:generated-read==spec" + tag, gr == want and not r["problems"], "generated unpack reads %s" % gr, loc=rb.span, how="table")
    rep.ob(P, "PduHeader:generated-write==spec" + tag, gw == want and not w["problems"] and w["zero_fill"], "generated pack writes %s after a zero fill" % gw, loc=wb.span, how="table")
    # hand-written constants agreeing with the layout
    flags_byte = want["flags"][0] // 8
    index_byte = want["index"][0] // 8
    for fn in ("CreatedFrame::push_pdu", "CreatedFrame::push_pdu_slice_rest"):
        b = prog.body(fn)
        ok = False
        for c in b.calls_to("slice::get_mut"):
            rng = Prov(b).of_operand(c.args[1])
            if has_root(rng, "agg", "RangeFrom") and has_root(rng, "binop", "Add") and has_root(rng, "const", flags_byte) and has_root(rng, "field", "CreatedFrame", "last_header_location"):
                ok = True
        rep.ob(P, "%s:flags-offset%s" % (fn, tag), ok, "the more-follows back-patch addresses last_header_location + %d (the flags offset of the derived layout)" % flags_byte, loc=b.span, how="dataflow")
    rf = prog.body("PduRx::receive_frame")
    gets = [c for c in rf.calls_to("slice::get") if q.const_int(c.args[1]) == index_byte]
    rep.ob(P, "receive_frame:index-byte" + tag, len(gets) == 1, "receive_frame reads the datagram index at byte %d" % index_byte, loc=rf.span, how="table")
    # PduFlags / EthercatFrameHeader hand-written pack/unpack
    lm = prog.const_value("LEN_MASK")
    rep.ob(P, "LEN_MASK" + tag, lm == spec["pdu_flags"]["len_mask"] == spec["frame_header"]["len_mask"], "LEN_MASK == 0x07FF (11 bit length)", how="table")
    for name, shifts in (("PduFlags", {spec["pdu_flags"]["circulated_bit"], spec["pdu_flags"]["more_follows_bit"]}), ("EthercatFrameHeader", {spec["frame_header"]["type_shift"]})):
        rb = prog.body("<%s as EtherCrabWireRead>::unpack_from_slice" % name)
        wb = prog.body("<%s as EtherCrabWireWrite>::pack_to_slice_unchecked" % name)

        def consts(b):
            shl, shr, masks = set(), set(), set()
            for bi in sorted(b.live_blocks()):
                for s in b.stmts(bi):
                    if s["k"] == "assign" and s["rv"]["k"] == "bin":
                        op = s["rv"]["op"].replace("WithOverflow", "")
                        k = q.const_int(s["rv"]["a"][1])
                        if op == "Shl" and k is not None:
                            shl.add(k)
                        if op == "Shr" and k is not None:
                            shr.add(k)
                        if op == "BitAnd":
                            r = Prov(b).of_operand(s["rv"]["a"][1])
                            if any(x[0] == "const" and "LEN_MASK" in str(x[1]) for x in r):
                                masks.add("LEN_MASK")
            return shl, shr, masks

        wshl, _, wm = consts(wb)
        _, rshr, rm = consts(rb)
        ok = wshl == shifts and rshr == shifts and "LEN_MASK" in rm and (name != "PduFlags" or "LEN_MASK" in wm)
        rep.ob(P, "%s:pack-unpack-agree%s" % (name, tag), ok, "%s packs with << %s and unpacks with >> %s, both using LEN_MASK" % (name, sorted(wshl), sorted(rshr)), loc=rb.span, how="table")
    # DlPdu protocol type
    pt = prog.adt("ProtocolType")
    d = {v["name"]: v.get("discr") for v in pt["variants"]}
    rep.ob(P, "ProtocolType::DlPdu" + tag, d.get("DlPdu") == spec["frame_header"]["type_dlpdu"], "EtherCAT frame type DLPDU == 1", how="table")


def _push_facts(prog, fn):
    b = prog.body(fn)
    pr = Prov(b)
    f = {"body": b}
    gm = []
    for c in b.calls_to("slice::get_mut"):
        rng = pr.of_operand(c.args[1])
        recv = pr.of_operand(c.args[0])
        if has_root(recv, "call", "FrameBox::pdu_buf_mut") and has_root(rng, "agg", "Range") and not has_root(rng, "agg", "RangeFrom") and has_root(rng, "call", "FrameBox::pdu_payload_len"):
            gm.append(c)
    f["range_get"] = gm
    f["add_pdu"] = b.calls_to("FrameBox::add_pdu")
    f["writes"] = [c for c in b.calls() if c.is_("generate::write_packed")]
    f["too_long"] = [x for g in prog.group(fn) for x in q.aggregates(g, "PduError", "TooLong")]
    f["patch"] = [c for c in b.calls() if (c.decl_s or "").endswith("pack_to_slice_unchecked") and "PduFlags" in (c.res_s or c.t.get("self_ty") or "")]
    return f


def _pack_forms(prog, pk):
    """-> [(bytes, variants)] for every definition of the returned [u8; 4]: bytes = list of (field, byte index) / 0,
    or None when the evaluator cannot follow the computation; variants = the enum variants the fields were read from."""
    W = {"u8": 1, "u16": 2, "u32": 4, "u64": 8, "usize": 8, "i32": 4}
    variants = set()

    def width_of(l):
        return W.get(pk.local_ty(l).strip())

    def ev_place(pl, depth):
        fs = [p for p in pl["p"] if isinstance(p, dict) and "n" in p]
        if fs:
            last = [p for p in pl["p"] if p != "*"][-1]
            if isinstance(last, dict) and "n" in last and last.get("ty") in W:
                for p in pl["p"]:
                    if isinstance(p, dict) and "dc" in p and p["dc"] not in ("Read", "Write"):
                        variants.add(p["dc"])
                return [(last["n"], k) for k in range(W[last["ty"]])]
            return None
        idx = [p for p in pl["p"] if p != "*"]
        base = ev_local(pl["l"], depth + 1)
        if not idx:
            return base
        if base is None:
            return None
        if len(idx) == 1 and isinstance(idx[0], dict):
            p = idx[0]
            if "cidx" in p or p.get("k") == "cidx" or "off" in p:
                k = p.get("cidx", p.get("off"))
                return [base[k]] if isinstance(k, int) and k < len(base) else None
            if p.get("k") == "tuple" and p.get("f") == 0:
                return base
        return None

    def ev_op(op, depth):
        c = op.get("const")
        if c is not None:
            if isinstance(c.get("v"), int) and c.get("ty") in W:
                return [(c["v"] >> (8 * k)) & 0xFF if ((c["v"] >> (8 * k)) & 0xFF) else 0 for k in range(W[c["ty"]])]
            return None
        pl = op_place(op)
        return ev_place(pl, depth) if pl is not None else None

    def comb(x, y):
        if x is None or y is None or len(x) != len(y):
            return None
        out = []
        for a, b_ in zip(x, y):
            if a == 0:
                out.append(b_)
            elif b_ == 0:
                out.append(a)
            else:
                return None
        return out

    def ev_local(l, depth=0):
        if depth > 16:
            return None
        res = None
        ds = pk.defs().get(l, [])
        if not ds:
            return None
        for bi, si, kind, payload in ds:
            v = None
            if kind == "assign":
                rv = payload["rv"]
                if rv["k"] == "use":
                    v = ev_op(rv["a"][0], depth + 1)
                elif rv["k"] == "cast":
                    x = ev_op(rv["a"][0], depth + 1)
                    w = W.get(rv.get("to"))
                    v = (x + [0] * w)[:w] if x is not None and w else None
                elif rv["k"] == "bin":
                    o = rv["op"].replace("WithOverflow", "")
                    x = ev_op(rv["a"][0], depth + 1)
                    if o in ("Shl", "Shr"):
                        n = rv["a"][1].get("const", {}).get("v")
                        if x is not None and isinstance(n, int) and n % 8 == 0:
                            k = n // 8
                            v = ([0] * k + x)[:len(x)] if o == "Shl" else (x[k:] + [0] * k)
                    elif o in ("Add", "BitOr", "BitXor"):
                        v = comb(x, ev_op(rv["a"][1], depth + 1))
                elif rv["k"] == "agg" and rv.get("ak") == "array":
                    parts = [ev_op(a, depth + 1) for a in rv["a"]]
                    v = [p[0] for p in parts] if all(p is not None and len(p) == 1 for p in parts) else None
            elif kind == "call":
                c = payload
                name = c.decl_s or ""
                if name.endswith("::to_le_bytes") or name.endswith("::to_ne_bytes"):
                    v = ev_op(c.args[0], depth + 1)
                elif name.endswith("::to_be_bytes"):
                    x = ev_op(c.args[0], depth + 1)
                    v = list(reversed(x)) if x is not None else None
                elif name in ("From::from", "Into::into") or name.endswith(" as From>::from"):
                    x = ev_op(c.args[0], depth + 1)
                    w = width_of(c.dest["l"])
                    v = (x + [0] * w)[:w] if x is not None and w else None
                elif name.endswith("EtherCrabWireSized::buffer"):
                    v = [0, 0, 0, 0]
            if v is None:
                return None
            if res is None:
                res = v
            elif res != v:
                return "multi"
        return res

    forms = []
    for bi, si, kind, payload in pk.defs().get(0, []):
        variants.clear()
        v = None
        if kind == "call":
            c = payload
            name = c.decl_s or ""
            if name.endswith("::to_le_bytes"):
                v = ev_op(c.args[0], 0)
            elif name.endswith("::to_be_bytes"):
                x = ev_op(c.args[0], 0)
                v = list(reversed(x)) if x is not None else None
            elif name.endswith("EtherCrabWireSized::buffer"):
                v = [0, 0, 0, 0]
        elif kind == "assign":
            rv = payload["rv"]
            if rv["k"] == "use":
                v = ev_op(rv["a"][0], 0)
            elif rv["k"] == "agg" and rv.get("ak") == "array":
                parts = [ev_op(a, 0) for a in rv["a"]]
                v = [p[0] for p in parts] if all(p is not None and p != "multi" and len(p) == 1 for p in parts) else None
        if v == "multi":
            v = None
        forms.append((v, set(variants)))
    return forms


def _lb_packed_len(prog, b, op, depth=0):
    """Is the integer operand bounded from below by a `packed_len()` call?  x = packed_len(); max(a, b) with either
    side bounded; map_or(default, f) with both the default and the closure's result bounded; casts and moves."""
    if depth > 10:
        return False
    pl = op_place(op)
    if pl is None or pl["p"]:
        return False
    ds = b.defs().get(pl["l"], [])
    if not ds:
        return False
    for bi, si, kind, payload in ds:
        if kind == "assign":
            rv = payload["rv"]
            if rv["k"] in ("use", "cast") and _lb_packed_len(prog, b, rv["a"][0], depth + 1):
                continue
            return False
        if kind != "call":
            return False
        c = payload
        name = c.decl_s or ""
        if name.endswith("::packed_len"):
            continue
        if name in ("Ord::max", "cmp::max") and (_lb_packed_len(prog, b, c.args[0], depth + 1) or _lb_packed_len(prog, b, c.args[1], depth + 1)):
            continue
        if name in ("<usize as From>::from", "From::from", "Into::into") and _lb_packed_len(prog, b, c.args[0], depth + 1):
            continue
        if name == "Option::map_or" and _lb_packed_len(prog, b, c.args[1], depth + 1) and _closure_lb(prog, b, c.args[2], depth + 1):
            continue
        if name == "Option::map_or_else" and _closure_lb(prog, b, c.args[1], depth + 1) and _closure_lb(prog, b, c.args[2], depth + 1):
            continue
        return False
    return True


def _closure_lb(prog, b, op, depth):
    pl = op_place(op)
    if pl is None or pl["p"]:
        return False
    for bi, si, kind, payload in b.defs().get(pl["l"], []):
        if kind == "assign" and payload["rv"]["k"] == "agg" and payload["rv"].get("ak") == "closure":
            from ..core import norm

            cb = prog.by_path.get(norm(payload["rv"]["def"]))
            if cb is None:
                return False
            return _lb_packed_len(prog, cb, {"copy": {"l": 0, "p": []}}, depth + 1)
    return False


def pushes(prog, rep, tag):
    P = "C04.push"
    facts = {}
    for fn in ("CreatedFrame::push_pdu", "CreatedFrame::push_pdu_slice_rest"):
        f = _push_facts(prog, fn)
        facts[fn] = f
        b = f["body"]
        pr = Prov(b)
        ok = len(f["range_get"]) == 1 and len(f["add_pdu"]) == 1 and len(f["writes"]) == 2 and bool(f["too_long"])
        d = {}
        if ok:
            g = f["range_get"][0]
            tr = q.ok_edge_of_try(b, g)
            if tr is None:
                for c in b.calls():
                    if c.is_("Option::ok_or_else", "Option::ok_or") and (op_place(c.args[0]) or {}).get("l") == g.dest["l"]:
                        tr = q.ok_edge_of_try(b, c)
            okedge = tr is not None and tr[1] is not None
            dom = q.edge_dominated(b, tr[0], tr[1]) if okedge else set()
            d["writes-after-bounds-ok"] = okedge and all(w.bb in dom for w in f["writes"]) and f["add_pdu"][0].bb in dom
            # the buffer written is the checked range
            w0 = pr.of_operand(f["writes"][0].args[1])
            d["writes-into-checked-range"] = any(x[0] == "call" and x[1] == "slice::get_mut" and x[2] == g.bb for x in Prov(b, transparent=Prov(b).transparent - {"slice::get_mut"}).of_operand(f["writes"][0].args[1]))
            w1 = Prov(b, transparent=Prov(b).transparent - {"slice::get_mut"}).of_operand(f["writes"][1].args[1])
            d["payload-after-header"] = has_root(w1, "call", "generate::write_packed")
            # TooLong built on the failing side (closure of ok_or_else) - it exists in the group
            d["too-long-on-failure"] = bool(f["too_long"])
            # add_pdu receives the alloc that sized the range: alloc = len + PDU_OVERHEAD
            a = pr.of_operand(f["add_pdu"][0].args[1])
            rng = pr.of_operand(g.args[1])
            core_a = {x for x in a if x[0] in ("const", "call", "arg") and x[:2] != ("call", "FrameBox::pdu_payload_len")}
            d["add_pdu-same-alloc"] = has_root(a, "binop", "Add") and any(x[0] == "const" and "PDU_OVERHEAD_BYTES" in str(x[1]) for x in a) and core_a <= set(rng)
            # back-patch after add_pdu
            d["patch-after-add"] = bool(f["patch"]) and all(p_.bb in b.reachable_strict(f["add_pdu"][0].bb) for p_ in f["patch"])
            # header fields
            hs = q.aggregates(b, "PduHeader")
            if len(hs) == 1:
                h = hs[0][2]
                d["header-flags-len"] = has_root(pr.of_operand(q.agg_field(h, "flags")), "call", "PduFlags::new")
                d["header-irq-zero"] = q.const_int(q.agg_field(h, "irq")) == 0
                d["header-command"] = has_root(pr.of_operand(q.agg_field(h, "command_raw")), "call", "<Command as EtherCrabWireWriteSized>::pack") or has_root(pr.of_operand(q.agg_field(h, "command_raw")), "call", "EtherCrabWireWriteSized::pack")
            else:
                d["header"] = False
            ok = all(d.values())
        rep.ob(P, "%s:bounded-write%s" % (fn, tag), ok, "%s writes only into pdu_buf_mut().get_mut(used..used+alloc) whose failure is TooLong; %s" % (fn, d), loc=b.span)
    # the length written into the datagram header and used for the allocation covers the data that is written:
    # push_pdu writes all of `data` (packed_len() bytes) after the header, so its length value must be bounded
    # from below by data.packed_len() (an explicit length may only enlarge the datagram: "zero padded to an explicit
    # length"); push_pdu_slice_rest writes exactly the sub-slice whose length it announces
    b = facts["CreatedFrame::push_pdu"]["body"]
    fl = b.calls_to("PduFlags::new")
    ok = len(fl) == 1 and _lb_packed_len(prog, b, fl[0].args[0])
    rep.ob(P, "CreatedFrame::push_pdu:length-covers-data" + tag, ok, "the datagram length announced by push_pdu is data.packed_len(), or the maximum of it and the explicit length: never less than the bytes written", loc=b.span, how="dataflow")
    b = facts["CreatedFrame::push_pdu_slice_rest"]["body"]
    fl = b.calls_to("PduFlags::new")
    ok = len(fl) == 1
    if ok:
        pr = Prov(b)
        ln = pr.of_operand(fl[0].args[0])
        # announced length = min(space, data length) in any form; the written slice is bytes[0..len] / bytes[..len] with
        # that same value
        m_op = fl[0].args[0]
        m = q.as_min(b, m_op)
        if m is None:
            # through a cast (`as u16`)
            pl_ = op_place(m_op)
            for d_ in (b.defs().get(pl_["l"], []) if pl_ is not None and not pl_["p"] else []):
                if d_[2] == "assign" and d_[3]["rv"]["k"] == "cast" and q.as_min(b, d_[3]["rv"]["a"][0]) is not None:
                    m_op = d_[3]["rv"]["a"][0]
                    m = q.as_min(b, m_op)
        ok = m is not None
        if ok:
            # one side is the data's length, and the slice written ends at that very value
            sides = [frozenset([("call", x["callval"].name)]) if "callval" in x else pr.of_operand(x) for x in m]
            ok = any(any(r[0] == "call" and (r[1].endswith("::packed_len") or r[1].endswith("::len")) for r in sd) for sd in sides)
            ends = []
            for bi_, si_, st_ in q.aggregates(b, None):
                if st_["rv"].get("ak") == "adt" and last_seg_(st_["rv"].get("adt")) in ("Range", "RangeTo"):
                    e_ = q.agg_field(st_, "end")
                    if e_ is not None and q._same_operand_value(b, e_, m_op):
                        ends.append(st_["place"]["l"])
            idx = [c for c in b.calls() if c.is_("Index::index") and (op_place(c.args[1]) or {}).get("l") in ends]
            ok = ok and bool(idx)
    rep.ob(P, "CreatedFrame::push_pdu_slice_rest:length-is-slice-written" + tag, ok, "push_pdu_slice_rest announces min(space, data length) and writes exactly bytes[0..that]", loc=b.span, how="dataflow")

    # siblings agree on the sequence of effects
    def seq(f):
        b = f["body"]
        names = ("FrameBox::next_pdu_idx", "slice::get_mut", "generate::write_packed", "FrameBox::add_pdu")
        order = []
        for c in sorted(b.calls(), key=lambda c: c.bb):
            if c.name in names or c.decl_s in names:
                order.append(c.decl_s if c.decl_s in names else c.name)
        return order

    a, b_ = seq(facts["CreatedFrame::push_pdu"]), seq(facts["CreatedFrame::push_pdu_slice_rest"])
    rep.ob(P, "siblings-agree" + tag, a == b_, "push_pdu and push_pdu_slice_rest perform the same sequence of effects: %s" % a, how="table")


def last_seg_(p):
    from ..core import last_seg, norm
    return last_seg(norm(p)) if p else None


def headers(prog, rep, tag):
    P = "C04.hdr"
    b = prog.body("CreatedFrame::mark_sendable")
    pr = Prov(b)
    h = b.calls_to("EthercatFrameHeader::pdu")
    ok = len(h) == 1 and has_root(pr.of_operand(h[0].args[0]), "call", "FrameBox::pdu_payload_len")
    st = b.calls_to("FrameBox::set_state")
    ok = ok and len(st) == 1 and b.dominates(h[0].bb, st[0].bb)
    rep.ob(P, "mark_sendable:length" + tag, ok, "the EtherCAT header carries pdu_payload_len() and is written before the frame is published", loc=b.span, how="dataflow")
    ab = prog.body("SendableFrame::as_bytes")
    pr = Prov(ab)
    from .. import linexpr

    ok = False
    got = None
    want = {("call", "FrameBox::pdu_payload_len"): 1, 1: 16}
    for c in ab.calls():
        if c.is_("Index::index"):
            # the range's end as a linear value: Ethernet header (14) + EtherCAT header (2) + pdu_payload_len()
            for bi, si, st in q.aggregates(ab, None):
                if st["rv"].get("ak") == "adt" and last_seg_(st["rv"].get("adt")) in ("Range", "RangeTo") and (op_place(c.args[1]) or {}).get("l") == st["place"]["l"]:
                    endop = q.agg_field(st, "end")
                    startop = q.agg_field(st, "start") if last_seg_(st["rv"].get("adt")) == "Range" else None
                    got = linexpr.lin(prog, ab, endop)
                    ok = got == want and (startop is None or q.const_int(startop) == 0)
    rep.ob(P, "as_bytes:trimmed" + tag, ok, "as_bytes is frame[0..14 + 2 + pdu_payload_len()] (range end evaluates to: %s)" % linexpr.show(got), loc=ab.span, how="dataflow")
