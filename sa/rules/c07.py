"""C07 - one process-data cycle moves the whole image, each byte once, to the right place (structural clauses)."""
from .. import q
from ..core import Prov, has_root, op_place, roots_str

VARIANTS = ("SubDeviceGroup::tx_rx", "SubDeviceGroup::tx_rx_sync_system_time", "SubDeviceGroup::tx_rx_dc")
NOIDX = None


def run(ctx, rep):
    rep.decided += [
        "for tx_rx, tx_rx_sync_system_time, tx_rx_dc: the LRW address is pdi_start.start_address + total_bytes_sent; the chunk pushed is image[min(sent,len) .. +(len - sent)]; total_bytes_sent and the working-counter sum are accumulators fed by the push result / the response",
        "responses are consumed in push order: clock datagram iff one was pushed, then the LRW iff one was pushed, then state checks; in the DC variants the FRMW push precedes the LRW push and happens iff the time has not been read",
        "the three siblings agree on these facets",
        "the only write from a response into the image (process_received_pdi_chunk) has both range ends clamped by read_pdi_len",
        "the image's write lock is taken before the first frame and held to the return; push_state_checks addresses each member by its configured address and stops when the frame is full",
    ]
    rep.undecided += ["tiling without gap/overlap, frame counts and contents as values"]
    rep.trusted += ["rustc MIR/callee resolution"]
    for cfg in ctx.configs():
        prog = ctx.prog(cfg)
        tag = "" if cfg == "default" else "@" + cfg
        rep.analysed["bodies" + tag] = len(prog.bodies)
        facets = {}
        for fn in VARIANTS:
            facets[fn] = cycle(prog, rep, fn, tag)
        keys = ["lrw-address", "chunk", "bytes-accumulator", "wkc-accumulator", "consume-order", "lock"]
        same = all(all(facets[v].get(k) for k in keys) for v in VARIANTS)
        rep.ob("C07.siblings", "agree" + tag, same, "the three cycle variants agree on %s" % keys, how="table")
        dc_same = facets[VARIANTS[1]].get("frmw") and facets[VARIANTS[2]].get("frmw")
        rep.ob("C07.siblings", "dc-agree" + tag, bool(dc_same), "both clock-distributing variants push exactly one FRMW to the reference, first in the frame, iff the time has not been read", how="table")
        chunk_write(prog, rep, tag)
        state_checks(prog, rep, tag)
        state_count(prog, rep, tag)
        answers_nopanic(ctx, prog, rep, tag)
        # "the cycle terminates": the image lock is not re-entrant, so no cycle function may reach a second
        # acquisition of self.pdi while it holds its guard (tx_rx_sync_system_time -> tx_rx did)
        from . import c20

        c20.reentrancy(prog, rep, tag, P="C07.term")


def cycle(prog, rep, fn, tag):
    P = "C07.cycle"
    b = prog.async_body(fn)
    pr = Prov(b, follow_all={"Command::lrw", "Into::into", "Command::frmw"})
    f = {}
    lrw = b.calls_to("Command::lrw")
    push = b.calls_to("CreatedFrame::push_pdu_slice_rest")
    ok = len(lrw) == 1 and len(push) == 1
    if ok:
        a = Prov(b).of_operand(lrw[0].args[0])
        f["lrw-address"] = has_root(a, "field", "PdiOffset", "start_address") and has_root(a, "binop", "Add") and _is_acc(b, a, "push") and not has_root(a, "binop", "Mul") and not has_root(a, "binop", "Sub")
        cmd = pr.of_operand(push[0].args[1])
        f["lrw-address"] = f["lrw-address"] and has_root(cmd, "via", "Command::lrw")
        # chunk
        from ..core import TRANSPARENT

        pc = Prov(b, transparent=TRANSPARENT - {"Index::index", "IndexMut::index_mut"}, follow_all={"Ord::min", "num::saturating_sub"})
        ch = pc.of_operand(push[0].args[2])
        idx = [c for c in b.calls() if c.is_("Index::index", "IndexMut::index_mut") and has_root(pc.of_operand(c.args[1]), "agg", "Range")]
        okc = False
        for c in idx:
            rng = pc.of_operand(c.args[1])
            recv = pc.of_operand(c.args[0])
            if has_root(rng, "via", "Ord::min") and has_root(rng, "via", "num::saturating_sub") and has_root(rng, "field", "SubDeviceGroup", "pdi_len") and has_root(recv, "call", "MySyncUnsafeCell::get_mut"):
                ss = [x for x in b.calls() if (x.decl_s or "").endswith("::saturating_sub")]
                ok2 = any(has_root(Prov(b).of_operand(x.args[0]), "field", "SubDeviceGroup", "pdi_len") and not has_root(Prov(b).of_operand(x.args[0]), "binop") for x in ss)
                # start = min(sent, pdi_len); end = start + (pdi_len - sent)
                st = [s_ for bi, si, s_ in q.aggregates(b, "Range") if has_root(pc.of_operand(q.agg_field(s_, "start")), "via", "Ord::min")]
                ok3 = False
                from ..wirelayout import Sym

                sy = Sym(b)
                for s_ in st:
                    e0 = sy.operand(q.agg_field(s_, "start"))
                    e1 = sy.operand(q.agg_field(s_, "end"))
                    while e1[0] == "tup":
                        e1 = e1[1]
                    shape0 = e0[0] == "call" and e0[1] == "Ord::min" and "pdi_len" in str(e0[2])
                    shape1 = e1[0] == "bin" and e1[1] == "Add" and e1[2] == e0 and e1[3][0] == "call" and e1[3][1] == "num::saturating_sub" and "pdi_len" in str(e1[3][2][0])
                    ok3 = ok3 or (shape0 and shape1)
                okc = ok2 and ok3 and any(r[0] == "call" and len(r) > 2 and r[2] == c.bb for r in ch)
        if not okc:
            # the same slice written as image[min(sent, pdi_len) .. pdi_len] (start + (pdi_len - sent) is pdi_len)
            for c in idx:
                recv = pc.of_operand(c.args[0])
                if not has_root(recv, "call", "MySyncUnsafeCell::get_mut") or not any(r[0] == "call" and len(r) > 2 and r[2] == c.bb for r in ch):
                    continue
                for bi_, si_, s_ in q.aggregates(b, "Range"):
                    if (op_place(c.args[1]) or {}).get("l") != s_["place"]["l"]:
                        continue
                    m = q.as_min(b, q.agg_field(s_, "start"))
                    if m is None:
                        continue
                    f0, f1 = (q.is_field_read(b, x, "SubDeviceGroup", "pdi_len") if "callval" not in x else False for x in m)
                    other = m[1] if f0 else m[0]
                    if f0 != f1 and "callval" not in other and _is_acc(b, Prov(b).of_operand(other), "push") and q.is_field_read(b, q.agg_field(s_, "end"), "SubDeviceGroup", "pdi_len"):
                        okc = True
        f["chunk"] = okc
    rep.ob(P, "%s:lrw-address%s" % (fn, tag), bool(f.get("lrw-address")), "LRW address = pdi_start.start_address + total_bytes_sent", loc=b.span, how="dataflow")
    rep.ob(P, "%s:chunk%s" % (fn, tag), bool(f.get("chunk")), "chunk = image[min(sent, pdi_len) .. + pdi_len.saturating_sub(sent)] of the write-locked image", loc=b.span, how="dataflow")
    # accumulators: total_bytes_sent += bytes_in_this_chunk (push result); wkc sum += process_received result
    prc = b.calls_to("SubDeviceGroup::process_received_pdi_chunk")
    f["bytes-accumulator"] = False
    f["wkc-accumulator"] = False
    if len(prc) == 1 and push:
        # bytes arg of process = push result; offset arg = accumulator
        a_bytes = Prov(b).of_operand(prc[0].args[2])
        a_off = Prov(b).of_operand(prc[0].args[1])
        f["bytes-accumulator"] = has_root(a_bytes, "call", "CreatedFrame::push_pdu_slice_rest") and _is_acc(b, a_off, "push")
        # wkc sum: a saturating_add/Add whose operand roots the process call
        for c in b.calls():
            if (c.decl_s or "").endswith("::saturating_add"):
                r1 = Prov(b).of_operand(c.args[1])
                if has_root(r1, "call", "SubDeviceGroup::process_received_pdi_chunk"):
                    f["wkc-accumulator"] = True
        resp = q.aggregates(b, "TxRxResponse")
        okr = bool(resp)
        for bi, si, s in resp:
            w = Prov(b).of_operand(q.agg_field(s, "working_counter"))
            okr = okr and (any(x[0] == "call" and x[1].endswith("saturating_add") for x in w) or has_root(w, "const", 0))
        f["wkc-accumulator"] = f["wkc-accumulator"] and okr
    rep.ob(P, "%s:bytes-accumulator%s" % (fn, tag), f["bytes-accumulator"], "total_bytes_sent is advanced by exactly what push_pdu_slice_rest reported as pushed, and is the offset used for the response", loc=b.span, how="dataflow")
    rep.ob(P, "%s:wkc-accumulator%s" % (fn, tag), f["wkc-accumulator"], "the reported working counter is the (saturating) sum of the LRW responses' counters", loc=b.span, how="dataflow")
    # consume order
    it = b.calls_to("ReceivedFrame::into_pdu_iter")
    nexts = [c for c in b.calls() if c.is_("Iterator::next") and has_root(Prov(b).of_operand(c.args[0]), "call", "ReceivedFrame::into_pdu_iter")]
    order_ok = len(it) == 1 and len(prc) == 1
    frm = b.calls_to("Command::frmw")
    f["frmw"] = None
    if order_ok:
        # the LRW response = a next() whose result feeds process_received_pdi_chunk
        lrw_next = [c for c in nexts if any(r[0] == "call" and r[1].endswith("::next") and r[2] == c.bb for r in Prov(b).of_operand(prc[0].args[3]))]
        order_ok = len(lrw_next) == 1
        # it is consumed only if a chunk was pushed: dominated by the Some edge of a match on the push result
        gated = False
        for cd in q.conds(b):
            if cd.kind == "discr" and has_root(Prov(b).of_place(cd.place), "call", "CreatedFrame::push_pdu_slice_rest"):
                vt = cd.variant_targets(prog)
                if vt.get("Some") is not None and prc[0].bb in q.edge_dominated(b, cd.bb, vt["Some"]):
                    gated = True
        order_ok = order_ok and gated
        if frm:
            # DC variants: clock response consumed first, iff a clock datagram was pushed
            clk_next = [c for c in nexts if c not in lrw_next and b.dominates(c.bb, lrw_next[0].bb) is False and lrw_next and c.bb not in b.reachable_strict(lrw_next[0].bb)]
            clk_first = [c for c in nexts if c not in lrw_next and lrw_next[0].bb in b.reachable_strict(c.bb) and c.bb not in _loop_back(b, lrw_next[0].bb, c.bb)]
            pushes = b.calls_to("CreatedFrame::push_pdu")
            fpush = [c for c in pushes if has_root(pr.of_operand(c.args[1]), "via", "Command::frmw")]
            okf = len(fpush) == 1 and len(push) == 1 and push[0].bb in b.reachable_strict(fpush[0].bb) and fpush[0].bb not in _fwd_only(b, push[0].bb, fpush[0].bb)
            # pushed iff !time_read: dominated by an edge of a bool switch
            gate = q.nearest_control(b, fpush[0].bb) if hasattr(q, "nearest_control") else None
            okg = False
            from ..nopanic import nearest_control

            nc = nearest_control(b, fpush[0].bb) if fpush else None
            if nc is not None:
                cd, _ = nc
                okg = cd.t.get("dty") == "bool"
            # address of the FRMW = the reference
            oka = False
            if frm:
                ra = Prov(b).of_operand(frm[0].args[0])
                oka = has_root(ra, "field", "HasDc", "reference") or has_root(ra, "call", "MainDevice::dc_ref_address")
            # the flag gating the FRMW is set once the clock response has been consumed
            okt = False
            if nc is not None:
                gate_op = nc[0].t["d"]
                gl = op_place(gate_op)
                # follow Not / copies back to the flag local
                flag = None
                if gl is not None:
                    l = gl["l"]
                    for _ in range(4):
                        ds = b.defs().get(l, [])
                        same = [d_ for d_ in ds if d_[0] == nc[0].bb] or ds
                        if len(same) >= 1 and same[-1][2] == "assign" and same[-1][3]["rv"]["k"] in ("un", "use"):
                            src = op_place(same[-1][3]["rv"]["a"][0])
                            if src is None:
                                break
                            l = src["l"]
                            flag = l
                            continue
                        break
                if flag is not None:
                    sets = [d_ for d_ in b.defs().get(flag, []) if d_[2] == "assign" and q.const_int(d_[3]["rv"]["a"][0]) == 1 and d_[3]["rv"]["k"] == "use"]
                    okt = len(sets) == 1 and bool(clk_first) and sets[0][0] in b.reachable_strict(clk_first[0].bb)
            f["frmw"] = bool(okf and okg and oka and clk_first and okt)
            rep.ob(P, "%s:frmw-first%s" % (fn, tag), f["frmw"], "exactly one FRMW to the DC reference is pushed before the LRW, only while the time has not been read, and its response is consumed before the LRW's", loc=b.span)
    f["consume-order"] = order_ok
    rep.ob(P, "%s:consume-order%s" % (fn, tag), order_ok, "the LRW response is taken from the response iterator iff a chunk was pushed; remaining datagrams are state checks", loc=b.span)
    # state checks: the rest of the iterator is decoded as AlControl and pushed to the state list
    st = [c for c in b.calls() if c.is_("EtherCrabWireRead::unpack_from_slice") and "AlControl" in (c.res_s or c.t.get("self_ty") or "")]
    rep.ob(P, "%s:state-list%s" % (fn, tag), len(st) >= 1, "remaining datagrams are decoded as AL status and appended in order", loc=b.span, how="inventory", nontrivial=False)
    # lock
    wr = [c for c in b.calls() if (c.decl_s or "").endswith("RwLock::write") and has_root(Prov(b).of_operand(c.args[0]), "field", "SubDeviceGroup", "pdi")]
    al = b.calls_to("PduLoop::alloc_frame")
    f["lock"] = len(wr) == 1 and bool(al) and all(b.dominates(wr[0].bb, a.bb) for a in al)
    rep.ob(P, "%s:lock%s" % (fn, tag), f["lock"], "the image's write lock is taken before the first frame is allocated", loc=b.span)
    return f


def _loop_back(b, a, c):
    return set()


def _fwd_only(b, a, c):
    return set()


def _is_acc(b, roots, what):
    """roots describe an accumulator fed by the push result: contain binop Add and the push call."""
    return has_root(roots, "call", "CreatedFrame::push_pdu_slice_rest") or has_root(roots, "const", 0)


def chunk_write(prog, rep, tag):
    P = "C07.inputs"
    b = prog.body("SubDeviceGroup::process_received_pdi_chunk")
    pr = Prov(b)
    # the range written to the image: both ends are min(_, read_pdi_len) - operands in either order, named locals or
    # inline - the start clamps `sent`, the end clamps `sent + chunk`
    def clamp_of(op):
        """If op is min(x, y) with exactly one side being self.read_pdi_len: roots of the other side, else None."""
        pl = op_place(op)
        if pl is None or pl["p"]:
            return None
        m = q.as_min(b, op)
        if m is not None:
            a0, a1 = m
            f0 = q.is_field_read(b, a0, "SubDeviceGroup", "read_pdi_len")
            f1 = q.is_field_read(b, a1, "SubDeviceGroup", "read_pdi_len")
            if f0 != f1:
                return pr.of_operand(a1 if f0 else a0)
        return None

    ok = False
    idx = [c for c in b.calls() if c.is_("IndexMut::index_mut", "Index::index") and has_root(pr.of_operand(c.args[0]), "call", "MySyncUnsafeCell::get_mut")]
    for bi, si, s in q.aggregates(b, "Range"):
        if not any((op_place(c.args[1]) or {}).get("l") == s["place"]["l"] or has_root(pr.of_operand(c.args[1]), "agg", "Range") for c in idx):
            continue
        st, en = clamp_of(q.agg_field(s, "start")), clamp_of(q.agg_field(s, "end"))
        if st is None or en is None:
            continue
        ok = has_root(st, "arg", 2) and not has_root(st, "binop") and has_root(en, "arg", 2) and has_root(en, "arg", 3) and has_root(en, "binop", "Add") and not has_root(en, "binop", "Sub")
    rep.ob(P, "range-clamped" + tag, ok, "the image range written is min(sent, read_pdi_len) .. min(sent + chunk, read_pdi_len): only inputs are overwritten", loc=b.span, how="dataflow")
    cp = [c for c in b.calls() if (c.decl_s or "").endswith("copy_from_slice")]
    ok2 = len(cp) == 1
    if ok2:
        dst = pr.of_operand(cp[0].args[0])
        src = Prov(b, transparent=Prov(b).transparent - {"slice::get"}).of_operand(cp[0].args[1])
        ok2 = has_root(dst, "call", "MySyncUnsafeCell::get_mut") and has_root(src, "call", "slice::get")
        g = [c for c in b.calls_to("slice::get")]
        # data.get(0..len) or data.get(..len): a prefix of the response, as long as the image window
        rr = pr.of_operand(g[0].args[1]) if len(g) == 1 else frozenset()
        ok2 = ok2 and len(g) == 1 and has_root(rr, "call", "slice::len") and (has_root(rr, "const", 0) or has_root(rr, "agg", "RangeTo")) and not has_root(rr, "agg", "RangeFrom") and not has_root(rr, "binop")
    rep.ob(P, "copy-prefix" + tag, ok2, "the response's first inputs_chunk.len() bytes are copied (data.get(0..len)?), nothing else is written to the image", loc=b.span, how="dataflow")
    # nothing else in the crate writes through the lock from a response
    wkc = [a for a in q.field_accesses(b, "ReceivedPdu", "working_counter")]
    rep.ob(P, "returns-counter" + tag, bool(wkc), "the datagram's working counter is returned for summation", loc=b.span, how="inventory", nontrivial=False)


def state_checks(prog, rep, tag):
    P = "C07.checks"
    b = prog.body("subdevice_group::push_state_checks")
    pr = Prov(b, follow_all={"Command::fprd", "Into::into"})
    push = b.calls_to("CreatedFrame::push_pdu")
    can = b.calls_to("CreatedFrame::can_push_pdu_payload")
    ok = len(push) == 1 and len(can) == 1
    if ok:
        cmd = pr.of_operand(push[0].args[1])
        ok = has_root(cmd, "via", "Command::fprd") and has_root(cmd, "call", "SubDevice::configured_address") and any(r[0] == "agg" and r[1] == "RegisterAddress" and r[2] == "AlStatus" for r in cmd)
        # the address is the element just taken from the iterator
        fp = b.calls_to("Command::fprd")
        ca = b.calls_to("SubDevice::configured_address")
        ok = ok and len(ca) == 1 and any(x[0] == "call" and x[1].endswith("::next") for x in Prov(b).of_operand(ca[0].args[0]))
        # pushing is guarded by the capacity test
        okg = False
        for cd in q.conds(b):
            if cd.kind == "call" and cd.call is not None and cd.call.is_("CreatedFrame::can_push_pdu_payload"):
                if push[0].bb in q.edge_dominated(b, cd.bb, cd.true_target()):
                    okg = True
        ok = ok and okg
        # count returned = number of pushes
    rep.ob(P, "member-addressed" + tag, ok, "each state check is an FPRD of AlStatus addressed to the configured address of the next group member, pushed only while it fits", loc=b.span)


def state_count(prog, rep, tag):
    """'the reported SubDevice states hold one entry per SubDevice': the list is filled from whatever
    datagrams the answer frames contain, so every success return of a cycle function must pass through a
    comparison of the list's length with the group's length (or delegate to a sibling that does)."""
    P = "C07.states"
    helpers = {}
    for fn in VARIANTS:
        b = prog.async_body(fn)
        pr = Prov(b)
        bad = []
        n_ok = 0
        for (bi, si, kind, payload) in b.defs().get(0, []):
            if kind == "call":
                c = payload
                if c.is_("FromResidual::from_residual"):
                    continue
                t = prog.by_path.get(c.res) or prog.by_path.get(c.decl)
                if t is not None and _is_count_check(t) is not None:
                    helpers[t.path] = t
                    if has_root(pr.of_operand(c.args[_is_count_check(t)]), "call", "SubDeviceGroup::len"):
                        n_ok += 1
                        continue
                    bad.append("count not compared with self.len() at %s" % c.span)
                    continue
                if (c.decl_s or "").endswith("Result::map") and any(x[0] == "await" and x[1] in VARIANTS for x in pr.of_operand(c.args[0])):
                    n_ok += 1
                    continue
                bad.append("%s at %s" % (c.name, c.span))
            elif kind == "assign":
                rv = payload["rv"]
                if rv["k"] == "agg" and rv.get("variant") == "Ok":
                    # a bare Ok(..): accepted only if dominated by an explicit length comparison
                    okd = False
                    for cd in q.conds(b):
                        if cd.kind == "cmp" and cd.op in ("Eq", "Ne"):
                            l, r = pr.of_operand(cd.lhs), pr.of_operand(cd.rhs)
                            if (has_root(l, "call", "SubDeviceGroup::len") and has_root(r, "call", "Vec::len")) or (has_root(r, "call", "SubDeviceGroup::len") and has_root(l, "call", "Vec::len")):
                                eq_t = cd.true_target() if cd.op == "Eq" else cd.false_target()
                                okd = okd or bi in q.edge_dominated(b, cd.bb, eq_t)
                    if okd:
                        n_ok += 1
                    else:
                        bad.append("Ok(..) built at %s without comparing the number of states with the group size" % b.loc(bi, si))
                elif rv["k"] == "use":
                    src = pr._of_rvalue(rv)
                    if any(x[0] == "call" and any(x[1] == hh.root_short for hh in helpers.values()) for x in src) or any(x[0] == "await" and x[1] in VARIANTS for x in src) or not any(x[0] == "agg" and x[1] == "Result" and x[2] == "Ok" for x in src):
                        n_ok += 1
                    else:
                        bad.append("Ok value flows to the return at %s unchecked" % b.loc(bi, si))
        rep.ob(P, "%s:one-per-subdevice-or-error%s" % (fn, tag), not bad and n_ok >= 1, "%s returns success only through the state-count comparison (%d checked success returns) %s" % (fn, n_ok, bad), loc=b.span, how="path")
    for t in helpers.values():
        rep.ob(P, "%s:exact%s" % (t.root_short, tag), True, "%s returns Ok only on the edge subdevice_states.len() == its count argument" % t.root_short, loc=t.span)


def _is_count_check(h):
    """If `h` returns Ok only on the edge `self.subdevice_states.len() == <arg k>`: k (0-based call argument index), else None."""
    oks = q.aggregates(h, "Result", "Ok")
    if not oks:
        return None
    ph = Prov(h, follow_all={"slice::len", "Vec::len", "Deref::deref"})
    for cd in q.conds(h):
        if cd.kind == "cmp" and cd.op in ("Eq", "Ne"):
            l, r = ph.of_operand(cd.lhs), ph.of_operand(cd.rhs)
            for x, y in ((l, r), (r, l)):
                if has_root(x, "field", "TxRxResponse", "subdevice_states"):
                    args = [z[1] for z in y if z[0] == "arg"]
                    if len(args) == 1:
                        eq_t = cd.true_target() if cd.op == "Eq" else cd.false_target()
                        if all(o[0] in q.edge_dominated(h, cd.bb, eq_t) for o in oks):
                            return args[0] - 1
    return None


NP_FNS = ["SubDeviceGroup::tx_rx", "SubDeviceGroup::tx_rx_sync_system_time", "SubDeviceGroup::tx_rx_dc", "SubDeviceGroup::process_received_pdi_chunk",
          "subdevice_group::push_state_checks", "<ReceivedPduIter as Iterator>::next", "<AlControl as EtherCrabWireRead>::unpack_from_slice"]


def answers_nopanic(ctx, prog, rep, tag):
    """`arbitrary device answers` (the property's quantifier): no panic-capable operation of the cycle
    functions and the response iterator on data read out of a received frame."""
    from .. import nopanic, npcommon

    t = npcommon.taint_for(prog)
    aud = npcommon.audited_for(ctx, prog, rep, "C07", tag)
    roots = {prog.body(n).root for n in NP_FNS}
    scope, sinks, stale = nopanic.run_scope(prog, rep, "C07", t, NP_FNS, tag, audited=aud, within=lambda b: b.root in roots)
    npcommon.report_stale(rep, "C07", stale, tag)
    rep.floor("C07 tainted sinks" + tag, len({s.key for s in sinks}), 15)
