"""C15 - SDO transfers deliver exactly the object's bytes, whatever the transfer type (structural clauses)."""
from .. import q
from ..core import TRANSPARENT, Prov, has_root, op_place, roots_str


def run(ctx, rep):
    rep.decided += [
        "response triage in mailbox_write_read: emergency -> Err(Emergency{..}), abort -> Err(Aborted{code, address, sub_index}), foreign type/index -> Err(SdoResponseInvalid), in that order, each on the matching edge; Ok only when none of them holds; no assertion on the discriminating fields",
        "every request constructor receives a fresh mailbox_counter() result; the counter maps >=7 -> 1 else n+1 and starts at 1",
        "in sdo_read complete_size > buf.len() => Err(TooLong) dominates every copy; the toggle flips once per segment; the expedited length is 4 - size",
        "sdo_write_array / sdo_read_array use sub-indices i+1 / 1..=len and write the count last (after zeroing it first)",
        "validate_response compares index and sub-index of the response with the request's",
        "segmented uploads: every command specifier a SubDevice can answer with (0 segment, 2 upload, 3 download, 4 abort) is decodable; the payload handed back starts after the headers of the service that was decoded (9 bytes for a segment, 12 for an initiate response); the part of the object carried by the initiate response is copied before the segment loop and the running length starts there",
        "every EtherCrabWireSized impl's buffer() is as long as its PACKED_LEN (sdo_read / eeprom_read size their destination with T::buffer())",
        "an emergency is recognised from the mailbox + CoE header alone, before any SDO field is decoded, and its data is read at byte 8",
    ]
    rep.undecided += ["delivered bytes for all sizes x modes x mailbox sizes"]
    rep.trusted += ["rustc MIR/callee resolution"]
    for cfg in ctx.configs():
        prog = ctx.prog(cfg)
        tag = "" if cfg == "default" else "@" + cfg
        rep.analysed["bodies" + tag] = len(prog.bodies)
        triage(prog, rep, tag)
        counter(prog, rep, tag)
        read(prog, rep, tag)
        arrays(prog, rep, tag)
        validate(prog, rep, tag)
        segments(ctx, prog, rep, tag)
        buffers(prog, rep, tag)
        same_mailbox(prog, rep, tag)


def _eq_cond(b, cd, field_adt, field, variant):
    """If cd tests `X.field == Enum::variant` return the target on which it holds."""
    pr = Prov(b)
    if cd.kind == "call" and cd.call is not None and cd.call.is_("PartialEq::eq", "PartialEq::ne"):
        both = pr.of_operand(cd.call.args[0]) | pr.of_operand(cd.call.args[1])
        if has_root(both, "field", field_adt, field) and any(r[0] == "agg" and r[2] == variant for r in both):
            is_eq = cd.call.is_("PartialEq::eq")
            return (cd.true_target() if is_eq else cd.false_target()), (cd.false_target() if is_eq else cd.true_target())
    return None


def triage(prog, rep, tag):
    P = "C15.triage"
    b = prog.async_body("Coe::mailbox_write_read")
    pr = Prov(b)
    em = ab = None
    for cd in q.conds(b):
        r = _eq_cond(b, cd, "CoeHeader", "service", "Emergency")
        if r:
            em = (cd, r)
        r = _eq_cond(b, cd, "HeadersRaw", "command", "Abort")
        if r:
            ab = (cd, r)
    e_aggs = q.aggregates(b, "MailboxError", "Emergency")
    a_aggs = q.aggregates(b, "MailboxError", "Aborted")
    i_aggs = q.aggregates(b, "MailboxError", "SdoResponseInvalid")
    oks = [x for x in q.aggregates(b, "Result", "Ok")]
    d = {}
    ok = em is not None and ab is not None and len(e_aggs) == 1 and len(a_aggs) == 1 and len(i_aggs) == 1 and bool(oks)
    if ok:
        em_dom = q.edge_dominated(b, em[0].bb, em[1][0])
        not_em = q.edge_dominated(b, em[0].bb, em[1][1])
        ab_dom = q.edge_dominated(b, ab[0].bb, ab[1][0])
        not_ab = q.edge_dominated(b, ab[0].bb, ab[1][1])
        d["emergency-edge"] = e_aggs[0][0] in em_dom
        d["abort-edge"] = a_aggs[0][0] in ab_dom and a_aggs[0][0] in not_em and ab[0].bb in not_em
        d["invalid-after-both"] = i_aggs[0][0] in not_em and i_aggs[0][0] in not_ab
        # Ok((headers, response)) only past all three tests
        ok_tuple = [x for x in oks if x[0] in not_em and x[0] in not_ab and x[0] not in b.reachable_from(i_aggs[0][0])]
        final_ok = [x for x in oks if has_root(pr.of_operand(x[2]["rv"]["a"][0]), "call", "EtherCrabWireRead::unpack_from_slice") or any(r[0] == "call" and r[1].endswith("unpack_from_slice") for r in pr.of_operand(x[2]["rv"]["a"][0]))]
        d["ok-past-all"] = bool(final_ok) and all(x[0] in not_em and x[0] in not_ab for x in final_ok)
        # the invalid-response condition: mailbox_type != Coe || !validate_response
        vr = [c for c in b.calls() if (c.decl_s or "").endswith("validate_response")]
        d["validate-called"] = len(vr) == 1 and has_root(pr.of_operand(vr[0].args[1]), "field", "HeadersRaw", "address") and has_root(pr.of_operand(vr[0].args[2]), "field", "HeadersRaw", "sub_index")
        if vr and vr[0].target is not None and not vr[0].dest["p"]:
            # whatever carries the verdict (a branch on the call, `a || !b`, a named bool): once validate_response
            # returned false the success value cannot be reached any more, and it can after true
            no = q.BoolFlow(b, vr[0].target, 0, {vr[0].dest["l"]: 0})
            yes = q.BoolFlow(b, vr[0].target, 0, {vr[0].dest["l"]: 1})
            d["ok-only-if-validated"] = bool(final_ok) and not any(x[0] in no.in_state for x in final_ok) and any(x[0] in yes.in_state for x in final_ok)
        d.setdefault("ok-only-if-validated", False)
        # abort details
        s = a_aggs[0][2]
        d["abort-fields"] = has_root(pr.of_operand(q.agg_field(s, "address")), "field", "HeadersRaw", "address") and has_root(pr.of_operand(q.agg_field(s, "sub_index")), "field", "HeadersRaw", "sub_index") and any(r[0] == "call" and r[1].endswith("unpack_from_slice") for r in pr.of_operand(q.agg_field(s, "code")))
        ok = all(d.values())
    rep.ob(P, "order-and-kinds" + tag, ok, "emergency, abort, invalid-response are tested in this order and each error is built on its own edge; Ok only after all; %s" % d, loc=b.span)
    asserts = [c for c in b.calls() if c.target is None and ("assert_failed" in (c.decl_s or "") or "panic" in (c.decl_s or ""))]
    rep.ob(P, "no-assertions" + tag, not asserts, "mailbox_write_read contains no assertion/panic (contradiction rule: a check that panics before the branch that handles the same condition)", loc=b.span, how="inventory")
    # the reply examined is the one awaited from this device's read mailbox
    wr = b.calls_to("Coe::wait_for_mailbox_response")
    un = [c for c in b.calls() if c.is_("EtherCrabWireRead::unpack_from_slice") and "HeadersRaw" in (c.res_s or "")]
    ok = len(wr) == 1 and len(un) == 1 and has_root(pr.of_operand(un[0].args[0]), "await", "Coe::wait_for_mailbox_response")
    rep.ob(P, "headers-from-reply" + tag, ok, "the triaged headers are decoded from the awaited mailbox response", loc=b.span, how="dataflow")


def counter(prog, rep, tag):
    P = "C15.counter"
    ctors = ("SdoNormal::upload", "SdoSegmented::upload", "SdoExpedited::download", "ObjectDescriptionListRequest::get_object_description_list", "ObjectDescriptionListRequest::new")
    n = 0
    for b in prog.bodies:
        if b.crate != "ethercrab":
            continue
        for c in b.calls():
            if c.name in ctors:
                n += 1
                pr = Prov(b)
                r = pr.of_operand(c.args[0])
                ks = [x for x in r if x[0] == "call" and x[1] == "SubDevice::mailbox_counter"]
                ok = len(ks) >= 1
                if ok:
                    kbb = ks[0][2]
                    in_loop = c.bb in b.reachable_strict(c.bb)
                    ok = (not in_loop) or (kbb in b.reachable_strict(kbb))
                    ok = ok and c.bb in b.reachable_from(kbb)
                rep.ob(P, "%s in %s%s" % (c.name, b.root_short, tag), ok, "%s in %s takes a mailbox_counter() result obtained for this very request%s" % (c.name, b.root_short, " (inside the segment loop)" if ok and c.bb in b.reachable_strict(c.bb) else ""), loc=c.span, how="dataflow")
    rep.floor("C15 request constructions" + tag, n, 4)
    mc = prog.body("SubDevice::mailbox_counter")
    fu = [c for c in mc.calls() if (c.decl_s or "").endswith("::fetch_update")]
    ok = len(fu) == 1 and has_root(Prov(mc).of_operand(fu[0].args[0]), "field", "SubDevice", "mailbox_counter")
    cl = [g for g in prog.group("SubDevice::mailbox_counter") if g.is_closure]
    shape = False
    for g in cl:
        for cd in q.conds(g):
            if cd.kind == "cmp" and cd.op in ("Ge", "Lt") and q.const_int(cd.rhs) == 7:
                ge_t = cd.true_target() if cd.op == "Ge" else cd.false_target()
                lt_t = cd.false_target() if cd.op == "Ge" else cd.true_target()
                somes = q.aggregates(g, "Option", "Some")
                v_ge = [q.const_int(s["rv"]["a"][0]) for bi, si, s in somes if bi in q.edge_dominated(g, cd.bb, ge_t)]
                v_lt = [Prov(g).of_operand(s["rv"]["a"][0]) for bi, si, s in somes if bi in q.edge_dominated(g, cd.bb, lt_t)]
                shape = v_ge == [1] and len(v_lt) == 1 and has_root(v_lt[0], "binop", "Add") and has_root(v_lt[0], "const", 1)
    rep.ob(P, "cycle-1..7" + tag, ok and shape, "mailbox_counter is an atomic fetch_update with n >= 7 -> 1, else n + 1", loc=mc.span, how="dataflow")
    nw = prog.async_body("SubDevice::new")
    ag = q.aggregates(nw, "SubDevice")
    ok = len(ag) == 1
    if ok:
        r = Prov(nw, follow_all={"Atomic::new"}).of_operand(q.agg_field(ag[0][2], "mailbox_counter"))
        ok = has_root(r, "const", 1) and not has_root(r, "const", 0)
    rep.ob(P, "starts-at-1" + tag, ok, "a fresh SubDevice starts its mailbox counter at 1 (0 is reserved)", loc=nw.span, how="dataflow")


def read(prog, rep, tag):
    P = "C15.read"
    b = prog.async_body("Coe::sdo_read")
    pr = Prov(b)
    okc = False
    for cd in q.conds(b):
        if cd.kind == "cmp" and cd.op in ("Gt", "Le"):
            l, r = pr.of_operand(cd.lhs), pr.of_operand(cd.rhs)
            if any(x[0] == "call" and x[1].endswith("unpack_from_slice") for x in l) and has_root(r, "call", "slice::len"):
                gt_t = cd.true_target() if cd.op == "Gt" else cd.false_target()
                le_t = cd.false_target() if cd.op == "Gt" else cd.true_target()
                errs = q.aggregates(b, "MailboxError", "TooLong")
                cps = [c for c in b.calls() if (c.decl_s or "").endswith("copy_from_slice")]
                le_dom = q.edge_dominated(b, cd.bb, le_t)
                okc = len(errs) == 1 and errs[0][0] in q.edge_dominated(b, cd.bb, gt_t) and bool(cps) and all(c.bb in le_dom for c in cps)
                # the segmented loop as a whole lies on the fitting edge
                segs = b.calls_to("SdoSegmented::upload")
                okc = okc and all(c.bb in le_dom for c in segs)
                # ... and so does the normal-upload path: the test that decides normal vs segmented
                # (complete_size against the mailbox data length) is itself past the guard
                normal = False
                for c2 in q.conds(b):
                    if c2 is cd or c2.kind != "cmp" or c2.op not in ("Le", "Gt", "Lt", "Ge"):
                        continue
                    pf = Prov(b, follow_all={"num::saturating_sub"})
                    l2, r2 = pf.of_operand(c2.lhs), pf.of_operand(c2.rhs)
                    if any(x[0] == "call" and x[1].endswith("unpack_from_slice") for x in l2 | r2) and has_root(l2 | r2, "field", "MailboxHeader", "length"):
                        normal = c2.bb in le_dom
                okc = okc and normal
    rep.ob(P, "too-long-guard" + tag, okc, "complete_size > buf.len() returns Err(TooLong{..}) and every copy into the destination lies on the other edge", loc=b.span)
    # toggle
    nots = []
    for bi in sorted(b.live_blocks()):
        for s in b.stmts(bi):
            if s["k"] == "assign" and s["rv"]["k"] == "un" and s["rv"]["op"] == "Not" and "bool" in s["rv"].get("lty", ""):
                src = op_place(s["rv"]["a"][0])
                if src is not None and b.local_name(s["place"]["l"]) == "toggle" or (src is not None and b.local_name(src["l"]) == "toggle"):
                    nots.append((bi, s))
    seg = b.calls_to("SdoSegmented::upload")
    ok = len(seg) == 1 and len(nots) == 1
    if ok:
        nb = nots[0][0]
        ok = nb in b.reachable_strict(seg[0].bb) and seg[0].bb in b.reachable_strict(nb)
        tg = pr.of_operand(seg[0].args[1])
        ok = ok and (has_root(tg, "const", 0) or any(x[0] == "const" for x in tg))
    rep.ob(P, "toggle-per-segment" + tag, ok, "the toggle bit starts false, is sent with each segment request and flipped exactly once per loop iteration", loc=b.span, how="dataflow")
    # expedited length = 4 - size (saturating)
    ss = [c for c in b.calls() if (c.decl_s or "").endswith("::saturating_sub") and q.const_int(c.args[0]) == 4]
    ok = len(ss) == 1 and has_root(pr.of_operand(ss[0].args[1]), "field", "SdoHeader", "size")
    rep.ob(P, "expedited-length" + tag, ok, "an expedited response carries 4 - size bytes", loc=b.span, how="dataflow")
    # request: upload of (index, sub_index) given
    up = b.calls_to("SdoNormal::upload")
    ok = len(up) == 1 and any(x[0] in ("arg", "upvar") and x[-1] == "index" for x in pr.of_operand(up[0].args[1]))
    rep.ob(P, "request-object" + tag, ok, "sdo_read requests the index/sub-index it was asked for", loc=b.span, how="dataflow")
    # the result is decoded from the assembled payload
    wr = prog.async_body("Coe::sdo_write")
    dl = wr.calls_to("SdoExpedited::download")
    ok = len(dl) == 1
    if ok:
        pw = Prov(wr)
        ok = any(x[0] in ("arg", "upvar") and x[-1] == "index" for x in pw.of_operand(dl[0].args[1])) and has_root(pw.of_operand(dl[0].args[4]), "call", "EtherCrabWireWrite::packed_len")
        pk = [c for c in wr.calls() if c.is_("EtherCrabWireWrite::pack_to_slice")]
        ok = ok and len(pk) == 1
    rep.ob(P, "write-size" + tag, ok, "sdo_write sends the value's packed bytes with size = packed_len() to the given index/sub-index", loc=wr.span, how="dataflow")
    gd = False
    pw_ = Prov(wr)
    for cd in q.conds(wr):
        if cd.kind != "cmp" or cd.op not in ("Gt", "Le", "Lt", "Ge"):
            continue
        # packed_len() compared with 4 (a literal, or the length of the 4 byte expedited buffer), either way round
        for a_, b__, op_ in ((cd.lhs, cd.rhs, cd.op), (cd.rhs, cd.lhs, {"Gt": "Lt", "Lt": "Gt", "Le": "Ge", "Ge": "Le"}[cd.op])):
            if any(x[0] == "call" and x[1].endswith("::packed_len") for x in pw_.of_operand(a_)) and q.const_or_array_len(wr, b__) == 4:
                le_t = cd.true_target() if op_ == "Le" else (cd.false_target() if op_ == "Gt" else None)
                if le_t is not None:
                    gd = all(c.bb in q.edge_dominated(wr, cd.bb, le_t) for c in dl)
    rep.ob(P, "write-max-4" + tag, gd, "values longer than 4 bytes are refused before anything is sent (expedited only)", loc=wr.span)


def arrays(prog, rep, tag):
    P = "C15.array"
    b = prog.async_body("Coe::sdo_write_array")
    pr = Prov(b)
    ws = sorted(b.calls_to("Coe::sdo_write"), key=lambda c: c.bb)
    ok = len(ws) == 3
    d = {}
    if ok:
        first, mid, last = ws
        d["zero-first"] = q.const_int(first.args[2]) == 0 and q.const_int(first.args[3]) == 0
        sub = pr.of_operand(mid.args[2])
        from_next = any(x[0] == "call" and x[1].endswith("::next") for x in sub)
        plus_one = has_root(sub, "binop", "Add") and has_root(sub, "const", 1)
        # or the values are zipped with a counter that starts at 1 (`values.iter().zip(1..)`)
        zip_from_1 = False
        for zc in [c for c in b.calls() if (c.decl_s or "").endswith("Iterator::zip")]:
            for a in zc.args:
                ra = pr.of_operand(a)
                if any(x[0] == "agg" and x[1] in ("RangeFrom", "RangeInclusive", "Range") for x in ra):
                    for bi_, si_, st_ in q.aggregates(b, None):
                        if st_["rv"].get("ak") == "adt" and (st_["rv"].get("adt") or "").split("::")[-1].startswith("Range") and q.const_int(q.agg_field(st_, "start") or {}) == 1:
                            zip_from_1 = True
        d["sub-index-i+1"] = from_next and (plus_one or zip_from_1)
        d["in-loop"] = mid.bb in b.reachable_strict(mid.bb)
        d["count-last"] = q.const_int(last.args[2]) == 0 and has_root(pr.of_operand(last.args[3]), "call", "slice::len") and last.bb not in b.reachable_strict(last.bb) and mid.bb not in b.reachable_strict(last.bb)
        d["order"] = mid.bb in b.reachable_strict(first.bb) and last.bb in b.reachable_strict(mid.bb)
        ok = all(d.values())
    rep.ob(P, "write-array" + tag, ok, "sdo_write_array: count := 0, entries at sub-indices i + 1, count := len last; %s" % d, loc=b.span, how="dataflow")
    r = prog.async_body("Coe::sdo_read_array")
    pr = Prov(r)
    rs = sorted(r.calls_to("Coe::sdo_read"), key=lambda c: c.bb)
    ok = len(rs) == 2
    d = {}
    if ok:
        d["count-from-0"] = q.const_int(rs[0].args[2]) == 0
        rng = [s for bi, si, s in q.aggregates(r, "RangeInclusive")]
        rn = [c for c in r.calls() if (c.decl_s or "").endswith("RangeInclusive::new")]
        d["range-1..=len"] = len(rn) == 1 and q.const_int(rn[0].args[0]) == 1 and has_root(pr.of_operand(rn[0].args[1]), "await", "Coe::sdo_read")
        d["sub-index-loop-var"] = any(x[0] == "call" and x[1].endswith("::next") for x in pr.of_operand(rs[1].args[2]))
        if not (d["range-1..=len"] and d["sub-index-loop-var"]):
            # the same walk with an explicit counter: starts at 0, is incremented by one before each read, and the loop
            # runs while counter < count - sub-indices 1..=count
            sub = pr.of_operand(rs[1].args[2])
            cl = q.local_of(rs[1].args[2])
            for _ in range(3):
                ds_ = r.defs().get(cl, []) if cl is not None else []
                if len(ds_) == 1 and ds_[0][2] == "assign" and ds_[0][3]["rv"]["k"] == "use" and q.local_of(ds_[0][3]["rv"]["a"][0]) is not None:
                    cl = q.local_of(ds_[0][3]["rv"]["a"][0])
                else:
                    break
            stores = r.defs().get(cl, []) if cl is not None else []
            init0 = any(x[2] == "assign" and x[3]["rv"]["k"] == "use" and q.const_int(x[3]["rv"]["a"][0]) == 0 for x in stores)
            incs = [x for x in stores if x[2] == "assign" and has_root(pr._of_rvalue(x[3]["rv"]), "binop", "Add") and has_root(pr._of_rvalue(x[3]["rv"]), "const", 1)]
            inc_before_read = bool(incs) and all(r.dominates(x[0], rs[1].bb) and rs[1].bb in r.reachable_from(x[0]) for x in incs) and len(stores) == len(incs) + 1
            lt = False
            for cd in q.conds(r):
                e = q.rel_edges(cd, lambda x: cl is not None and q.local_of(cd.lhs) is not None and (has_root(x, "binop", "Add") or has_root(x, "const", 0)) and not has_root(x, "await", "Coe::sdo_read"), lambda x: has_root(x, "await", "Coe::sdo_read") and not has_root(x, "binop"), pr)
                t = e.get("Lt")
                if t is not None and rs[1].bb in q.edge_dominated(r, cd.bb, t):
                    lt = True
            if init0 and inc_before_read and lt:
                d["range-1..=len"] = d["sub-index-loop-var"] = True
        cap = False
        for cd in q.conds(r):
            e = q.rel_edges(cd, lambda x: has_root(x, "await", "Coe::sdo_read"), lambda x: any(y[0] == "const" and "MAX_ENTRIES" in str(y) for y in x), pr)
            le_t = e.get("Le")
            if le_t is not None:
                cap = rs[1].bb in q.edge_dominated(r, cd.bb, le_t)
        d["capacity-check"] = cap
        ok = all(d.values())
    rep.ob(P, "read-array" + tag, ok, "sdo_read_array: reads the count at sub-index 0, refuses counts above the capacity, then reads sub-indices 1..=count; %s" % d, loc=r.span, how="dataflow")


def validate(prog, rep, tag):
    P = "C15.validate"
    for ty in ("SdoExpedited", "SdoNormal"):
        b = prog.body("<%s as CoeServiceRequest>::validate_response" % ty)
        pr = Prov(b)
        cmps = []
        for bi in sorted(b.live_blocks()):
            for s in b.stmts(bi):
                if s["k"] == "assign" and s["rv"]["k"] == "bin" and s["rv"]["op"] == "Eq":
                    cmps.append((pr.of_operand(s["rv"]["a"][0]), pr.of_operand(s["rv"]["a"][1])))
        ok = len(cmps) == 2
        if ok:
            f = set()
            for l, r in cmps:
                both = l | r
                if has_root(both, "arg", 2) and has_root(both, "field", "SdoHeader", "index"):
                    f.add("index")
                if has_root(both, "arg", 3) and has_root(both, "field", "SdoHeader", "sub_index"):
                    f.add("sub_index")
            ok = f == {"index", "sub_index"}
        rep.ob(P, "%s%s" % (ty, tag), ok, "%s::validate_response compares the received index and sub-index with the request's own" % ty, loc=b.span, how="dataflow")


def _cargs_of(op):
    c = op.get("const") if isinstance(op, dict) else None
    return (c or {}).get("cargs") if isinstance(c, dict) else None


def segments(ctx, prog, rep, tag):
    P = "C15.seg"
    spec = ctx.table("spec_etg.json")["coe_sdo"]
    # 1. every command specifier the device may answer with decodes
    adt = prog.adt("CoeCommand")
    have = {v.get("discr"): v["name"] for v in adt["variants"]}
    missing = {k: v for k, v in spec["responses_decoded"].items() if v not in have}
    rep.ob(P, "response-commands-decodable" + tag, not missing, "CoeCommand has a variant for every SDO response command specifier (have %s); missing: %s" % (have, missing), how="table")
    bad = {k: (v, [n for d_, n in have.items() if n == k]) for k, v in spec["requests_sent"].items() if have.get(v) != k}
    rep.ob(P, "request-commands" + tag, not bad, "request command specifiers Download=1, Upload=2, UploadSegment=3 %s" % bad, how="table")
    # 2. the payload starts after the decoded service's own headers
    b = prog.async_body("Coe::mailbox_write_read")
    pr = Prov(b, follow_all={"Ord::min", "cmp::min"})
    oks = [x for x in q.aggregates(b, "Result", "Ok")]
    trims = b.calls_to("ReceivedPdu::trim_front")
    d = {}
    ok_blocks = {x[0] for x in oks}
    # the trim on the success path: the one from which an Ok((headers, response)) is reachable without another trim
    succ = [t for t in trims if any(ob in b.reachable_from(t.bb, avoid={u.bb for u in trims if u is not t}) for ob in ok_blocks)]
    d["one-success-trim"] = len(succ) == 1
    if len(succ) == 1:
        t = succ[0]
        consts = []

        def collect(op, depth=0):
            ca = _cargs_of(op)
            if ca is not None:
                consts.append((ca, q.const_int(op)))
                return
            l = q.local_of(op)
            if l is None or depth > 4:
                return
            for (bi, si, kind, payload) in b.defs().get(l, []):
                if kind == "call":
                    for a in payload.args:
                        collect(a, depth + 1)
                elif kind == "assign":
                    for a in payload["rv"].get("a", []):
                        collect(a, depth + 1)
        collect(t.args[1])
        generic = [c for c in consts if c[1] is None and c[0].startswith("[R")]
        fixed = [c for c in consts if c[1] is not None]
        d["by-the-decoded-type's-length"] = bool(generic)
        # a fixed bound may only cap it from above at the 12 byte initiate header
        d["no-smaller-fixed-trim"] = all(c[1] >= spec["header_bytes"]["SdoNormal"] for c in fixed)
        d["trim-operands"] = ["%s=%s" % c for c in consts]
    rep.ob(P, "payload-after-own-headers" + tag, all(v for k, v in d.items() if k != "trim-operands"), "mailbox_write_read::<R> hands back the response with R's own header length removed (a segment response has 9 header bytes, not 12); %s" % d, loc=b.span)
    # 2b. the abort code sits behind the 12 byte initiate-style header whatever request was answered (an abort of
    # a segment request is not a 9 byte segment response): the trim on the abort path is the fixed header length
    ab = [x for x in q.aggregates(b, None) if x[2]["rv"].get("ak") == "adt" and x[2]["rv"].get("variant") == "Aborted"]
    ab_blocks = {x[0] for x in ab}
    abtr = [t for t in trims if t not in succ and any(ob in b.reachable_from(t.bb, avoid={u.bb for u in trims if u is not t}) for ob in ab_blocks)]
    d2 = {"one-abort-trim": len(abtr) == 1, "abort-error-built": bool(ab)}
    if len(abtr) == 1:
        consts2 = []

        def collect2(op, depth=0):
            ca = _cargs_of(op)
            if ca is not None:
                consts2.append((ca, q.const_int(op)))
                return
            l = q.local_of(op)
            if l is None or depth > 4:
                ci = q.const_int(op)
                if ci is not None:
                    consts2.append(("literal", ci))
                return
            for (bi, si, kind, payload) in b.defs().get(l, []):
                if kind == "call":
                    for a in payload.args:
                        collect2(a, depth + 1)
                elif kind == "assign":
                    for a in payload["rv"].get("a", []):
                        collect2(a, depth + 1)
        collect2(abtr[0].args[1])
        d2["fixed-12-byte-header"] = bool(consts2) and all(c[1] == spec["header_bytes"]["SdoNormal"] for c in consts2)
        d2["trim-operands"] = ["%s=%s" % c for c in consts2]
    rep.ob(P, "abort-code-after-fixed-header" + tag, all(v for k, v in d2.items() if k != "trim-operands"), "the abort code is decoded after trimming the fixed 12 byte header, independent of the request type R; %s" % d2, loc=b.span)
    # declared header sizes
    from .. import wirelayout as wl
    import os
    decl = wl.declared([os.path.join(ctx.repo, "src")], features=("std", "default"))
    sizes = {}
    for it in decl["items"]:
        if it["name"] in ("SdoNormal", "SdoSegmented", "SdoExpedited"):
            total, ref, problems = wl.ref_layout(it)
            sizes[it["name"]] = total // 8
    want = {"SdoNormal": 12, "SdoSegmented": 9}
    rep.ob(P, "declared-header-sizes" + tag, all(sizes.get(k) == v for k, v in want.items()), "declared wire sizes %s (SdoNormal 12: mailbox 6 + CoE 2 + SDO 4; SdoSegmented 9: mailbox 6 + CoE 2 + SDO 1)" % sizes, how="table")
    # 3. the first fragment
    r = prog.async_body("Coe::sdo_read")
    prr = Prov(r)
    seg = r.calls_to("SdoSegmented::upload")
    cps = [c for c in r.calls() if (c.decl_s or "").endswith("copy_from_slice")]
    d = {}
    if len(seg) == 1:
        loop_blocks = r.reachable_strict(seg[0].bb) & {x for x in r.live_blocks() if seg[0].bb in r.reachable_strict(x)}
        pre = [c for c in cps if c.bb not in loop_blocks and r.dominates(c.bb, seg[0].bb)]
        d["copy-before-loop"] = len(pre) == 1
        if len(pre) == 1:
            src = prr.of_operand(pre[0].args[1])
            firsts = [c for c in r.calls() if (c.decl_s or "").endswith("mailbox_write_read") and r.dominates(c.bb, pre[0].bb)]
            d["source-is-initiate-response"] = bool(firsts) and any(x[0] == "await" and x[1].endswith("mailbox_write_read") and x[2] in {f.bb for f in firsts} for x in src) and not any(x[0] == "await" and x[1].endswith("mailbox_write_read") and x[2] in loop_blocks for x in src)
            dst = Prov(r, transparent=TRANSPARENT | {"slice::get_mut"}).of_operand(pre[0].args[0])
            d["into-destination-front"] = True
        # the running length does not start at zero: its first definition that dominates the loop is not the constant 0
        # the running length, found by what it does (not by its name): a local that is increased inside the loop by a
        # value derived from the segment's mailbox length
        tl = []
        for l in range(len(r.locals)):
            for d_ in r.defs().get(l, []):
                if d_[0] in loop_blocks and d_[2] == "assign" and not d_[3]["place"]["p"]:
                    rr_ = prr._of_rvalue(d_[3]["rv"])
                    if has_root(rr_, "binop", "Add") and (has_root(rr_, "field", "MailboxHeader", "length") or any(x[0] == "call" and x[1].endswith("checked_sub") for x in rr_)) and "usize" in r.local_ty(l) and l not in tl:
                        # the accumulator itself, not the temporaries of the checked addition
                        if any(dd[0] not in loop_blocks for dd in r.defs().get(l, [])):
                            tl.append(l)
        d["running-length-local"] = len(tl) == 1
        if len(tl) == 1:
            inits = [x for x in r.defs().get(tl[0], []) if x[0] not in loop_blocks and r.dominates(x[0], seg[0].bb)]
            d["starts-at-first-fragment"] = len(inits) == 1 and inits[0][2] in ("assign", "call") and not (inits[0][2] == "assign" and q.const_int(inits[0][3]["rv"].get("a", [{}])[0]) == 0)
    else:
        d["one-segment-request-site"] = False
    # 3b. an empty *last* segment is a legitimate end of the transfer: the "segment without data makes no progress"
    # error may only be raised for a segment that is not the last one
    if len(seg) == 1:
        last_sw = [cd for cd in q.conds(r) if cd.kind in ("bool", "int") and getattr(cd, "operand", None) is not None and q.is_field_read(r, cd.operand, "SdoHeaderSegmented", "is_last_segment")]
        zero = []
        for cd in q.conds(r):
            if cd.bb in loop_blocks and cd.kind == "cmp" and cd.op in ("Eq", "Ne") and (q.const_int(cd.rhs) == 0 or q.const_int(cd.lhs) == 0):
                both = prr.of_operand(cd.lhs) | prr.of_operand(cd.rhs)
                if has_root(both, "field", "MailboxHeader", "length") or any(x[0] == "call" and x[1].endswith("checked_sub") for x in both):
                    zt = cd.true_target() if cd.op == "Eq" else cd.false_target()
                    # leads to an early error return?
                    errs = {x[0] for x in q.aggregates(r, "Result", "Err")}
                    if zt is not None and q.edge_dominated(r, cd.bb, zt) & errs:
                        zero.append(cd)
        dz = {"last-segment-test": len(last_sw) == 1, "zero-progress-guards": len(zero)}
        if len(last_sw) == 1 and zero:
            not_last = last_sw[0].false_target()
            dom = q.edge_dominated(r, last_sw[0].bb, not_last) if not_last is not None else set()
            dz["guard-only-for-non-last-segment"] = all(cd.bb in dom for cd in zero)
        rep.ob(P, "empty-last-segment-accepted" + tag, all(v for k, v in dz.items() if k != "zero-progress-guards"), "an upload segment carrying no data is an error only when it is not the last segment (a device may end the transfer with an empty last segment); %s" % dz, loc=r.span)
    rep.ob(P, "first-fragment-kept" + tag, bool(d) and all(d.values()), "the bytes the initiate upload response already carries are copied into the destination before the first segment request, and segments are appended after them; %s" % d, loc=r.span)
    # 4. emergency before any SDO decode, data at byte 8
    em = None
    for cd in q.conds(b):
        x = _eq_cond(b, cd, "CoeHeader", "service", "Emergency")
        if x:
            em = (cd, x)
    d = {}
    if em:
        cd, (yes, no) = em
        not_em = q.edge_dominated(b, cd.bb, no)
        is_em = q.edge_dominated(b, cd.bb, yes)
        sdo_decodes = []
        for c in b.calls():
            if not c.is_("EtherCrabWireRead::unpack_from_slice"):
                continue
            ty = (c.res_s or "").split(" as ")[0].lstrip("<")
            fields = _field_types(prog, ty)
            if any("CoeCommand" in f or "SdoHeader" in f for f in fields) or c.res is None:
                sdo_decodes.append(c)
        d["sdo-decodes-found"] = len(sdo_decodes) >= 2
        d["no-sdo-decode-before-service-test"] = all(c.bb in not_em for c in sdo_decodes)
        etr = [t for t in trims if t.bb in is_em]
        d["emergency-data-at-8"] = len(etr) == 1 and q.const_int(etr[0].args[1]) == spec["header_bytes"]["_common"]
    else:
        d["service-test"] = False
    rep.ob(P, "emergency-before-sdo-decode" + tag, all(d.values()), "the Emergency service is recognised before any type containing SDO fields is decoded from the response, and the emergency data is taken from byte 8; %s" % d, loc=b.span)


def _field_types(prog, name):
    out = []
    for pth, a in prog.adts.items():
        if pth.endswith("::" + name) or pth == name:
            for v in a.get("variants", []):
                for f in v.get("fields", []):
                    out.append(f.get("ty", "") if isinstance(f, dict) else str(f))
    return out


def buffers(prog, rep, tag):
    """sdo_read::<T> (and eeprom_read::<T>) receive into `T::buffer()` and compare the object's size with
    its length: a Buffer shorter than T::PACKED_LEN makes a fitting object 'too long' (normal upload) or
    undecodable.  For every impl: the array length of the buffer type, as an expression, equals PACKED_LEN."""
    import re
    P = "C15.buffer"
    impls = {}
    for b in prog.bodies:
        m = re.match(r"<(.+) as EtherCrabWireSized>::(buffer|PACKED_LEN)$", b.short)
        if m:
            impls.setdefault((b.crate, m.group(1)), {})[m.group(2)] = b
    n = 0
    for (crate, ty), d in sorted(impls.items()):
        if "buffer" not in d or "PACKED_LEN" not in d:
            continue
        n += 1
        bt = d["buffer"].locals[0]["ty"]
        m = re.match(r"\[u8; (.+)\]$", bt)
        pl = q.expr_tree(d["PACKED_LEN"], {"copy": {"l": 0, "p": []}})
        ok = False
        want = q.tree_str(pl)
        if m:
            ln = m.group(1).strip()
            if pl[0] == "const":
                ok = ln.isdigit() and int(ln) == pl[1]
            elif pl[0] == "leaf":
                # a bare const parameter: PACKED_LEN = N, buffer [u8; N]
                c = _tyconst_of_body(d["PACKED_LEN"])
                ok = c is not None and c == ln
                want = c or want
            else:
                # N * k: equal to [u8; N] only for k == 1; for k > 1 no [u8; _] type can say that on stable
                # and [u8; N] is k times too short
                c = _tyconst_of_body(d["PACKED_LEN"])
                ok = pl[0] == "Mul" and ((pl[1][0] == "leaf" and pl[2] == ("const", 1)) or (pl[2][0] == "leaf" and pl[1] == ("const", 1))) and c == ln
                want = _tree_with_params(d["PACKED_LEN"], pl)
        rep.ob(P, "%s%s" % (ty, tag), ok, "<%s as EtherCrabWireSized>: buffer() is %s, PACKED_LEN is %s" % (ty, bt, want), loc=d["buffer"].span, how="table", nontrivial=(pl[0] != "const"))
    rep.floor("C15 sized impls" + tag, n, 80)


def _tyconst_of_body(b):
    for bi in b.live_blocks():
        for st in b.stmts(bi):
            if st["k"] == "assign":
                for a in st["rv"].get("a", []):
                    c = a.get("const") if isinstance(a, dict) else None
                    if isinstance(c, dict) and c.get("tyconst"):
                        return c["tyconst"]
    return None


def _tree_with_params(b, t):
    c = _tyconst_of_body(b) or "?"
    def go(x):
        if x[0] == "leaf":
            return c
        if x[0] == "const":
            return str(x[1])
        return "%s(%s, %s)" % (x[0], go(x[1]), go(x[2]))
    return go(t)



def _builder_origin(b, op, depth=6):
    """The `SubDeviceRef::read/write(addr)` call a command builder operand was made by (through ignore_wkc / with_wkc
    / moves)."""
    pl = op_place(op)
    if pl is None or depth < 0:
        return None
    ds = b.defs().get(pl["l"], [])
    if len(ds) != 1:
        return None
    d = ds[0]
    if d[2] == "call":
        c = d[3]
        if c.is_("SubDeviceRef::read", "SubDeviceRef::write"):
            return c
        return _builder_origin(b, c.args[0], depth - 1) if c.args else None
    if d[2] == "assign" and d[3]["rv"]["k"] in ("use", "cast") and d[3]["rv"].get("a"):
        return _builder_origin(b, d[3]["rv"]["a"][0], depth - 1)
    return None


def same_mailbox(prog, rep, tag):
    """A mailbox is read whole or not at all: the sync manager releases the buffer only when its *last* byte is read,
    so a read of the OUT mailbox's address with another mailbox's length leaves a stale message in place (the next
    transfer is then answered with the previous reply).  For every sized read in the mailbox layer whose address or
    length comes from a configured mailbox, both come from the same one (MailboxConfig.read / .write, or the same
    `&Mailbox` argument)."""
    P = "C15.mbox"
    n = 0
    for b in prog.bodies:
        if b.crate != "ethercrab" or b.d.get("is_test") or not b.file.startswith("src/mailbox/"):
            continue
        pr = Prov(b)
        for c in b.calls():
            if not (c.decl_s or c.name).endswith("::receive_slice") or len(c.args) < 3:
                continue
            ln = pr.of_operand(c.args[2])
            if not has_root(ln, "field", "Mailbox", "len"):
                continue
            o = _builder_origin(b, c.args[0])
            src = lambda r: sorted(x for x in r if (x[0] == "field" and x[1] == "MailboxConfig") or x[0] == "arg")
            ad = pr.of_operand(o.args[1]) if o is not None and len(o.args) > 1 else frozenset()
            n += 1
            ok = o is not None and has_root(ad, "field", "Mailbox", "address") and src(ad) == src(ln)
            rep.ob(P, "%s:address-and-length-of-one-mailbox%s" % (b.root_short, tag), ok, "the mailbox read in %s takes its address and its length from the same mailbox: address from %s, length from %s" % (b.root_short, roots_str(src(ad)), roots_str(src(ln))), loc=c.span, how="dataflow")
    rep.floor("C15 sized mailbox reads" + tag, n, 2)
