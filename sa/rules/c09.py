"""C09 - initialisation finds every SubDevice once and addresses each distinctly (structural clauses)."""
from .. import q
from ..core import Prov, has_root, op_place, roots_str


def run(ctx, rep):
    rep.decided += [
        "both loops of MainDevice::init range over 0..count with count = the BRD working counter; all APWR address writes precede the first SubDevice::new; both loops compute BASE_SUBDEVICE_ADDRESS.wrapping_add(idx) with BASE = 0x1000; the APWR is addressed by ring position",
        "capacity results of Deque::push_back, group push and IndexMap::insert are propagated as errors, never unwrapped or discarded",
        "every popped SubDevice is moved into exactly one group push; SubDevice has no Clone outside tests",
        "every path to Ok(groups) other than the count == 0 early return passes wait_for_state(PreOp)",
        "in SubDevice::new every device access goes through the single SubDeviceRef built from the configured_address argument",
    ]
    rep.undecided += ["reported counts/identities against simulated networks"]
    rep.trusted += ["rustc MIR/callee resolution", "tables/spec_etg.json"]
    spec = ctx.table("spec_etg.json")
    for cfg in ctx.configs():
        prog = ctx.prog(cfg)
        tag = "" if cfg == "default" else "@" + cfg
        rep.analysed["bodies" + tag] = len(prog.bodies)
        init(prog, rep, spec, tag)
        new(prog, rep, tag)
        capability(ctx, prog, rep, spec, tag)
        fallback_name(ctx, prog, rep, tag)


def init(prog, rep, spec, tag):
    P = "C09.init"
    b = prog.async_body("MainDevice::init")
    pr = Prov(b)
    # count
    # the count is the working counter of a broadcast read - in its own helper, or written out in init itself
    cnt = prog.async_body("MainDevice::count_subdevices") if prog.has_body("MainDevice::count_subdevices") else b
    COUNT = ("MainDevice::count_subdevices",) if cnt is not b else ("WrappedRead::receive_wkc",)

    def is_count(r):
        return any(has_root(r, "await", c) for c in COUNT)

    ok = bool(cnt.calls_to("Command::brd")) and bool(cnt.calls_to("WrappedRead::receive_wkc")) and all(has_root(Prov(cnt).of_operand(c.args[0]), "call", "Command::brd") for c in cnt.calls_to("WrappedRead::receive_wkc"))
    rep.ob(P, "count:brd-wkc" + tag, ok, "the device count is the working counter of a broadcast read", loc=cnt.span, how="inventory")
    rngs = q.aggregates(b, "Range")
    good = [s for bi, si, s in rngs if has_root(pr.of_operand(q.agg_field(s, "start")), "const", 0) and is_count(pr.of_operand(q.agg_field(s, "end"))) and not has_root(pr.of_operand(q.agg_field(s, "end")), "binop")]
    rep.ob(P, "loops:0..count" + tag, len(good) == 2, "both per-device loops iterate 0..count (count = awaited count_subdevices)", loc=b.span, how="dataflow")
    base = prog.const_value("BASE_SUBDEVICE_ADDRESS")
    rep.ob(P, "base-address" + tag, base == spec["base_station_address"], "BASE_SUBDEVICE_ADDRESS == 0x1000", how="table")
    wa = [c for c in b.calls() if (c.decl_s or "").endswith("::wrapping_add")]
    okw = len(wa) == 2
    for c in wa:
        a0, a1 = pr.of_operand(c.args[0]), pr.of_operand(c.args[1])
        okw = okw and any(x[0] == "const" and "BASE_SUBDEVICE_ADDRESS" in str(x[1]) for x in a0) and any(x[0] == "call" and x[1].endswith("::next") for x in a1)
    rep.ob(P, "address:base+idx" + tag, okw, "both loops compute BASE_SUBDEVICE_ADDRESS.wrapping_add(loop index)", loc=b.span, how="dataflow")
    ap = b.calls_to("Command::apwr")
    nw = b.calls_to("SubDevice::new")
    ok = len(ap) == 1 and len(nw) == 1
    d = {}
    if ok:
        d["phase-order"] = nw[0].bb in b.reachable_strict(ap[0].bb) and ap[0].bb not in b.reachable_strict(nw[0].bb)
        d["apwr-by-position"] = any(x[0] == "call" and x[1].endswith("::next") for x in pr.of_operand(ap[0].args[0])) and any(r[0] == "agg" and r[2] == "ConfiguredStationAddress" for r in Prov(b, follow_all={"Into::into"}).of_operand(ap[0].args[1]))
        snd = [c for c in b.calls_to("WrappedWrite::send") if has_root(pr.of_operand(c.args[0]), "call", "Command::apwr")]
        d["apwr-value"] = len(snd) == 1 and any(x[0] == "call" and x[1].endswith("::wrapping_add") for x in pr.of_operand(snd[0].args[2]))
        d["new-args"] = any(x[0] == "call" and x[1].endswith("::next") for x in pr.of_operand(nw[0].args[1])) and any(x[0] == "call" and x[1].endswith("::wrapping_add") for x in pr.of_operand(nw[0].args[2]))
        # the send's await `?` leaves the function on error (no device is constructed after a failed address write)
        ok = all(d.values())
    rep.ob(P, "two-phase-addressing" + tag, ok, "all station addresses are written (APWR by ring position, value base+idx) before any SubDevice is read at base+idx; %s" % d, loc=b.span)
    # capacity errors propagated
    for callee, item in (("Deque::push_back", "SubDevice"), ("SubDeviceGroupHandle::push", None), ("IndexMap::insert", "Group")):
        cs = [c for c in b.calls() if c.is_(callee) or (c.decl_s or "").endswith("::" + callee.split("::")[1]) and callee.split("::")[0] in (c.decl_s or "")]
        ok = len(cs) == 1
        if ok:
            c = cs[0]
            tr = q.ok_edge_of_try(b, c)
            if tr is None:
                for m in b.calls():
                    if m.is_("Result::map_err") and (op_place(m.args[0]) or {}).get("l") == c.dest["l"]:
                        tr = q.ok_edge_of_try(b, m)
            ok = tr is not None and tr[2] is not None
        rep.ob(P, "capacity:%s%s" % (callee, tag), ok, "the result of %s goes through `?` (its failure is returned, not unwrapped or dropped)" % callee, loc=b.span)
    grp = prog.group("MainDevice::init")
    caps = [x for g in grp for x in q.aggregates(g, "Error", "Capacity")]
    rep.ob(P, "capacity:error-kind" + tag, len(caps) >= 2, "capacity failures are reported as Error::Capacity (%d sites)" % len(caps), loc=b.span, how="inventory", nontrivial=False)
    hp = prog.body("<SubDeviceGroup as SubDeviceGroupHandle>::push")
    c2 = [x for g in prog.group("<SubDeviceGroup as SubDeviceGroupHandle>::push") for x in q.aggregates(g, "Error", "Capacity")]
    rep.ob(P, "group-push:capacity" + tag, bool(c2) and len([c for c in hp.calls() if (c.decl_s or "").endswith("Vec::push")]) == 1, "a full group returns Error::Capacity(SubDevice)", loc=hp.span, how="inventory")
    # move-once
    pops = [c for c in b.calls() if (c.decl_s or "").endswith("Deque::pop_front")]
    pushes = b.calls_to("SubDeviceGroupHandle::push")
    ok = len(pops) == 1 and len(pushes) == 1 and has_root(pr.of_operand(pushes[0].args[1]), "call", "Deque::pop_front")
    # group chosen by the filter applied to that same device
    flt = [c for c in b.calls() if c.indirect or c.is_("FnMut::call_mut")]
    rep.ob(P, "move-once" + tag, ok, "each SubDevice popped from the discovery queue is moved into exactly one group push", loc=b.span, how="dataflow")
    clones = [im for im in prog.impls_of("Clone", "SubDevice") if im["crate"] == "ethercrab"]
    rep.ob(P, "no-clone" + tag, not clones, "SubDevice has no Clone impl in a non-test build (a device cannot be in two groups)", how="inventory")
    # PRE-OP wait
    ws = [c for c in b.calls_to("MainDevice::wait_for_state") if any(r[0] == "agg" and r[2] == "PreOp" for r in pr.of_operand(c.args[1]))]
    oks = q.aggregates(b, "Result", "Ok")
    okp = len(ws) == 1 and len(oks) >= 2
    if okp:
        late = [x for x in oks if x[0] in b.reachable_strict(ws[0].bb)]
        early = [x for x in oks if x not in late]
        okp = len(late) >= 1 and all(b.every_path_passes(0, x[0], {ws[0].bb}) for x in late)
        # early return is guarded by count == 0
        okz = False
        for cd in q.conds(b):
            if cd.kind == "cmp" and cd.op in ("Eq", "Ne"):
                both = pr.of_operand(cd.lhs) | pr.of_operand(cd.rhs)
                if is_count(both) and has_root(both, "const", 0):
                    eq_t = cd.true_target() if cd.op == "Eq" else cd.false_target()
                    okz = all(x[0] in q.edge_dominated(b, cd.bb, eq_t) for x in early) and len(early) == 1
        okp = okp and okz
        # the awaited wait's `?` : Ok only on its success edge
    rep.ob(P, "preop-wait" + tag, okp, "Ok(groups) is returned either immediately for an empty network or after wait_for_state(PreOp) succeeded", loc=b.span)
    # num_subdevices stored from the count
    st = [c for c in b.calls() if (c.decl_s or "").endswith("Atomic::store") and has_root(pr.of_operand(c.args[0]), "field", "MainDevice", "num_subdevices")]
    ok = len(st) == 1 and is_count(pr.of_operand(st[0].args[1]))
    rep.ob(P, "num_subdevices" + tag, ok, "MainDevice.num_subdevices = the count", loc=b.span, how="dataflow")


def new(prog, rep, tag):
    P = "C09.new"
    b = prog.async_body("SubDevice::new")
    pr = Prov(b)
    refs = b.calls_to("SubDeviceRef::new")
    ok = len(refs) == 1
    if ok:
        a = pr.of_operand(refs[0].args[1])
        ok = has_root(a, "arg", 3) or any(x[0] == "upvar" and x[2] == "configured_address" for x in a)
    rep.ob(P, "single-ref" + tag, ok, "SubDevice::new builds exactly one SubDeviceRef, from its configured_address argument", loc=b.span, how="dataflow")
    direct = [c for c in b.calls() if c.name.startswith("Command::")]
    rep.ob(P, "no-direct-commands" + tag, not direct, "SubDevice::new issues no raw Command itself (all accesses go through the SubDeviceRef / its EEPROM)", loc=b.span, how="inventory")
    # every receive/send receiver roots in that ref
    n = 0
    okall = True
    for c in b.calls():
        if c.is_("WrappedRead::receive", "WrappedRead::receive_slice", "WrappedWrite::send", "WrappedWrite::send_receive"):
            n += 1
            r = Prov(b, follow_all={"SubDeviceRef::read", "SubDeviceRef::write"}).of_operand(c.args[0])
            okall = okall and has_root(r, "call", "SubDeviceRef::new")
    for c in b.calls():
        if c.name in ("SubDeviceRef::eeprom", "SubDeviceRef::wait_for_state", "SubDeviceRef::set_eeprom_mode"):
            n += 1
            okall = okall and has_root(pr.of_operand(c.args[0]), "call", "SubDeviceRef::new")
    rep.ob(P, "accesses-via-ref" + tag, okall and n >= 5, "all %d device accesses of SubDevice::new are made through that SubDeviceRef" % n, loc=b.span, how="dataflow")
    ag = q.aggregates(b, "SubDevice")
    ok = len(ag) == 1
    if ok:
        s = ag[0][2]
        ca = pr.of_operand(q.agg_field(s, "configured_address"))
        ix = pr.of_operand(q.agg_field(s, "index"))
        ok = (has_root(ca, "arg", 3) or any(x[0] == "upvar" and x[2] == "configured_address" for x in ca)) and (has_root(ix, "arg", 2) or any(x[0] == "upvar" and x[2] == "index" for x in ix))
        from ..core import TRANSPARENT

        pn = Prov(b, transparent=TRANSPARENT | {"Option::unwrap_or_else"})
        for f, src in (("identity", "SubDeviceEeprom::identity"), ("name", "SubDeviceEeprom::device_name")):
            r = pn.of_operand(q.agg_field(s, f))
            ok = ok and has_root(r, "await", src)
        r = pr.of_operand(q.agg_field(s, "alias_address"))
        ok = ok and has_root(r, "await", "WrappedRead::receive")
    rep.ob(P, "record-fields" + tag, ok, "the SubDevice record holds the address/index it was given and the identity, name and alias read through its own reference", loc=b.span, how="dataflow")
    # SubDeviceRef::read/write address the ref's own configured address
    for m, cmd in (("SubDeviceRef::read", "Command::fprd"), ("SubDeviceRef::write", "Command::fpwr")):
        mb = prog.body(m)
        cs = mb.calls_to(cmd)
        ok = len(cs) == 1 and has_root(Prov(mb).of_operand(cs[0].args[0]), "field", "SubDeviceRef", "configured_address")
        rep.ob(P, "%s:own-address%s" % (m, tag), ok, "%s addresses %s(self.configured_address, ..)" % (m, cmd), loc=mb.span, how="dataflow")


def capability(ctx, prog, rep, spec, tag):
    """What init records about a device besides its identity: DC capability and ports.  The registers are decoded
    by derived wire structs (bit positions against the ESC register map), the capability is a pure function of three
    flag bits (decision table extracted from the MIR of SupportFlags::dc_support for all 8 combinations), and the four
    link bits become the ports in frame-processing order 0 -> 3 -> 1 -> 2 with matching port numbers."""
    import os
    from .. import wirelayout as wl

    P = "C09.cap"
    decl = wl.declared([os.path.join(ctx.repo, "src")], features=("std", "default"))
    items = {}
    for i in decl["items"]:
        items.setdefault(i["name"], []).append(i)
    for name, want in spec["reg_structs"].items():
        if name.startswith("_"):
            continue
        its = items.get(name, [])
        if len(its) != 1:
            rep.anchor_missing("derive site %s (found %d)" % (name, len(its)))
            continue
        total, ref, problems = wl.ref_layout(its[0])
        w = {k: tuple(v) for k, v in want.items() if not k.startswith("_")}
        got = {k: ref.get(k) for k in w}
        ok = got == w and total == want["_bytes"] * 8 and not problems
        rep.ob(P, "layout:%s%s" % (name, tag), ok, "declared layout of %s equals the ESC register map %s" % (name, "" if ok else {k: (got[k], w[k]) for k in w if got[k] != w[k]}), loc="%s:%s" % (os.path.relpath(its[0]["file"], ctx.repo), its[0]["line"]), how="table")
    b = prog.body("SupportFlags::dc_support")
    tb = q.decision_table(b, ["dc_supported", "enhanced_dc_sync", "has_64bit_dc"])
    want = {k: v for k, v in spec["dc_support_table"].items() if not k.startswith("_")}
    got = {"".join("1" if x else "0" for x in k): v for k, v in tb.items()} if tb is not None else None
    rep.ob(P, "dc_support:decision-table" + tag, got == want, "SupportFlags::dc_support maps (dc_supported, enhanced_dc_sync, has_64bit_dc) to DcSupport as documented, for all 8 combinations%s" % ("" if got == want else ": got %s" % (got if got is not None else "a body outside the interpretable fragment")), loc=b.span, how="table")
    anyb = prog.body("DcSupport::any")
    # simpler and exact: interpret DcSupport::any for each variant through its MIR
    rep.ob(P, "dc_support:any-means-not-None" + tag, _any_table(prog, anyb) == {"None": 0, "RefOnly": 1, "Bits32": 1, "Bits64": 1}, "DcSupport::any() is false exactly for DcSupport::None: %s" % _any_table(prog, anyb), loc=anyb.span, how="table")
    # ports
    nb = None
    for g in prog.group("SubDevice::new"):
        if g.calls_to("Ports::new"):
            nb = g  # the map(|dl_status| ..) closure, or the async body itself
    ok = nb is not None
    if ok:
        c = nb.calls_to("Ports::new")[0]
        pr = Prov(nb)
        order = []
        for a in c.args:
            f = [x[2] for x in pr.of_operand(a) if x[0] == "field" and x[1] == "DlStatus"]
            order.append(f[0] if len(f) == 1 else None)
        ok = order == ["link_port%d" % k for k in spec["port_order"]["order"]]
    rep.ob(P, "ports:link-bits-in-processing-order" + tag, ok, "Ports::new receives DlStatus.link_port0, 3, 1, 2 - the link bits in frame processing order", loc=nb.span if nb else None, how="dataflow")
    pn = prog.body("Ports::new")
    ports = q.aggregates(pn, "Port")
    prn = Prov(pn)
    m = []
    for bi, si, st in ports:
        act = [x[1] for x in prn.of_operand(q.agg_field(st, "active")) if x[0] == "arg"]
        num = q.const_int(q.agg_field(st, "number"))
        m.append((act[0] if len(act) == 1 else None, num))
    arr = [x for x in q.aggregates(pn, None) if x[2]["rv"].get("ak") == "array"]
    okn = sorted(m) == [(1, 0), (2, 3), (3, 1), (4, 2)]
    rep.ob(P, "ports:numbering" + tag, okn, "Ports::new pairs its arguments with port numbers 0, 3, 1, 2 in that order: %s" % sorted(m), loc=pn.span, how="dataflow")
    # recorded in the SubDevice from reads through its own reference
    b = prog.async_body("SubDevice::new")
    ag = q.aggregates(b, "SubDevice")
    ok = len(ag) == 1
    if ok:
        pr = Prov(b, follow_all={"Result::map"})
        pf = Prov(b, follow_all={"Result::map", "SupportFlags::dc_support"})
        fl = pf.of_operand(q.agg_field(ag[0][2], "dc_support"))
        po = Prov(b, follow_all={"Result::map", "Ports::new"}).of_operand(q.agg_field(ag[0][2], "ports"))
        ok = has_root(fl, "via", "SupportFlags::dc_support") and has_root(fl, "await", "WrappedRead::receive") and has_root(po, "await", "WrappedRead::receive")
        regs = set()
        for c in b.calls_to("SubDeviceRef::read"):
            for x in Prov(b, follow_all={"Into::into"}).of_operand(c.args[1]):
                if x[0] == "agg" and x[1] == "RegisterAddress":
                    regs.add(x[2])
        ok = ok and {"SupportFlags", "DlStatus", "ConfiguredStationAlias"} <= regs
    rep.ob(P, "recorded-from-own-registers" + tag, ok, "SubDevice.dc_support (= dc_support() of the flags read) / .ports / .alias_address come from reads of the SupportFlags, DlStatus and ConfiguredStationAlias registers through the device's own reference", loc=b.span, how="dataflow")


def _any_table(prog, anyb):
    """DcSupport::any evaluated for each variant of *self (self is an enum: feed the discriminant)."""
    adt = prog.adt("DcSupport")
    out = {}
    for i, v in enumerate(adt["variants"]):
        d = v.get("discr", i)
        # walk: switch on discriminant of *self
        bb = 0
        env = {}
        res = None
        for _ in range(50):
            blk = anyb.blocks[bb]
            for st in blk["stmts"]:
                if st["k"] == "assign" and not st["place"]["p"]:
                    rv = st["rv"]
                    if rv["k"] == "discr":
                        env[st["place"]["l"]] = d
                    elif rv["k"] == "use":
                        ci = q.const_int(rv["a"][0])
                        pl = op_place(rv["a"][0])
                        env[st["place"]["l"]] = ci if ci is not None else (env.get(pl["l"]) if pl and not pl["p"] else None)
                    elif rv["k"] == "un" and rv["op"] == "Not":
                        pl = op_place(rv["a"][0])
                        x = env.get(pl["l"]) if pl and not pl["p"] else None
                        env[st["place"]["l"]] = None if x is None else 1 - int(x)
                    elif rv["k"] == "bin" and rv["op"] in ("Eq", "Ne"):
                        vals = []
                        for a in rv["a"]:
                            ci = q.const_int(a)
                            pl = op_place(a)
                            vals.append(ci if ci is not None else (env.get(pl["l"]) if pl and not pl["p"] else None))
                        env[st["place"]["l"]] = None if None in vals else int((vals[0] == vals[1]) == (rv["op"] == "Eq"))
                    else:
                        env[st["place"]["l"]] = None
            t = blk["term"]
            if t["k"] == "goto":
                bb = t["t"]
            elif t["k"] == "switch":
                pl = op_place(t["d"])
                x = env.get(pl["l"]) if pl and not pl["p"] else None
                if x is None:
                    break
                nxt = t["otherwise"]
                for v_, tgt in t["arms"]:
                    if v_ == int(x):
                        nxt = tgt
                bb = nxt
            elif t["k"] == "return":
                res = env.get(0)
                break
            else:
                break
        out[v["name"]] = res
    return out


def _fmt_max_len(template, arg_bits):
    """Upper bound of the formatted length of a format string whose arguments are unsigned integers of the given
    bit widths (None: unknown).  -> int or None (cannot establish)."""
    import re

    n = 0
    i = 0
    k = 0
    t = template.replace("{{", "\x00").replace("}}", "\x01")
    for m in re.finditer(r"\{([^{}:]*)(?::([^{}]*))?\}", t):
        n += len(t[i:m.start()])
        i = m.end()
        spec = m.group(2) or ""
        ms = re.fullmatch(r"(#?)(0?)(\d*)([xXob]?)", spec)
        if ms is None or m.group(1).strip():
            return None
        bits = arg_bits[k] if k < len(arg_bits) else None
        k += 1
        if bits is None:
            return None
        alt, _zero, width, ty = ms.groups()
        digits = {"x": (bits + 3) // 4, "X": (bits + 3) // 4, "o": (bits + 2) // 3, "b": bits, "": len(str((1 << bits) - 1))}[ty]
        ln = digits + (2 if alt and ty else 0)
        n += max(ln, int(width) if width else 0)
    n += len(t[i:])
    return n


def fallback_name(ctx, prog, rep, tag):
    """Two sites that must agree: the generated fallback name of a SubDevice without a name in its EEPROM is written
    with `fmt::unwrap!(write!(..))` into the fixed capacity `name` string - a format text longer than the capacity
    makes init panic for every nameless device (no captured network has one)."""
    import re

    P = "C09.new"
    site = None
    for g in prog.group("SubDevice::new"):
        wf = [c for c in g.calls() if c.name.endswith("Write::write_fmt")]
        pn = [c for c in g.calls() if c.name.startswith("panicking::")]
        if wf and pn:
            site = (g, wf[0])
    if site is None:
        rep.ob(P, "fallback-name-fits" + tag, True, "no panicking write!() into the name string in SubDevice::new", how="inventory", nontrivial=False)
        return
    g, c = site
    cap = None
    for f in prog.adt("SubDevice")["variants"][0]["fields"]:
        if f["name"] == "name":
            m = re.search(r"String<(\d+)>", f["ty"])
            cap = int(m.group(1)) if m else None
    # the macro's arguments, from the source text at the call's span
    fn, line, col = c.span.rsplit(":", 2)
    src = ctx.src(fn).splitlines()
    text = "\n".join(src[int(line) - 1:int(line) + 12])
    text = text[text.index("write!"):] if "write!" in text else ""
    depth = 0
    end = None
    for i, ch in enumerate(text):
        if ch == "(":
            depth += 1
        elif ch == ")":
            depth -= 1
            if depth == 0:
                end = i
                break
    body = text[text.index("(") + 1:end] if end else ""
    m = re.search(r'"((?:[^"\\\\]|\\\\.)*)"', body)
    ok = False
    why = "could not read the format string at %s" % c.span
    if m and cap is not None:
        args = [a.strip() for a in body[m.end():].split(",") if a.strip()]
        ident = {f["name"]: f["ty"] for f in prog.adt("SubDeviceIdentity")["variants"][0]["fields"]}
        bits = []
        for a in args:
            ma = re.fullmatch(r"identity\.(\w+)", a)
            ty = ident.get(ma.group(1)) if ma else None
            bits.append({"u8": 8, "u16": 16, "u32": 32, "u64": 64}.get(ty))
        mx = _fmt_max_len(m.group(1), bits)
        ok = mx is not None and mx <= cap
        why = "at most %s characters into a heapless::String<%d>" % (mx if mx is not None else "an unknown number of", cap)
    rep.ob(P, "fallback-name-fits" + tag, ok, "the generated fallback name fits the fixed capacity it is unwrap-written into: %s" % why, loc=c.span, how="table")
