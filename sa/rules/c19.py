"""C19 - derived wire encodings match their declared layout (translation validation).

For every derive site in the workspace and every definition of a generated corpus, the layout the
*generated code* implements (recovered from its MIR) is compared with the layout computed
independently from the *declaration* (ecsyn + the rules in the macro's documentation); enums'
generated value tables are compared with the discriminants rustc computes.  Nothing generated is
ever executed."""
import hashlib
import os
import random
import shutil

from .. import core, facts, nopanic, npcommon, q, wirelayout as wl
from ..core import Prov, has_root, last_seg, norm


def run(ctx, rep):
    rep.level = "translation_validation"
    rep.decided += [
        "for every derive site: generated read positions (byte, mask, shift | byte range) == layout computed from the declaration; generated write positions == the same layout; all writes are masked `|=` after a zero fill or whole sub-range hand-offs; total length == PACKED_LEN",
        "enums: generated value->variant table == rustc's discriminants + declared alternatives; fall-through is catch_all(raw) / #[default] / Err(InvalidValue) as declared; pack uses the discriminant (or the catch-all payload)",
        "primitive impls pair to_le_bytes/from_le_bytes on the same width; checked pack_to_slice tests the length before delegating",
        "NOPANIC (source: the buf parameter) over every unpack_from_slice: short buffers lead to Err, never to an index",
    ]
    rep.undecided += ["value round trips as executed behaviour", "layouts nobody instantiates beyond the generated corpus", "sizes of generic fields (documented as the user's duty)"]
    rep.trusted += ["rustc MIR construction (the macro expansion is analysed after type checking)", "syn parse of the declarations", "the symbolic evaluator recognises only the code shapes the generator emits today; anything else is reported as 'could not establish'"]
    n_prog = 0
    n_dis = 0
    samples = []
    for cfg in ctx.configs():
        prog = ctx.prog(cfg)
        tag = "" if cfg == "default" else "@" + cfg
        decl = wl.declared([os.path.join(ctx.repo, "src"), os.path.join(ctx.repo, "ethercrab-wire", "src")], features=("std", "default") if cfg == "default" else ())
        a, b_, s_ = validate(prog, decl["items"], rep, tag, ctx.repo)
        n_prog += a
        n_dis += b_
        samples += s_
        rep.floor("C19 workspace derive sites" + tag, a, 50)
        primitives(prog, rep, tag)
        unpack_nopanic(ctx, prog, rep, tag, crates=("ethercrab", "ethercrab_wire"))
    # corpus
    n = 600 if ctx.tier == "thorough" else 120
    cprog, cdecl, cdir = corpus(ctx, n)
    a, b_, s_ = validate(cprog, cdecl["items"], rep, "#corpus", cdir, crate="verif_corpus")
    n_prog += a
    n_dis += b_
    samples += s_[:6]
    rep.floor("C19 corpus definitions", a, n - 5)
    unpack_nopanic(ctx, cprog, rep, "#corpus", crates=("verif_corpus",), audit=False)
    rep.extra_cov.update({"programs": n_prog, "disagreements_checked": n_dis, "corpus_definitions": a, "corpus_seed": ctx.seed})
    rep.extra_cov["samples_layouts"] = samples[:12]


def _find_body(prog, name, trait, method, file_rel, line, crate=None):
    sn = "<%s as %s>::%s" % (name, trait, method)
    c = [b for b in prog.by_short.get(sn, []) if (crate is None or b.crate == crate)]
    c = [b for b in c if b.file.endswith(file_rel) or file_rel.endswith(b.file)]
    if not c:
        return None
    c.sort(key=lambda b: abs(int(b.span.rsplit(":", 2)[1]) - line))
    return c[0]


def validate(prog, items, rep, tag, root, crate=None):
    P = "C19.tv"
    n = 0
    ndis = 0
    samples = []
    adts_by_loc = {}
    for pth, a in prog.adts.items():
        adts_by_loc.setdefault(last_seg(pth), []).append(a)
    for it in items:
        if it["generic"]:
            rep.note("generic derive site %s: field sizes are the user's duty (documented); positions still checked" % it["name"])
        rel = os.path.relpath(it["file"], root) if it["file"].startswith(root) else it["file"]
        reads = "EtherCrabWireRead" in it["derives"] or "EtherCrabWireReadWrite" in it["derives"]
        writes = "EtherCrabWireWrite" in it["derives"] or "EtherCrabWireReadWrite" in it["derives"]
        key = "%s@%s%s" % (it["name"], rel.replace(".rs", ""), tag)
        n += 1
        if it["kind"] == "struct":
            total, ref, problems = wl.ref_layout(it)
            for p_ in problems:
                rep.violation(P, "decl|%s" % key, "declaration of %s is inconsistent: %s" % (it["name"], p_), loc="%s:%s" % (rel, it["line"]))
            nbytes = (total + 7) // 8
            for (kind, fld, detail) in wl.type_width_problems(it):
                rep.violation("C19.gen", "%s|%s.%s%s" % (kind, it["name"], fld, tag if tag != "#corpus" else ""), "derive accepts `%s.%s` (%s) but the generated code cannot implement it" % (it["name"], fld, detail), loc="%s:%s" % (rel, it["line"]))
            if reads:
                b = _find_body(prog, it["name"], "EtherCrabWireRead", "unpack_from_slice", rel, it["line"], crate)
                if b is None:
                    rep.violation(P, "missing-read|%s" % key, "no generated unpack_from_slice found for %s" % it["name"], loc="%s:%s" % (rel, it["line"]))
                else:
                    got = wl.read_layout(prog, b)
                    ndis += _cmp_struct(rep, P, key, "read", it, ref, nbytes, got, b)
                    if len(samples) < 40:
                        samples.append({"type": it["name"], "side": "read", "declared": {k: v for k, v in ref.items()}, "generated": got["fields"]})
            if writes:
                b = _find_body(prog, it["name"], "EtherCrabWireWrite", "pack_to_slice_unchecked", rel, it["line"], crate)
                if b is None:
                    rep.violation(P, "missing-write|%s" % key, "no generated pack_to_slice_unchecked found for %s" % it["name"], loc="%s:%s" % (rel, it["line"]))
                else:
                    got = wl.write_layout(prog, b)
                    ndis += _cmp_struct(rep, P, key, "write", it, ref, nbytes, got, b)
                # packed_len / PACKED_LEN
                pl = _find_body(prog, it["name"], "EtherCrabWireWrite", "packed_len", rel, it["line"], crate)
                if pl is not None:
                    r = Prov(pl).of_local(0)
                    ok = has_root(r, "const", nbytes)
                    ndis += 1
                    rep.ob(P, "packed_len|%s" % key, ok, "packed_len() of %s is %d bytes" % (it["name"], nbytes), loc=pl.span, how="table")
        else:
            # enum: rustc's discriminants for this very type
            cands = [a for a in adts_by_loc.get(it["name"], []) if a["kind"] == "Enum" and (a["span"].split(":")[0].endswith(rel) or rel.endswith(a["span"].split(":")[0]))]
            cands.sort(key=lambda a: abs(int(a["span"].split(":")[1]) - it["line"]))
            if not cands:
                rep.violation(P, "missing-adt|%s" % key, "enum %s not found in the compiler's type table" % it["name"], loc="%s:%s" % (rel, it["line"]))
                continue
            adt = cands[0]
            rdis = {v["name"]: v.get("discr") for v in adt["variants"]}
            catch = [v["name"] for v in it["variants"] if v["wire"].get("catch_all")]
            dflt = [v["name"] for v in it["variants"] if v["default"]]
            want = {}
            for v in it["variants"]:
                if v["wire"].get("catch_all"):
                    continue
                want[rdis[v["name"]]] = v["name"]
                for alt in v["wire"].get("alternatives", []):
                    want[alt] = v["name"]
            if catch:
                want_fall = ("variant", catch[0], 1)
            elif dflt:
                want_fall = ("variant", dflt[0], 0)
            else:
                want_fall = ("err", "InvalidValue", 0)
            if reads:
                b = _find_body(prog, it["name"], "EtherCrabWireRead", "unpack_from_slice", rel, it["line"], crate)
                if b is None:
                    rep.violation(P, "missing-read|%s" % key, "no generated unpack_from_slice found for enum %s" % it["name"], loc="%s:%s" % (rel, it["line"]))
                else:
                    got = wl.enum_read_table(prog, b)
                    ndis += len(want) + 1
                    if got["table"] == want and got["fall"] == want_fall:
                        rep.ob(P, "enum-read|%s" % key, True, "generated table of %s (%d values, fall-through %s) equals rustc's discriminants + alternatives" % (it["name"], len(want), want_fall[1]), loc=b.span, how="table")
                    else:
                        diff = {k: (want.get(k), got["table"].get(k)) for k in set(want) | set(got["table"]) if want.get(k) != got["table"].get(k)}
                        rep.violation(
                            P, "enum-read|%s" % _shape_key(it, key),
                            "enum %s: the generated unpack table disagrees with the discriminants rustc assigns (value: (expected variant, generated variant)) %s; fall-through expected %s got %s. pack (`*self as %s`) writes rustc's value, so unpack(pack(x)) != x" % (it["name"], dict(sorted(diff.items())[:6]), want_fall, got["fall"], it["repr"]),
                            loc="%s:%s" % (rel, it["line"]),
                        )
                    if len(samples) < 40:
                        samples.append({"type": it["name"], "side": "enum-read", "rustc_discriminants": rdis, "generated_table": got["table"]})
            if writes:
                b = _find_body(prog, it["name"], "EtherCrabWireWrite", "pack_to_slice_unchecked", rel, it["line"], crate)
                if b is None:
                    rep.violation(P, "missing-write|%s" % key, "no generated pack for enum %s" % it["name"], loc="%s:%s" % (rel, it["line"]))
                else:
                    kind, info = wl.enum_write_kind(prog, b)
                    ndis += 1
                    if kind == "discr":
                        ok = info.strip() == it["repr"].strip()
                        rep.ob(P, "enum-write|%s" % key, ok, "%s packs `*self as %s` (rustc's discriminant), little endian" % (it["name"], info), loc=b.span, how="table")
                    elif kind == "match":
                        bad = {}
                        for var, e in info.items():
                            if var in catch:
                                if e[0] != "field":
                                    bad[var] = str(e)
                            elif e != ("c", rdis.get(var)):
                                bad[var] = (rdis.get(var), e)
                        if not bad and set(info) >= set(rdis):
                            rep.ob(P, "enum-write|%s" % key, True, "%s packs each variant's rustc discriminant (catch-all: its payload)" % it["name"], loc=b.span, how="table")
                        else:
                            rep.violation(P, "enum-write|%s" % _shape_key(it, key), "enum %s: generated pack values disagree with rustc's discriminants: %s" % (it["name"], dict(list(bad.items())[:6])), loc="%s:%s" % (rel, it["line"]))
                    else:
                        rep.violation(P, "enum-write|%s" % key, "could not establish how enum %s is packed" % it["name"], loc=b.span)
    return n, ndis, samples


def _shape_key(it, key):
    """Corpus findings are keyed by the *shape* that triggers the generator defect, not by the
    generated type name."""
    if "#corpus" not in key:
        return key
    shapes = []
    vs = it["variants"]
    if vs and vs[0]["discr"] is None:
        shapes.append("implicit-first-variant")
    for i, v in enumerate(vs[:-1]):
        if v["wire"].get("alternatives") and vs[i + 1]["discr"] is None:
            shapes.append("implicit-after-alternatives")
    return "shape:%s#corpus" % ("+".join(sorted(set(shapes))) or "other")


def _cmp_struct(rep, P, key, side, it, ref, nbytes, got, body):
    n = 0
    name = it["name"]
    tys = {f["name"]: f["ty"] for f in it["fields"]}
    for p_ in got["problems"]:
        rep.violation(P, "%s-shape|%s" % (side, key), "%s side of %s: could not establish the layout: %s" % (side, name, p_), loc=body.span)
    n += 1
    rep.ob(P, "%s-total|%s" % (side, key), got["total"] == nbytes, "%s side of %s works on exactly %d bytes (generated: %s)" % (side, name, nbytes, got["total"]), loc=body.span, how="table")
    if side == "write":
        n += 1
        rep.ob(P, "write-zero-fill|%s" % key, bool(got.get("zero_fill")), "the %d-byte window is zero filled before any field is ORed in (undeclared bits are zero)" % nbytes, loc=body.span)
    for f, exp in ref.items():
        n += 1
        g = got["fields"].get(f)
        if exp is None:
            ok = (g is None) if side == "write" else (g is not None and g["kind"] == "skip")
            rep.ob(P, "%s-field|%s.%s" % (side, key, f), ok, "#[wire(skip)] field %s is %s" % (f, "not written" if side == "write" else "defaulted"), loc=body.span, how="table", nontrivial=False)
            continue
        pos, w = exp
        if g is None:
            rep.violation(P, "%s-field|%s.%s" % (side, key, f), "%s side of %s does not handle field %s (declared at bit %d, %d bits)" % (side, name, f, pos, w), loc=body.span)
            continue
        if w <= 8:
            e_byte, e_shift = pos // 8, pos % 8
            e_mask = ((1 << w) - 1) << e_shift
            ok = g.get("byte") == e_byte and g.get("shift") == e_shift and g.get("mask") == e_mask
            if ok and side == "read":
                t = tys[f]
                if t == "bool":
                    ok = g["kind"] == "bool"
                elif t == "u8":
                    ok = g["kind"] == "u8"
                else:
                    ok = g["kind"].startswith("nested:")
            d = "byte %d mask %#04x shift %d" % (e_byte, e_mask, e_shift)
        else:
            ok = g.get("start") == pos // 8 and g.get("end") == (pos + w) // 8 and pos % 8 == 0 and w % 8 == 0
            d = "bytes %d..%d" % (pos // 8, (pos + w) // 8)
        if ok:
            rep.ob(P, "%s-field|%s.%s" % (side, key, f), True, "%s.%s: declared bit %d width %d => %s; generated code agrees" % (name, f, pos, w, d), loc=body.span, how="table")
        else:
            rep.violation(P, "%s-field|%s.%s" % (side, key, f), "%s side of %s.%s: declared bit %d width %d => %s, but the generated code uses %s" % (side, name, f, pos, w, d, {k: v for k, v in g.items() if k != "bb"}), loc=body.span)
    extra = set(got["fields"]) - set(ref)
    for f in extra:
        rep.violation(P, "%s-extra|%s.%s" % (side, key, f), "%s side of %s touches undeclared field %s" % (side, name, f), loc=body.span)
    return n


def primitives(prog, rep, tag):
    P = "C19.prim"
    n = 0
    for ty, size in (("u8", 1), ("u16", 2), ("u32", 4), ("u64", 8), ("i8", 1), ("i16", 2), ("i32", 4), ("i64", 8), ("f32", 4), ("f64", 8)):
        r = prog.by_short.get("<%s as EtherCrabWireRead>::unpack_from_slice" % ty, [])
        w = prog.by_short.get("<%s as EtherCrabWireWrite>::pack_to_slice_unchecked" % ty, [])
        if not r or not w:
            rep.violation(P, "missing|%s%s" % (ty, tag), "primitive impl for %s not found" % ty)
            continue
        n += 1
        rb, wb = r[0], w[0]
        grp = prog.groups[rb.root]
        from_le = any(c for g in grp for c in g.calls() if (c.decl_s or "").endswith("::from_le_bytes"))
        fc = [c for c in rb.calls() if c.is_("slice::first_chunk")]
        okr = from_le and len(fc) == 1 and ("; %d]" % size) in (fc[0].t.get("gargs") or "") or (from_le and len(fc) == 1 and str(size) in (fc[0].t.get("gargs") or ""))
        to_le = [c for c in wb.calls() if (c.decl_s or "").endswith("::to_le_bytes")]
        fcm = [c for c in wb.calls() if c.is_("slice::first_chunk_mut")]
        okw = len(to_le) == 1 and len(fcm) == 1 and str(size) in (fcm[0].t.get("gargs") or "")
        rep.ob(P, "le-pair|%s%s" % (ty, tag), okr and okw, "%s: unpack = from_le_bytes(first_chunk::<%d>), pack = to_le_bytes into first_chunk_mut::<%d>" % (ty, size, size), loc=rb.span, how="table")
        # short buffer -> Err(ReadBufferTooShort)
        errs = q.aggregates(rb, "WireError", "ReadBufferTooShort")
        rep.ob(P, "short-read|%s%s" % (ty, tag), bool(errs), "%s: a short buffer yields ReadBufferTooShort" % ty, loc=rb.span, how="inventory", nontrivial=False)
    rep.floor("C19 primitive impls" + tag, n, 10)
    # checked pack_to_slice (trait default): length test dominates the delegation
    b = prog.body("EtherCrabWireWrite::pack_to_slice")
    g = b.calls_to("slice::get")
    d = [c for c in b.calls() if (c.decl_s or "").endswith("pack_to_slice_unchecked")]
    ok = len(g) == 1 and len(d) == 1
    if not ok and len(d) == 1:
        # the same test written as a comparison: delegate only where buf.len() >= packed_len()
        prb = Prov(b)
        for cd in q.conds(b):
            e = q.rel_edges(cd, lambda x: has_root(x, "call", "slice::len") and not has_root(x, "binop"), lambda x: has_root(x, "call", "EtherCrabWireWrite::packed_len") and not has_root(x, "binop"), prb)
            t = e.get("Ge")
            errs_ = {x[0] for x in q.aggregates(b, "WireError", "WriteBufferTooShort")}
            if t is not None and d[0].bb in q.edge_dominated(b, cd.bb, t) and e.get("Lt") is not None and errs_ & q.edge_dominated(b, cd.bb, e["Lt"]):
                ok = True
        rep.ob(P, "checked-pack" + tag, ok, "pack_to_slice delegates only where buf.len() >= packed_len(), else WriteBufferTooShort", loc=b.span)
        return
    if ok:
        tr = q.ok_edge_of_try(b, g[0])
        if tr is None:
            for c in b.calls():
                if c.is_("Option::ok_or") and (q.op_place(c.args[0]) or {}).get("l") == g[0].dest["l"]:
                    tr = q.ok_edge_of_try(b, c)
        rng = Prov(b).of_operand(g[0].args[1])
        ok = tr is not None and tr[1] is not None and d[0].bb in q.edge_dominated(b, tr[0], tr[1]) and has_root(rng, "call", "EtherCrabWireWrite::packed_len")
    rep.ob(P, "checked-pack" + tag, ok, "pack_to_slice delegates only after buf.get(0..packed_len()) succeeded, else WriteBufferTooShort", loc=b.span)


def unpack_nopanic(ctx, prog, rep, tag, crates, audit=True):
    t = npcommon.taint_for(prog)
    aud = npcommon.audited_for(ctx, prog, rep, "C19", tag) if audit else {}
    scope = [b for b in prog.bodies if b.crate in crates and b.root_short.endswith("unpack_from_slice")]
    sinks, counts = nopanic.find_sinks(prog, t, scope)
    seen = set()
    used = set()
    nb = ng = na = 0
    for s in sinks:
        if s.key in seen:
            continue
        seen.add(s.key)
        why = nopanic.discharge_by_bound(s)
        how = "bound"
        if why is None:
            why = nopanic.discharge_by_guard(s)
            how = "guard"
        if why is None and s.key in aud:
            why = "audited: " + aud[s.key]
            how = "audit"
            used.add(s.key)
        if why is None:
            rep.violation("C19.np", s.key + tag, "%s `%s` in %s can panic on a hostile buffer: operands {%s} %s" % (s.kind, s.what, s.body.root_short, s.sig, s.detail), loc=q.loc(s.body, s.bb))
        else:
            rep.ob("C19.np", s.key + tag, True, "%s in %s discharged: %s" % (s.kind + ":" + s.what, s.body.root_short, why), loc=q.loc(s.body, s.bb), how=how)
    rep.analysed["C19 unpack bodies" + tag] = len(scope)
    rep.analysed["C19 unpack sinks" + tag] = {"tainted": len(seen), **counts}
    if audit:
        npcommon.report_stale(rep, "C19", [k for k in aud if k not in used], tag)


# ----------------------------------------------------------------------------------------------
# corpus
# ----------------------------------------------------------------------------------------------


def corpus(ctx, n):
    """Generate (deterministically from the seed) a crate of derive sites, compile it for facts only."""
    from ..tools_corpus import generate  # noqa

    seed = int(ctx.seed)
    src = generate(seed, n)
    h = hashlib.sha256((src + facts.tree_hash(ctx.repo)).encode()).hexdigest()[:16]
    cdir = os.path.join(facts.CACHE, "corpus", "c-%s" % h)
    os.makedirs(os.path.join(cdir, "src"), exist_ok=True)
    with open(os.path.join(cdir, "src", "lib.rs"), "w") as fh:
        fh.write(src)
    with open(os.path.join(cdir, "Cargo.toml"), "w") as fh:
        fh.write('[package]\nname = "verif_corpus"\nversion = "0.0.0"\nedition = "2021"\n\n[workspace]\n\n[dependencies]\nethercrab-wire = { path = "%s/ethercrab-wire" }\n' % ctx.repo)
    lock = os.path.join(ctx.repo, "Cargo.lock")
    if os.path.exists(lock) and not os.path.exists(os.path.join(cdir, "Cargo.lock")):
        shutil.copy(lock, os.path.join(cdir, "Cargo.lock"))
    fdir = facts.extract("default", repo=ctx.repo, manifest=os.path.join(cdir, "Cargo.toml"), crates="verif_corpus", extra_key=h)
    raw = facts.load_raw(fdir)
    prog = core.Program(raw)
    decl = wl.declared([os.path.join(cdir, "src")])
    # keep the cache small
    root = os.path.join(facts.CACHE, "corpus")
    ds = sorted((os.path.join(root, d) for d in os.listdir(root)), key=os.path.getmtime)
    for d in ds[:-4]:
        shutil.rmtree(d, ignore_errors=True)
    return prog, decl, cdir
