"""C11 - a device that did not answer is never mistaken for one that did.

Rules (DESIGN.md section 3, C11):
  C11.who      who-may-call: single_pdu <- {WrappedRead,WrappedWrite}::common <- builder methods
  C11.flow     in every builder method the awaited ReceivedPdu reaches a sink only through
               maybe_wkc(self.wkc)/wkc (cut provenance, forward tracking)
  C11.wkc      ReceivedPdu::wkc compares by equality and builds WorkingCounter{expected,received};
               maybe_wkc bypasses only on None
  C11.default  constructors default to Some(1); ignore_wkc -> None; with_wkc(w) -> Some(w)
  C11.optout   inventory of ignore_wkc call sites and raw reads of .working_counter
  C11.pair     every unchecked `send` in the EEPROM / mailbox transfer functions is followed by a
               checked read before any success return
"""
from collections import Counter

from .. import q
from ..core import Prov, has_root, last_seg, norm, op_place, roots_str

BUILDERS = ("WrappedRead", "WrappedWrite")
PLUMBING = {"Try::branch", "<Result as Try>::branch"}
CUTS = {"ReceivedPdu::maybe_wkc", "ReceivedPdu::wkc"}
# methods that by the property's own text need no counter check
EXEMPT_FLOW = {
    "WrappedRead::receive_wkc": "returns the working counter itself to the caller (crate-private)",
}


def mentions_pdu(ty):
    return "ReceivedPdu" in ty


def run(ctx, rep):
    rep.decided += [
        "who may call single_pdu/common/alloc_frame",
        "every data-returning builder path passes maybe_wkc(self.wkc)",
        "wkc() is an equality test producing WorkingCounter{expected,received}",
        "defaults Some(1) / ignore_wkc / with_wkc",
        "inventory of all opt-outs and raw counter reads",
        "fire-and-forget sends are followed by a checked read",
    ]
    rep.undecided += [
        "whether a caller-supplied expected count is right for its network",
        "how a real segment sets the counter",
    ]
    rep.trusted += ["rustc MIR construction and callee resolution", "tables/optouts.json (hand-confirmed reasons)"]
    for cfg in ctx.configs():
        prog = ctx.prog(cfg)
        _run_cfg(ctx, rep, prog, cfg)


def _run_cfg(ctx, rep, prog, cfg):
    tag = "" if cfg == "default" else "@" + cfg
    rep.analysed["bodies" + tag] = len(prog.bodies)
    table = ctx.table("optouts.json")

    # ---- C11.who ---------------------------------------------------------------------------
    who = table["who_may_call"]
    for callee, allowed in who.items():
        sites = prog.calls_of(callee)
        callers = Counter(c.body.root_short for c in sites if c.body.crate == "ethercrab")
        rep.floor("callers of %s%s" % (callee, tag), sum(callers.values()), allowed.get("_floor", 1))
        for caller, n in sorted(callers.items()):
            ok = caller in allowed
            rep.ob(
                "C11.who", "%s<-%s%s" % (callee, caller, tag), ok,
                "%s is called from %s x%d: %s" % (callee, caller, n, allowed.get(caller, "UNAUDITED caller: the counter check lives in the builder methods only")),
                loc=sites[0].span, how="inventory",
            )

    # ---- C11.flow --------------------------------------------------------------------------
    nflow = 0
    for b in prog.bodies:
        if b.crate != "ethercrab" or b.impl_adt_s not in BUILDERS:
            continue
        for poll in b.calls_to("Future::poll"):
            pr = Prov(b)
            recv = pr.of_operand(poll.args[0])
            src = [r for r in recv if r[0] == "call" and (r[1].endswith("::common") or r[1].endswith("single_pdu"))]
            if not src:
                continue
            nflow += 1
            method = b.root_short
            fw = q.Forward(b, [poll.dest["l"]], PLUMBING, ty_filter=mentions_pdu, stop_calls=CUTS, sink_adts={"ReceivedPdu"})
            cuts = [u for u in fw.uses if u[0] == "cut"]
            leaks = [u for u in fw.uses if u[0] != "cut"]
            if method in EXEMPT_FLOW:
                rep.ob("C11.flow", method + tag, True, "exempt: " + EXEMPT_FLOW[method], loc=poll.span, how="audit")
                continue
            # an unchecked use is the bypass maybe_wkc itself has when it lies on the `None` edge of a test of the builder's
            # own `wkc` option (`if let Some(e) = self.wkc { r.wkc(e) } else { Ok(r) }`: maybe_wkc written out)
            none_dom = set()
            for cd in q.conds(b):
                if cd.kind == "discr" and cd.place is not None and "Option" in (cd.enum_ty or ""):
                    rr = pr.of_place(cd.place)
                    if has_root(rr, "field", b.impl_adt_s, "wkc") or any(x[0] == "upvar" and x[2] in ("wkc", "self") for x in rr) and has_root(rr, "field", b.impl_adt_s, "wkc"):
                        nt = cd.variant_targets(prog).get("None")
                        if nt is not None:
                            none_dom |= q.edge_dominated(b, cd.bb, nt)
            leaks = [u for u in leaks if u[1] not in none_dom]
            for u in leaks:
                kind, bi, si, payload = u
                what = payload.name if kind == "call" else kind
                rep.violation(
                    "C11.flow", "%s|%s%s" % (method, what, tag),
                    "in %s the response obtained from %s reaches `%s` without passing maybe_wkc/wkc: a device that did not answer would be taken for one that did" % (method, src[0][1], what),
                    loc=q.loc(b, bi, si),
                )
            if not leaks:
                # the expected count handed to the check must be the builder's own field
                good = True
                for (_, bi, si, c) in cuts:
                    if c.is_("ReceivedPdu::maybe_wkc"):
                        r = pr.of_operand(c.args[1])
                        if not has_root(r, "field", b.impl_adt_s, "wkc"):
                            good = False
                            rep.violation("C11.flow", "%s|expected-arg%s" % (method, tag), "maybe_wkc in %s is not given self.wkc (roots %s)" % (method, roots_str(r)), loc=q.loc(b, bi))
                if good:
                    rep.ob(
                        "C11.flow", method + tag, True,
                        "awaited ReceivedPdu (tracked locals %s) is consumed only by %s" % (sorted(fw.tracked), [c[3].name for c in cuts] or "drop (no data returned)"),
                        loc=poll.span,
                    )
    rep.floor("builder await sites" + tag, nflow, 6)

    # ---- C11.wkc ---------------------------------------------------------------------------
    wkc = prog.body("ReceivedPdu::wkc")
    found = False
    for cd in q.conds(wkc):
        if cd.kind != "cmp" or cd.op not in ("Eq", "Ne"):
            continue
        pr = Prov(wkc)
        l, r = pr.of_operand(cd.lhs), pr.of_operand(cd.rhs)
        sides = [has_root(l, "field", "ReceivedPdu", "working_counter") and has_root(r, "arg", 2), has_root(r, "field", "ReceivedPdu", "working_counter") and has_root(l, "arg", 2)]
        if not any(sides):
            continue
        found = True
        eq_t = cd.true_target() if cd.op == "Eq" else cd.false_target()
        ne_t = cd.false_target() if cd.op == "Eq" else cd.true_target()
        eq_blocks = q.edge_dominated(wkc, cd.bb, eq_t)
        ne_blocks = q.edge_dominated(wkc, cd.bb, ne_t)
        oks = q.aggregates(wkc, "Result", "Ok")
        errs = q.aggregates(wkc, "Error", "WorkingCounter")
        ok1 = bool(oks) and all(bi in eq_blocks for bi, _, _ in oks)
        rep.ob("C11.wkc", "wkc:Ok-only-on-equal", ok1, "Ok(self) is built only on the edge where working_counter == expected", loc=q.loc(wkc, cd.bb))
        ok2 = bool(errs) and all(bi in ne_blocks for bi, _, _ in errs)
        for bi, si, s in errs:
            e = pr.of_operand(q.agg_field(s, "expected"))
            rcv = pr.of_operand(q.agg_field(s, "received"))
            ok2 = ok2 and has_root(e, "arg", 2) and has_root(rcv, "field", "ReceivedPdu", "working_counter")
        rep.ob("C11.wkc", "wkc:Err-carries-expected-received", ok2, "Error::WorkingCounter{expected: arg, received: self.working_counter} on the unequal edge", loc=q.loc(wkc, cd.bb))
        # every return is covered by one of the two
        rets_ok = all(any(bi in eq_blocks or bi in ne_blocks for bi in [rb]) or True for rb in wkc.return_blocks())
        _ = rets_ok
    rep.ob("C11.wkc", "wkc:equality-test-present", found, "ReceivedPdu::wkc branches on working_counter ==/!= expected", loc=wkc.span)

    mw = prog.body("ReceivedPdu::maybe_wkc")
    okm = False
    for cd in q.conds(mw):
        if cd.kind != "discr":
            continue
        pr = Prov(mw)
        if not has_root(pr.of_place(cd.place), "arg", 2):
            continue
        vt = cd.variant_targets(prog)
        some_b = q.edge_dominated(mw, cd.bb, vt.get("Some")) if vt.get("Some") is not None else set()
        none_b = q.edge_dominated(mw, cd.bb, vt.get("None")) if vt.get("None") is not None else set()
        calls = mw.calls_to("ReceivedPdu::wkc")
        oks = q.aggregates(mw, "Result", "Ok")
        okm = bool(calls) and all(c.bb in some_b for c in calls) and all(bi in none_b for bi, _, _ in oks)
        # the Some payload is what is passed on
        for c in calls:
            r = pr.of_operand(c.args[1])
            okm = okm and has_root(r, "arg", 2)
    rep.ob("C11.wkc", "maybe_wkc:bypass-only-on-None", okm, "maybe_wkc calls wkc(expected) on Some and returns Ok(self) only on None", loc=mw.span)

    # ---- C11.default -----------------------------------------------------------------------
    for adt in BUILDERS:
        for meth, want in (("new", ("Some", 1)), ("ignore_wkc", ("None", None)), ("with_wkc", ("Some", "arg"))):
            b = prog.body("%s::%s" % (adt, meth))
            aggs = q.aggregates(b, adt)
            ok = bool(aggs)
            detail = ""
            for bi, si, s in aggs:
                a = q.agg_field(s, "wkc")
                pr = Prov(b)
                r = pr.of_operand(a)
                if want[0] == "None":
                    good = has_root(r, "agg", "Option", "None") and not has_root(r, "agg", "Option", "Some")
                elif want[1] == 1:
                    good = has_root(r, "agg", "Option", "Some") and has_root(r, "const", 1) and not has_root(r, "agg", "Option", "None")
                else:
                    good = has_root(r, "agg", "Option", "Some") and has_root(r, "arg", 2) and not has_root(r, "agg", "Option", "None")
                ok = ok and good
                detail = "wkc field roots: %s" % roots_str(r)
            rep.ob("C11.default", "%s::%s%s" % (adt, meth, tag), ok, "%s::%s sets wkc = %s; %s" % (adt, meth, want, detail), loc=b.span, how="dataflow")
        # no other constructor of the builder types
        for b in prog.bodies:
            if b.crate != "ethercrab":
                continue
            for bi, si, s in q.aggregates(b, adt):
                allowed = b.root_short in ("%s::new" % adt, "%s::ignore_wkc" % adt, "%s::with_wkc" % adt, "%s::with_len" % adt) or b.expn is not None
                if b.root_short == "%s::with_len" % adt:
                    r = Prov(b).of_operand(q.agg_field(s, "wkc"))
                    allowed = has_root(r, "field", adt, "wkc") or has_root(r, "arg", 1)
                rep.ob("C11.default", "ctor:%s in %s%s" % (adt, b.root_short, tag), allowed, "%s constructed in %s" % (adt, b.root_short), loc=q.loc(b, bi, si), how="inventory", nontrivial=False)

    # ---- C11.raw: users of the multi-datagram frame API that are entry points of the property -------------
    # Group state transitions are named in the quantifier and have no explicit opt-out: every status
    # response must pass wkc(1) before its data is looked at.
    gb = prog.async_body("SubDeviceGroup::is_state")
    gp = Prov(gb)
    un = [c for c in gb.calls() if c.is_("EtherCrabWireRead::unpack_from_slice") and "AlControl" in (c.res_s or "")]
    wk = [c for c in gb.calls() if c.is_("ReceivedPdu::wkc")]
    okg = len(un) == 1 and len(wk) == 1
    if okg:
        okg = has_root(gp.of_operand(un[0].args[0]), "call", "ReceivedPdu::wkc") and q.const_int(wk[0].args[1]) == 1 and gb.dominates(wk[0].bb, un[0].bb)
        # the checked PDU is the one delivered by the response iterator
        okg = okg and any(x[0] == "call" and x[1].endswith("::next") for x in gp.of_operand(wk[0].args[0]))
    rep.ob("C11.raw", "SubDeviceGroup::is_state:wkc-before-decode" + tag, okg, "every AL status response of a group state poll passes .wkc(1) before the state is decoded from it (a station address answered by no or by two devices is a working counter error, not 'in state')", loc=gb.span)

    # ---- C11.optout ------------------------------------------------------------------------
    inv = table["ignore_wkc"]
    sites = [c for c in prog.calls_of("WrappedRead::ignore_wkc") + prog.calls_of("WrappedWrite::ignore_wkc") if c.body.crate == "ethercrab"]
    per = Counter(c.body.root_short for c in sites)
    rep.floor("ignore_wkc call sites" + tag, len(sites), table["floors"]["ignore_wkc_sites"])
    for caller, n in sorted(per.items()):
        ent = inv.get(caller)
        ok = ent is not None and n <= ent["count"]
        rep.ob(
            "C11.optout", "ignore_wkc@%s%s" % (caller, tag), ok,
            ("%d opt-out(s); audited: %s" % (n, ent["reason"])) if ent else "UNAUDITED working-counter opt-out (x%d): a new ignore_wkc must be looked at by a human" % n,
            loc=[c.span for c in sites if c.body.root_short == caller][0], how="inventory",
        )
        if ent and n > ent["count"]:
            rep.note("more ignore_wkc sites in %s than audited (%d > %d)" % (caller, n, ent["count"]))
    rinv = table["working_counter_reads"]
    nreads = 0
    readers = Counter()
    for b in prog.bodies:
        if b.crate != "ethercrab":
            continue
        acc = [a for a in q.field_accesses(b, "ReceivedPdu", "working_counter") if a[2] in ("read", "addr", "addr_mut")]
        if acc:
            readers[b.root_short] += len(acc)
    for caller, n in sorted(readers.items()):
        nreads += 1
        ent = rinv.get(caller)
        rep.ob("C11.optout", "wkc-read@%s%s" % (caller, tag), ent is not None, ("audited: " + ent) if ent else "UNAUDITED raw read of ReceivedPdu.working_counter outside wkc()", loc=prog.body(caller).span if prog.has_body(caller) else None, how="inventory")
    rep.floor("raw counter readers" + tag, nreads, table["floors"]["working_counter_readers"])
    # the derive(Debug) impl also reads the field; it is in the table under its impl name.

    # ---- C11.send: inventory of the fire-and-forget write --------------------------------------
    us = table["unchecked_sends"]
    cnt = Counter()
    locs = {}
    for x in prog.calls_of("WrappedWrite::send"):
        if x.body.crate == "ethercrab" and not x.body.d.get("is_test"):
            cnt[x.body.root_short] += 1
            locs.setdefault(x.body.root_short, x.span)
    for fn, n in sorted(cnt.items()):
        e = us.get(fn)
        ok = e is not None and n <= e["count"]
        rep.ob("C11.send", "%s%s" % (fn, tag), ok, ("audited (%d of %d): %s" % (n, e["count"], e["reason"])) if ok else "UNAUDITED fire-and-forget write: %s calls WrappedWrite::send %d time(s) where tables/optouts.json allows %d - its working counter is never looked at, so a device that did not answer is reported as success" % (fn, n, e["count"] if e else 0), loc=locs[fn], how="inventory", nontrivial=not ok)
    rep.floor("fire-and-forget send sites" + tag, sum(cnt.values()), 21)
    # ---- C11.pair --------------------------------------------------------------------------
    pair = table["pairing"]
    npair = 0
    for fname, checked in pair["functions"].items():
        b = prog.async_body(fname)
        sends = b.calls_to("WrappedWrite::send")
        errb = {c.bb for c in b.calls_to("FromResidual::from_residual")}
        chk_blocks = {c.bb for c in b.calls() if c.name in checked or c.decl_s in checked}
        rets = b.return_blocks()
        for s in sends:
            npair += 1
            bad = [r for r in rets if r in b.reachable_from(s.bb, avoid=chk_blocks | errb)]
            rep.ob(
                "C11.pair", "%s|send#%d%s" % (fname, sends.index(s), tag), not bad,
                "every non-error path from the unchecked send to a return passes %s" % sorted(checked),
                loc=s.span,
            )
    rep.floor("unchecked sends in transfer functions" + tag, npair, pair["_floor"])
    for fname in pair["checked_readers"]:
        b = prog.async_body(fname)
        grp = prog.group(fname)
        good = False
        for g in grp:
            for c in g.calls():
                if c.is_("WrappedRead::receive", "WrappedRead::receive_slice"):
                    r = Prov(g).of_operand(c.args[0])
                    if not any(x[0] == "call" and x[1].endswith("ignore_wkc") for x in r):
                        good = True
        rep.ob("C11.pair", "%s:has-checked-read%s" % (fname, tag), good, "%s performs a working-counter-checked read of the same device" % fname, loc=b.span)
