"""C13 - no EEPROM content can hang or crash the MainDevice (NOPANIC over the EEPROM readers/parsers and the
init steps built on them)."""
from .. import nopanic, npcommon, q
from ..core import Prov, has_root

ENTRIES = [
    "SubDeviceEeprom::*", "EepromRange::*", "CategoryIterator::*", "SubDevice::new",
    "configuration::configure_mailboxes", "configuration::configure_mailbox_sms", "configuration::configure_fmmus",
    "configuration::configure_pdos_eeprom", "configuration::write_sm_config", "configuration::write_fmmu_config",
    "PdiOffset::*", "RegisterAddress::fmmu", "RegisterAddress::sync_manager",
]
# object-dictionary (CoE) driven configuration is device data but not EEPROM content
EXCLUDE = {"configuration::configure_pdos_coe"}


def run(ctx, rep):
    rep.decided += [
        "NOPANIC (sources: every EepromDataProvider::read_chunk result, read/read_exact out-parameters, all unpack_from_slice inputs) over the call-graph closure of SubDeviceEeprom::*, EepromRange::*, CategoryIterator::* and the init steps built on them: every overflow/bounds/div assert, panicking API, diverging panic and unsafe length/pointer/utf8 operation with a tainted operand is bounded, guarded, or audited",
        "the category walk's cursor cannot wrap (checked additions) - necessary for termination",
    ]
    rep.undecided += ["termination in general", "a bound on the number of device accesses"]
    rep.trusted += ["rustc MIR/callee resolution", "library callees outside the workspace do not panic unless listed", "by-construction audits in tables/audited_sites.json"]
    rep.assumptions += ["EEPROM providers return chunks of at least 4 bytes (SII reads are 4 or 8 bytes); the chunk length is not EEPROM content", "request-building (pack) code is outside the scope (C04/C19)"]
    for cfg in ctx.configs():
        prog = ctx.prog(cfg)
        tag = "" if cfg == "default" else "@" + cfg
        rep.analysed["bodies" + tag] = len(prog.bodies)
        t = npcommon.taint_for(prog)
        aud = npcommon.audited_for(ctx, prog, rep, "C13", tag)
        within = lambda b: npcommon.reply_scope(b) and b.root_short not in EXCLUDE  # noqa: E731
        scope, sinks, stale = nopanic.run_scope(prog, rep, "C13", t, ENTRIES, tag, audited=aud, within=within)
        npcommon.report_stale(rep, "C13", stale, tag)
        rep.floor("C13 scope functions" + tag, len({b.root for b in scope}), 150)
        rep.floor("C13 tainted sinks" + tag, len({s.key for s in sinks}), 30)
        cursor(prog, rep, tag)


def cursor(prog, rep, tag):
    """Non-wrapping cursor: every update of word_addr in the category walk is a checked_add whose None
    edge leaves the loop."""
    P = "C13.cursor"
    b = prog.async_body("SubDeviceEeprom::category")
    cas = [c for c in b.calls() if (c.decl_s or "").endswith("::checked_add")]
    rep.ob(P, "category:checked-adds" + tag, len(cas) >= 2, "the category walk advances its word address only through checked_add (%d sites)" % len(cas), loc=b.span, how="inventory")
    # no plain Add assert on u16 operands remains in the body
    plain = []
    for bb in sorted(b.live_blocks()):
        t = b.term(bb)
        if t["k"] == "assert" and t["ak"].startswith("Overflow:Add"):
            pl = q.op_place(t["ops"][0]) if hasattr(q, "op_place") else None
            from ..core import op_place as opl
            p0 = opl(t["ops"][0])
            ty = b.local_ty(p0["l"]) if p0 is not None and not p0["p"] else ""
            if ty.strip() == "u16":
                plain.append(t.get("sp"))
    rep.ob(P, "category:no-unchecked-u16-add" + tag, not plain, "no unchecked u16 addition remains in the category walk %s" % plain, loc=b.span)
    # read_chunk address roots in the checked cursor
    rc = [c for c in b.calls() if c.is_("EepromDataProvider::read_chunk")]
    rep.ob(P, "category:reads-at-cursor" + tag, len(rc) == 1, "one read_chunk per iteration", loc=b.span, how="inventory", nontrivial=False)
