"""C05 - the receive path survives any bytes and rejects strangers without side effects."""
from .. import nopanic, npcommon, q, slotfsm
from ..core import Prov, has_root


def run(ctx, rep):
    rep.decided += [
        "NOPANIC over the call-graph closure of PduRx::receive_frame with its byte parameter as the untrusted source: every panic-capable operation (overflow/bounds/div asserts, unwrap/index/copy_from_slice/..., diverging panics, unsafe pointer/length ops) with a tainted operand is bounded, guarded or audited",
        "filter: every path to the slot lookup passes the EtherType and source-address comparisons, mismatches return Ignored",
        "no slot is written before the claim succeeds and afterwards only through the claimed ReceivingFrame; the claim bounds-checks the index and requires state Sent; the lookup only loads",
    ]
    rep.undecided += ["behaviour as a function of the product input x slot states"]
    rep.trusted += ["rustc MIR/callee resolution", "library callees outside the workspace do not panic unless listed in the panicking-API table", "audited sites (tables/audited_sites.json)"]
    for cfg in ctx.configs():
        prog = ctx.prog(cfg)
        tag = "" if cfg == "default" else "@" + cfg
        rep.analysed["bodies" + tag] = len(prog.bodies)
        t = npcommon.taint_for(prog)
        aud = npcommon.audited_for(ctx, prog, rep, "C05", tag)
        scope, sinks, stale = nopanic.run_scope(prog, rep, "C05", t, ["PduRx::receive_frame"], tag, audited=aud)
        npcommon.report_stale(rep, "C05", stale, tag)
        rep.floor("C05 scope functions" + tag, len({b.root for b in scope}), 30)
        rep.floor("C05 tainted sinks" + tag, len({s.key for s in sinks}), 6)
        filters(prog, rep, tag)
        slotfsm.s4(prog, rep, "C05", tag, parts=("receive_frame",))
        claim(prog, rep, tag)
        awaiting_only(prog, rep, tag)


def filters(prog, rep, tag):
    P = "C05.filter"
    b = prog.body("PduRx::receive_frame")
    lk = b.calls_to("PduStorageRef::frame_index_by_first_pdu_index")
    if len(lk) != 1:
        rep.ob(P, "lookup-present" + tag, False, "receive_frame no longer has exactly one slot lookup", loc=b.span)
        return
    pr = Prov(b)
    # ethertype != ETHERCAT_ETHERTYPE -> Ignored ; src == self.source_mac -> Ignored.  Idiom independent: after the
    # comparison came out the wrong way the lookup must not be feasible any more (early return, accumulated bool,
    # `||` chains and helpers returning the verdict all look the same to the three-valued flow).
    ethertype = prog.const_value("ETHERCAT_ETHERTYPE")
    et_sites = q.comparison_sites(b, lambda x, y: has_root(x, "call", "EthernetFrame::ethertype") and any(r[0] == "const" and "ETHERCAT_ETHERTYPE" in str(r[1]) for r in y), pr)
    et_ok = len(et_sites) >= 1 and all(lk[0].bb not in q.feasible_after(b, s_, equal=False) and lk[0].bb in q.feasible_after(b, s_, equal=True) for s_ in et_sites)
    src_sites = q.comparison_sites(b, lambda x, y: has_root(x, "call", "EthernetFrame::src_addr") and has_root(y, "field", "PduRx", "source_mac"), pr)
    src_ok = len(src_sites) >= 1 and all(lk[0].bb not in q.feasible_after(b, s_, equal=True) and lk[0].bb in q.feasible_after(b, s_, equal=False) for s_ in src_sites)
    # and the lookup cannot be reached around the comparisons
    # (a path may skip one comparison only through blocks that exist solely for the other one's rejecting outcome:
    # `a != b || c == d` never evaluates the second test for a foreign EtherType)
    def rejecting_only(sites, equal_is_bad):
        bad = set()
        good = set()
        for s_ in sites:
            bad |= q.feasible_after(b, s_, equal=equal_is_bad)
            good |= q.feasible_after(b, s_, equal=not equal_is_bad)
        return bad - good

    if et_sites and lk[0].bb in q.feasible_from_entry(b, avoid={s_[4] for s_ in et_sites} | rejecting_only(src_sites, True)):
        et_ok = False
    if src_sites and lk[0].bb in q.feasible_from_entry(b, avoid={s_[4] for s_ in src_sites} | rejecting_only(et_sites, False)):
        src_ok = False
    rep.ob(P, "ethertype" + tag, et_ok and ethertype == 0x88A4, "the slot lookup is reached only where ethertype == ETHERCAT_ETHERTYPE (= %#x)" % ethertype, loc=b.span)
    rep.ob(P, "own-source" + tag, src_ok, "the slot lookup is reached only where the source address differs from self.source_mac", loc=b.span)
    # new_checked precedes everything
    nc = b.calls_to("EthernetFrame::new_checked")
    ok = len(nc) == 1 and b.dominates(nc[0].bb, lk[0].bb) and has_root(pr.of_operand(nc[0].args[0]), "arg", 2)
    rep.ob(P, "checked-ctor" + tag, ok, "the frame bytes are wrapped by EthernetFrame::new_checked before any field is read", loc=b.span)
    # Ignored returns do not touch storage: blocks that build ReceiveAction::Ignored are not reachable from the claim
    cl = b.calls_to("PduStorageRef::claim_receiving")
    ign = q.aggregates(b, "ReceiveAction", "Ignored")
    # ... or, if a claim was made, only after it has been handed back (compare-exchange RxBusy -> Sent)
    giveback = set()
    for s_ in [s_ for s_ in slotfsm.transitions(prog)[0] if s_["kind"] == "cas" and s_["frm"] == "RxBusy" and s_["to"] == "Sent"]:
        for cc in b.calls():
            tt = prog.by_path.get(cc.res) or prog.by_path.get(cc.decl)
            if tt is not None and tt.root == s_["body"].root:
                giveback.add(cc.bb)
    ok_edge = slotfsm.claim_ok_edge(b, cl[0]) if len(cl) == 1 else None
    held = b.reachable_from(ok_edge[1], avoid=giveback) if ok_edge else set()
    ok = len(cl) == 1 and bool(ign) and ok_edge is not None and not any(bi in held for bi, _, _ in ign)
    rep.ob(P, "ignored-before-claim" + tag, ok, "every Ignored result is produced without a slot being held: before any claim, where the claim failed, or after the claim was handed back", loc=b.span)


def claim(prog, rep, tag):
    P = "C05.claim"
    b = prog.body("PduStorageRef::claim_receiving")
    pr = Prov(b)
    call = b.calls_to("ReceivingFrame::claim_receiving")
    fi = b.calls_to("PduStorageRef::frame_at_index")
    ok = len(call) == 1 and len(fi) == 1
    if ok:
        good = False
        for cd in q.conds(b):
            if cd.kind == "cmp" and cd.op in ("Ge", "Lt"):
                l, r = pr.of_operand(cd.lhs), pr.of_operand(cd.rhs)
                if has_root(l, "arg", 2) and has_root(r, "field", "PduStorageRef", "num_frames") and not has_root(r, "binop"):
                    lt_t = cd.true_target() if cd.op == "Lt" else cd.false_target()
                    if fi[0].bb in q.edge_dominated(b, cd.bb, lt_t):
                        good = True
        ok = good
    rep.ob(P, "index-bounds" + tag, ok, "frame_at_index is reached only where frame_idx < num_frames", loc=b.span)
    lk = prog.body("PduStorageRef::frame_index_by_first_pdu_index")
    grp = prog.group("PduStorageRef::frame_index_by_first_pdu_index")
    # the lookup and everything it calls in the frame-element layer must be read-only: no atomic
    # read-modify-write or store, no write through the slot pointer (helper names do not matter)
    bad = []
    seen = {}
    todo = [(g, 0) for g in grp]
    for g in grp:
        seen[g.path] = g
    while todo:
        g, depth = todo.pop()
        for c in g.calls():
            if (c.decl_s or "").endswith(("::store", "::compare_exchange", "::compare_exchange_weak", "::swap", "::fetch_add", "::fetch_sub", "::fetch_or", "::fetch_and", "::fetch_update", "ptr::write", "ptr::write_bytes", "ptr::copy_nonoverlapping", "::copy_from_slice", "::fill")):
                bad.append("%s in %s" % (c.name, g.root_short))
            t = prog.by_path.get(c.res) or prog.by_path.get(c.decl)
            if t is not None and depth < 3 and t.root_short.startswith(("FrameBox::", "FrameElement::")):
                for h in prog.groups[t.root]:
                    if h.path not in seen:
                        seen[h.path] = h
                        todo.append((h, depth + 1))
    for g in seen.values():
        for (bi, si, kind, pl) in [a for fld in ("status", "first_pdu", "pdu_payload_len", "waker") for a in q.field_accesses(g, "FrameElement", fld)]:
            if kind in ("write", "addr_mut"):
                bad.append("write to FrameElement field in %s" % g.root_short)
    rep.ob(P, "lookup-only-loads" + tag, not bad, "the index lookup and its helpers (%d bodies) only load: no atomic store / read-modify-write and no write through the slot pointer; %s" % (len(seen), bad), loc=lk.span, how="inventory")


def awaiting_only(prog, rep, tag):
    """A frame is accepted only into a slot whose request is awaiting a response: the only
    transition into RxBusy is the compare-exchange from Sent, and the lookup itself only returns
    slots in state Sent."""
    P = "C05.awaiting"
    sites, problems = slotfsm.transitions(prog)
    rep.floor("C05 state-change sites" + tag, len(sites), 13)
    into = sorted((s["fn"], s["kind"], s["frm"], s["to"]) for s in sites if s["to"] == "RxBusy")
    ok = into == [("FrameElement::claim_receiving", "cas", "Sent", "RxBusy")] and not [p_ for p_ in problems if "claim_receiving" in p_[0].root_short]
    rep.ob(P, "rxbusy-only-from-sent" + tag, ok, "the receive side can enter a slot only by compare-exchange Sent -> RxBusy (transitions into RxBusy: %s)" % into, how="table")
    lk = prog.body("PduStorageRef::frame_index_by_first_pdu_index")
    somes = slotfsm.lookup_match_sites(prog)
    aware = bool(somes)
    for body_, implied in somes:
        a = False
        for c in implied:
            t = prog.by_path.get(c.full)
            if t is not None and slotfsm._tests_sent(t):
                a = True
        aware = aware and a and any(c.is_("FrameElement::first_pdu_is") for c in implied)
    rep.ob(P, "lookup-sent-only" + tag, aware, "the index lookup returns a slot only if its marker matches and its state is exactly Sent", loc=lk.span)
    # claim_receiving's failure is propagated as an error by receive_frame (no fallback path)
    rf = prog.body("PduRx::receive_frame")
    cl = rf.calls_to("PduStorageRef::claim_receiving")
    rep.ob(P, "single-claim" + tag, len(cl) == 1, "receive_frame makes exactly one claim attempt per frame", loc=rf.span, how="inventory", nontrivial=False)
