"""C14 - writing a station alias changes the alias and its checksum, nothing else (structural clauses)."""
from .. import q
from ..core import TRANSPARENT, Prov, has_root, op_place, roots_str


def run(ctx, rep):
    rep.decided += [
        "set_station_alias reads 14 bytes from word 0; the copy of the new alias into chunk[8..10] dominates the checksum call, whose input is that chunk; exactly two write_alls, to word 4 with the alias bytes and to word 7 with the checksum bytes, each through a one-word range",
        "constants 8..10, 14..16 and the CRC parameters (width 8, poly 0x07, init 0xFF, no reflection, xorout 0) equal the specification",
        "write_word is called only from EepromRange::write, which stops at the range end, pads an odd trailing byte with 0x00 and advances by two bytes per word",
        "DeviceEeprom::write_word re-issues the write while command_error && retry_count < 20, and retry_count only increases",
    ]
    rep.undecided += ["the resulting EEPROM image for all 65 536 aliases (a value computation)"]
    rep.trusted += ["rustc MIR/callee resolution", "tables/spec_etg.json", "the crc crate implements the algorithm its parameters describe"]
    spec = ctx.table("spec_etg.json")["sii"]
    for cfg in ctx.configs():
        prog = ctx.prog(cfg)
        tag = "" if cfg == "default" else "@" + cfg
        rep.analysed["bodies" + tag] = len(prog.bodies)
        alias(prog, rep, spec, tag)
        consts(prog, rep, spec, tag)
        range_write(prog, rep, tag)
        write_word(prog, rep, tag)


def _range_const(prog, name):
    """Evaluate a `const X: Range<usize> = a..b` from its MIR body."""
    for b in prog.bodies:
        if b.kind.startswith("Const") and b.path.endswith(name):
            for bi, si, s in q.aggregates(b, "Range"):
                return (q.const_int(q.agg_field(s, "start")), q.const_int(q.agg_field(s, "end")))
    return None


def consts(prog, rep, spec, tag):
    P = "C14.const"
    a = _range_const(prog, "eeprom::STATION_ALIAS_POSITION")
    c = _range_const(prog, "eeprom::CHECKSUM_POSITION")
    rep.ob(P, "alias-range" + tag, a is not None and list(a) == spec["alias_byte_range"], "STATION_ALIAS_POSITION = %s (word 4)" % (a,), how="table")
    rep.ob(P, "checksum-range" + tag, c is not None and list(c) == spec["checksum_byte_range"], "CHECKSUM_POSITION = %s (word 7, low byte = CRC of bytes 0..14)" % (c,), how="table")
    got = {}
    for b in prog.bodies:
        if b.kind.startswith("Const") and b.path.endswith("eeprom::ECAT_CRC_ALGORITHM"):
            for bi, si, s in q.aggregates(b, "Algorithm"):
                for f, op in zip(s["rv"]["fields"], s["rv"]["a"]):
                    k = q.const_int(op)
                    got[f] = bool(k) if f in ("refin", "refout") else k
    want = spec["crc"]
    ok = all(got.get(k) == v for k, v in want.items())
    rep.ob(P, "crc-parameters" + tag, ok, "CRC-8 parameters %s" % {k: got.get(k) for k in want}, how="table")
    for b in prog.bodies:
        if b.kind.startswith("Const") and b.path.endswith("eeprom::STATION_ALIAS_CRC"):
            c_ = [x for x in b.calls() if (x.decl_s or "").endswith("::new")]
            ok = len(c_) == 1 and any(r[0] == "const" and "ECAT_CRC_ALGORITHM" in str(r[1]) for r in Prov(b).of_operand(c_[0].args[0]))
            rep.ob(P, "crc-uses-parameters" + tag, ok, "STATION_ALIAS_CRC = Crc::new(&ECAT_CRC_ALGORITHM)", loc=b.span, how="dataflow")


def alias(prog, rep, spec, tag):
    P = "C14.alias"
    b = prog.async_body("SubDeviceEeprom::set_station_alias")
    pr = Prov(b)
    st = b.calls_to("SubDeviceEeprom::start_at")
    ok = len(st) == 3
    d = {}
    if ok:
        st = sorted(st, key=lambda c: c.bb)
        rd, w1, w2 = st
        d["read-14-from-0"] = q.const_int(rd.args[1]) == 0 and q.const_or_array_len(b, rd.args[2]) == 14
        re_ = [c for c in b.calls() if c.is_("Read::read_exact")]
        cp = [c for c in b.calls() if (c.decl_s or "").endswith("copy_from_slice")]
        ck = [c for c in b.calls() if (c.decl_s or "").endswith("::checksum")]
        d["patch-before-checksum"] = len(re_) == 1 and len(cp) == 1 and len(ck) == 1 and b.dominates(re_[0].bb, cp[0].bb) and b.dominates(cp[0].bb, ck[0].bb)
        if d["patch-before-checksum"]:
            dst = Prov(b, transparent=TRANSPARENT - {"IndexMut::index_mut"}).of_operand(cp[0].args[0])
            src = pr.of_operand(cp[0].args[1])
            idx = [c for c in b.calls() if c.is_("IndexMut::index_mut") and any(r[0] == "const" and "STATION_ALIAS_POSITION" in str(r[1]) for r in pr.of_operand(c.args[1]))]
            d["patch-is-alias-at-8..10"] = len(idx) == 1 and any(x[0] == "call" and len(x) > 2 and x[2] == idx[0].bb for x in dst) and any(x[0] == "call" and x[1].endswith("to_le_bytes") for x in src)
            # checksum input = the patched chunk, whole
            cin = pr.of_operand(ck[0].args[1])
            rin = pr.of_operand(re_[0].args[1])
            d["checksum-of-chunk"] = bool({x for x in cin if x[0] in ("outparam", "const")} & {x for x in rin if x[0] in ("outparam", "const")}) or cin == rin
            d["crc-object"] = any(r[0] == "const" and "STATION_ALIAS_CRC" in str(r[1]) for r in pr.of_operand(ck[0].args[0]))
        # the two writes
        was = [c for c in b.calls() if c.is_("Write::write_all")]
        d["two-writes"] = len(was) == 2
        if d["two-writes"]:
            was = sorted(was, key=lambda c: c.bb)
            def word_of(c):
                r = pr.of_operand(c.args[1])
                for nm in ("STATION_ALIAS_POSITION", "CHECKSUM_POSITION"):
                    if any(x[0] == "const" and nm in str(x[1]) for x in r):
                        return nm, has_root(r, "binop", "Div") and has_root(r, "const", 2) and has_root(r, "field", "Range", "start")
                return None, False
            n1, k1 = word_of(w1)
            n2, k2 = word_of(w2)
            d["write-addresses"] = n1 == "STATION_ALIAS_POSITION" and n2 == "CHECKSUM_POSITION" and k1 and k2 and q.const_int(w1.args[2]) == 2 and q.const_int(w2.args[2]) == 2
            r1 = pr.of_operand(was[0].args[0])
            r2 = pr.of_operand(was[1].args[0])
            d["writers-are-those-ranges"] = any(x[0] == "call" and x[1] == "SubDeviceEeprom::start_at" and x[2] == w1.bb for x in r1) and any(x[0] == "call" and x[1] == "SubDeviceEeprom::start_at" and x[2] == w2.bb for x in r2)
            pv = Prov(b, follow_all={"num::to_le_bytes", "From::from"})
            v1 = pv.of_operand(was[0].args[1])
            v2 = pv.of_operand(was[1].args[1])
            d["alias-bytes"] = any(x[0] in ("arg", "upvar") and x[-1] == "new_alias" for x in v1) and has_root(v1, "via", "num::to_le_bytes") and not any(x[0] == "call" and x[1].endswith("::checksum") for x in v1)
            d["checksum-bytes"] = any(x[0] == "call" and x[1].endswith("::checksum") for x in v2) and has_root(v2, "via", "num::to_le_bytes")
            d["checksum-written-after-computed"] = was[1].bb in b.reachable_strict(ck[0].bb) if ck else False
        # success is reported only on the path on which both writes succeeded (no early Ok)
        oks = q.aggregates(b, "Result", "Ok")
        tries = []
        for c in b.calls():
            if c.is_("Try::branch") and c.args and any(x[0] == "await" and x[1].endswith("write_all") for x in pr.of_operand(c.args[0])):
                tb = c.target
                if tb is not None and b.term(tb)["k"] == "switch":
                    vt = q.Cond(b, tb).variant_targets(prog)
                    if vt.get("Continue") is not None:
                        tries.append((tb, vt["Continue"]))
        d["ok-only-after-both-writes"] = len(tries) == 2 and bool(oks) and all(x[0] in q.edge_dominated(b, tb, ct) for x in oks for (tb, ct) in tries)
        # no other provider write
        other = [c for c in b.calls() if c.is_("EepromDataProvider::write_word", "Write::write", "Write::flush")]
        d["no-other-write"] = not other
        ok = all(d.values())
    rep.ob(P, "alias-then-checksum" + tag, ok, "set_station_alias patches the alias into the first 14 bytes, checksums them, then writes exactly word 4 (alias) and word 7 (checksum); %s" % d, loc=b.span)
    from . import c12

    c12.byte_ranges(prog, rep, tag, "C14.range")


def q_is_field(b, roots, name):
    return has_root(roots, "field", "EepromRange", name) and not has_root(roots, "binop") and not any(x[0] == "field" and x[1] == "EepromRange" and x[2] != name and x[2] in ("byte_pos", "end") for x in roots)


def range_write(prog, rep, tag):
    P = "C14.write"
    callers = {c.body.root_short for c in prog.calls_of("EepromDataProvider::write_word") if c.body.crate == "ethercrab"}
    rep.ob(P, "write_word-callers" + tag, callers == {"<EepromRange as Write>::write"}, "write_word is called only from EepromRange::write (callers: %s)" % sorted(callers), how="inventory")
    b = prog.async_body("<EepromRange as Write>::write")
    pr = Prov(b, follow_all={"num::saturating_sub"})
    ww = [c for c in b.calls() if c.is_("EepromDataProvider::write_word")]
    ok = len(ww) == 1
    d = {}
    if ok:
        # guarded by end - pos != 0
        g = False
        for cd in q.conds(b):
            if cd.kind == "cmp" and cd.op in ("Eq", "Ne"):
                both = pr.of_operand(cd.lhs) | pr.of_operand(cd.rhs)
                if has_root(both, "via", "num::saturating_sub") and has_root(both, "field", "EepromRange", "end") and has_root(both, "field", "EepromRange", "byte_pos") and has_root(both, "const", 0):
                    ne_t = cd.false_target() if cd.op == "Eq" else cd.true_target()
                    if ww[0].bb in q.edge_dominated(b, cd.bb, ne_t):
                        g = True
        # ... or written as `byte_pos < end`
        for cd in q.conds(b):
            if cd.kind != "cmp" or cd.op not in ("Lt", "Gt", "Le", "Ge"):
                continue
            lp, le = q.is_field_read(b, cd.lhs, "EepromRange", "byte_pos"), q.is_field_read(b, cd.lhs, "EepromRange", "end")
            rp, re2 = q.is_field_read(b, cd.rhs, "EepromRange", "byte_pos"), q.is_field_read(b, cd.rhs, "EepromRange", "end")
            op = cd.op if (lp and re2) else ({"Lt": "Gt", "Gt": "Lt", "Le": "Ge", "Ge": "Le"}[cd.op] if (le and rp) else None)
            if op is None:
                continue
            t = cd.true_target() if op == "Lt" else (cd.false_target() if op == "Ge" else None)
            if t is not None and ww[0].bb in q.edge_dominated(b, cd.bb, t):
                g = True
        d["stops-at-end"] = g
        d["word-address"] = has_root(Prov(b).of_operand(ww[0].args[1]), "call", "EepromRange::word_pos")
        # odd byte padded with zero: an array literal [first, 0]
        pad = False
        for g_ in prog.group("<EepromRange as Write>::write"):
            for bi in g_.live_blocks():
                for s in g_.stmts(bi):
                    if s["k"] == "assign" and s["rv"]["k"] == "agg" and s["rv"]["ak"] == "array" and len(s["rv"]["a"]) == 2 and q.const_int(s["rv"]["a"][1]) == 0:
                        pad = True
        d["odd-byte-zero-padded"] = pad
        # advance by word.len() == 2
        adv = [a for a in q.field_accesses(b, "EepromRange", "byte_pos") if a[2] == "write"]
        d["advance-after-write"] = len(adv) == 1 and adv[0][0] in b.reachable_strict(ww[0].bb)
        # the word address handed to the provider is the checked conversion of the cursor (word_pos()? fails with
        # SectionOverrun beyond word 0xFFFF), computed for *this* word: no running address kept beside the cursor,
        # no wrapping arithmetic that would carry a write past the end of the address space back to word 0
        ar = Prov(b).of_operand(ww[0].args[1])
        arith = sorted({x[1] for x in ar if x[0] == "binop"} | {x[1] for x in ar if x[0] == "call" and any(k in x[1] for k in ("wrapping_", "saturating_", "overflowing_", "unchecked_", "::add", "::sub"))})
        d["address-is-checked-cursor"] = has_root(ar, "call", "EepromRange::word_pos") and not arith
        # the count handed back is what was consumed from the caller's buffer (the padded byte is not part
        # of it): write_all advances its slice by that count and panics if it exceeds what it passed in
        oks = q.aggregates(b, "Result", "Ok")
        wl = None
        for (bi, si, st) in oks:
            l = q.local_of(st["rv"]["a"][0])
            # resolve temporaries back to the named counter
            for _ in range(4):
                if l is None or b.local_name(l):
                    break
                ds = b.defs().get(l, [])
                if len(ds) == 1 and ds[0][2] == "assign" and ds[0][3]["rv"]["k"] == "use":
                    l = q.local_of(ds[0][3]["rv"]["a"][0])
                else:
                    break
            if l is not None and b.local_name(l):
                wl = l
        incs = []
        if wl is not None:
            # all Add statements whose result flows into the returned local
            pw = Prov(b, follow_all={"slice::len"})
            for bi in sorted(b.live_blocks()):
                for st in b.stmts(bi):
                    if st["k"] == "assign" and st["rv"]["k"] == "bin" and st["rv"]["op"].startswith("Add"):
                        nm = b.local_name(q.local_of(st["rv"]["a"][0])) if q.local_of(st["rv"]["a"][0]) is not None else None
                        if nm == b.local_name(wl) or q.local_of(st["rv"]["a"][0]) == wl:
                            incs.append(pw.of_operand(st["rv"]["a"][1]))
        # the increment is computed from the caller's buffer (its length before minus after the split), not
        # from the two byte word that was written
        d["count-is-bytes-consumed"] = bool(incs) and all(has_root(r, "via", "slice::len") and any(x[0] in ("upvar", "arg") and x[-1] == "buf" for x in r) for r in incs)
        ok = all(d.values())
    rep.ob(P, "range-write" + tag, ok, "EepromRange::write writes word by word at byte_pos / 2 while byte_pos < end, pads an odd trailing byte with 0x00 and reports the number of bytes it took from the buffer (not the padded word); %s" % d, loc=b.span)


def write_word(prog, rep, tag):
    P = "C14.retry"
    b = prog.async_body("<DeviceEeprom as EepromDataProvider>::write_word")
    pr = Prov(b)
    ok = False
    d = {}
    sends = b.calls_to("WrappedWrite::send")
    for cd in q.conds(b):
        if cd.kind == "cmp" and cd.op in ("Lt", "Ge"):
            l, r = pr.of_operand(cd.lhs), pr.of_operand(cd.rhs)
            if any(x[0] == "const" and x[-1] == 20 for x in r):
                counter = q.local_of(cd.lhs)
                for _ in range(3):
                    ds_ = b.defs().get(counter, []) if counter is not None else []
                    if len(ds_) == 1 and ds_[0][2] == "assign" and ds_[0][3]["rv"]["k"] == "use" and q.local_of(ds_[0][3]["rv"]["a"][0]) is not None:
                        counter = q.local_of(ds_[0][3]["rv"]["a"][0])
                    else:
                        break
                d["_counter"] = counter
                lt_t = cd.true_target() if cd.op == "Lt" else cd.false_target()
                # re-issue (loop back to the sends) only on the lt edge
                d["bound-20"] = True
                d["loops-only-below-bound"] = any(s.bb in b.reachable_from(lt_t) for s in sends) and not any(s.bb in b.reachable_from(cd.false_target() if cd.op == "Lt" else cd.true_target(), avoid={cd.bb}) for s in sends)
    # command_error gate
    ce = False
    for cd in q.conds(b):
        if hasattr(cd, "operand") and cd.kind in ("bool", "int") and has_root(pr.of_operand(cd.operand), "field", "SiiControl", "command_error"):
            f = cd.false_target()
            ce = not any(s.bb in b.reachable_from(f, avoid={cd.bb}) for s in sends)
    d["retry-only-on-command-error"] = ce
    # retry_count only increases by 1
    incs = []
    for bi in sorted(b.live_blocks()):
        for s in b.stmts(bi):
            if s["k"] == "assign" and s["rv"]["k"] == "bin" and s["rv"]["op"].startswith("Add") and q.const_int(s["rv"]["a"][1]) == 1:
                incs.append(s)
    subs = [s for bi in b.live_blocks() for s in b.stmts(bi) if s["k"] == "assign" and s["rv"]["k"] == "bin" and s["rv"]["op"].startswith("Sub")]
    counter = d.pop("_counter", None)
    if counter is not None:
        # every value stored back into the counter is counter + 1 (through the checked-add tuple); nothing subtracts
        stores = [x for x in b.defs().get(counter, []) if x[2] == "assign"]
        pc = Prov(b)
        good = 0
        for x in stores:
            rv = x[3]["rv"]
            r_ = pc._of_rvalue(rv)
            if rv["k"] == "use" and q.const_int(rv["a"][0]) == 0:
                continue  # initialisation
            if has_root(r_, "binop", "Add") and has_root(r_, "const", 1) and not has_root(r_, "binop", "Sub"):
                good += 1
            else:
                good = -99
        d["counter-increases"] = good >= 1
    else:
        d["counter-increases"] = len(incs) == 1 and not subs
    # data register written before the control register
    d["data-then-control"] = len(sends) == 2
    if len(sends) == 2:
        s1, s2 = sorted(sends, key=lambda c: c.bb)
        f = Prov(b, follow_all={"Command::fpwr", "Into::into"})
        d["data-then-control"] = any(r[0] == "agg" and r[2] == "SiiData" for r in f.of_operand(s1.args[0])) and any(r[0] == "agg" and r[2] == "SiiControl" for r in f.of_operand(s2.args[0]))
    # success only if the last attempt did not end in a command error: every Ok(()) lies on the edge on which
    # command_error is false (exhausting the retries is an error, the word was not stored)
    oks = q.aggregates(b, "Result", "Ok")
    okc = False
    for cd in q.conds(b):
        if hasattr(cd, "operand") and cd.kind in ("bool", "int") and has_root(pr.of_operand(cd.operand), "field", "SiiControl", "command_error"):
            t_edge = cd.true_target() if not cd.negated else cd.false_target()
            f_edge = cd.false_target() if not cd.negated else cd.true_target()
            if f_edge is not None and t_edge is not None:
                dom_f = q.edge_dominated(b, cd.bb, f_edge)
                okc = bool(oks) and all(x[0] in dom_f for x in oks)
    d["ok-only-without-command-error"] = okc
    ok = all(d.get(k) for k in ("bound-20", "loops-only-below-bound", "retry-only-on-command-error", "counter-increases", "data-then-control", "ok-only-without-command-error"))
    rep.ob(P, "bounded-retry" + tag, ok, "write_word: data then control register, wait, and re-issue only while command_error && retry_count < 20 (counter +1 per retry); Ok(()) only when the last attempt ended without command error; %s" % d, loc=b.span)
