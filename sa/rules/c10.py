"""C10 - a group's typestate never claims a state its SubDevices are not in (structural clauses)."""
from .. import q, wirelayout as wl
from ..core import TRANSPARENT, Prov, has_root, op_place, roots_str

# functions allowed to build a SubDeviceGroup value (typestate re-labelling happens here only)
CTORS = {
    "SubDeviceGroup::new": "fresh, empty group in its initial state",
    "<SubDeviceGroup as Default>::default": "fresh, empty group",
    "SubDeviceGroup::into_pre_op_pdi": "PreOp -> PreOpPdi after configure_fmmus succeeded (no AL state change)",
    "SubDeviceGroup::configure_dc_sync": "PreOp -> PreOp with DC configuration (no AL state change)",
    "SubDeviceGroup::request_into_op": "documented exception: requests OP without waiting (SafeOp typestate kept until the caller has waited)",
    "SubDeviceGroup::transition_to": "the only re-labelling after an AL state change",
}


def run(ctx, rep):
    rep.decided += [
        "every construction of a SubDeviceGroup is enumerated; in transition_to the new typestate is built only on the success edge of wait_for_state(desired) with the same desired_state that was sent to the devices",
        "the request loop iterates the group's own subdevices and addresses each request with that element's configured_address, leaving the loop early only through `?`",
        "both wait_for_state loops run under .timeout(timeouts.state_transition())",
        "is_state compares every response's state with the desired_state argument, returns Ok(false) on the unequal edge and Ok(true) only after the frame loop ends; MainDevice::wait_for_state reads with with_wkc(num_subdevices) and returns Err on the error bit",
        "state codes equal the AL state codes; the summary predicates (is_in_state, group_in_single_state, all_op) are not derived from a bitmap in which a reportable state contributes nothing",
    ]
    rep.undecided += ["what devices actually reported in a run; timing of the timeout"]
    rep.trusted += ["rustc MIR/callee resolution", "tables/spec_etg.json"]
    spec = ctx.table("spec_etg.json")
    for cfg in ctx.configs():
        prog = ctx.prog(cfg)
        tag = "" if cfg == "default" else "@" + cfg
        rep.analysed["bodies" + tag] = len(prog.bodies)
        ctors(prog, rep, tag)
        no_wait_relabel(prog, rep, tag)
        transition(prog, rep, tag)
        waits(prog, rep, tag)
        wait_loop(prog, rep, tag)
        is_state(prog, rep, tag)
        main_wait(prog, rep, tag)
        codes(prog, rep, spec, tag)
        summaries(prog, rep, tag)
        request(prog, rep, tag)
    if ctx.tier == "thorough":
        from .. import witness

        witness.run(ctx, rep, "C10", "C10")


def ctors(prog, rep, tag):
    P = "C10.ctor"
    n = 0
    for b in prog.bodies:
        if b.crate != "ethercrab":
            continue
        for bi, si, s in q.aggregates(b, "SubDeviceGroup"):
            n += 1
            rep.ob(P, "%s%s" % (b.root_short, tag), b.root_short in CTORS, "SubDeviceGroup{..} built in %s: %s" % (b.root_short, CTORS.get(b.root_short, "UNAUDITED typestate construction")), loc=q.loc(b, bi, si), how="inventory")
    rep.floor("C10 group constructions" + tag, n, 5)
    # the typestate transitions callers: into_* call transition_to with the matching constant
    want = {"SubDeviceGroup::into_safe_op": "SafeOp", "SubDeviceGroup::into_op": "Op", "SubDeviceGroup::into_pre_op": "PreOp", "SubDeviceGroup::into_init": "Init"}
    for c in prog.calls_of("SubDeviceGroup::transition_to"):
        st = sorted({r[2] for r in Prov(c.body).of_operand(c.args[2]) if r[0] == "agg" and r[1] == "SubDeviceState"})
        fn = c.body.root_short
        # the target typestate in the return type of the caller
        ret = c.body.prog.fns.get(c.body.root, {}).get("sig", "")
        ok = len(st) == 1
        if ok and "::" in fn:
            tgt = {"SafeOp": "SafeOp", "Op": "Op", "PreOp": "PreOp", "Init": "Init"}[st[0]] if st[0] in ("SafeOp", "Op", "PreOp", "Init") else None
            ok = tgt is not None and ("subdevice_group::%s" % tgt) in (c.t.get("gargs") or "")
        rep.ob(P, "transition_to<-%s%s" % (fn, tag), ok, "%s requests %s and re-labels the group with the matching typestate (generic args %s)" % (fn, st, (c.t.get("gargs") or "")[-60:]), loc=c.span, how="table")


def no_wait_relabel(prog, rep, tag):
    """`request_into_op` is the one documented way to obtain the Op typestate without waiting for the devices (the
    caller polls `all_op` itself).  No function of the crate other than its own variants (PreOp's goes through SafeOp's) may go through it: an `into_*` that did would hand out a
    typestate nobody confirmed.  (Who-may-call rule with an expected count of zero; the positive control is the
    callers of transition_to found by the same query.)"""
    P = "C10.ctor"
    exists = [b for b in prog.bodies if b.root_short == "SubDeviceGroup::request_into_op"]
    callers = sorted({c.body.root_short for c in prog.calls_of("SubDeviceGroup::request_into_op") if c.body.crate == "ethercrab" and not c.body.d.get("is_test") and c.body.root_short != "SubDeviceGroup::request_into_op"})
    control = [c for c in prog.calls_of("SubDeviceGroup::transition_to") if c.body.crate == "ethercrab"]
    rep.ob(P, "request_into_op:no-internal-caller" + tag, not callers and len(control) >= 4 and bool(exists), "no function of the crate re-labels a group through request_into_op (the only constructor of a typestate that does not wait for it); callers: %s; control: %d callers of transition_to found by the same query" % (callers or "none", len(control)), how="inventory")


def transition(prog, rep, tag):
    P = "C10.transition"
    b = prog.async_body("SubDeviceGroup::transition_to")
    pr = Prov(b)
    w = b.calls_to("SubDeviceGroup::wait_for_state")
    r = b.calls_to("SubDeviceRef::request_subdevice_state_nowait")
    ag = q.aggregates(b, "SubDeviceGroup")
    ok = len(w) == 1 and len(r) == 1 and len(ag) == 1
    d = {}
    if ok:
        # same desired_state root in request and wait
        a1 = {x for x in pr.of_operand(r[0].args[1]) if x[0] in ("arg", "upvar")}
        a2 = {x for x in pr.of_operand(w[0].args[2]) if x[0] in ("arg", "upvar")}
        d["same-state"] = bool(a1) and a1 == a2 and any(x[-1] == "desired_state" for x in a1)
        # Ok(group) only after the awaited wait succeeded
        polls = [c for c in b.calls_to("Future::poll") if has_root(pr.of_operand(c.args[0]), "call", "SubDeviceGroup::wait_for_state")]
        d["built-after-wait-ok"] = False
        if len(polls) == 1:
            # poll -> Ready payload -> Try::branch -> Continue
            for c in b.calls_to("Try::branch"):
                if has_root(pr.of_operand(c.args[0]), "await", "SubDeviceGroup::wait_for_state"):
                    tb = c.target
                    cd = q.Cond(b, tb) if b.term(tb)["k"] == "switch" else None
                    if cd is not None and cd.kind == "discr":
                        cont = cd.variant_targets(prog).get("Continue")
                        if cont is not None and ag[0][0] in q.edge_dominated(b, tb, cont):
                            d["built-after-wait-ok"] = True
        # request before wait
        d["request-before-wait"] = w[0].bb in b.reachable_strict(r[0].bb) and r[0].bb not in b.reachable_strict(w[0].bb)
        ok = all(d.values())
    rep.ob(P, "typestate-after-successful-wait" + tag, ok, "the re-labelled group is built only where wait_for_state(desired) returned Ok, with the state that was requested; %s" % d, loc=b.span)
    # request loop over own members
    okl = False
    if len(r) == 1:
        recv = Prov(b, follow_all={"SubDeviceRef::new"}).of_operand(r[0].args[0])
        nr = b.calls_to("SubDeviceRef::new")
        if len(nr) == 1:
            addr = pr.of_operand(nr[0].args[1])
            dev = pr.of_operand(nr[0].args[2])
            it = [c for c in b.calls() if c.is_("Iterator::next")]
            okl = has_root(addr, "call", "SubDevice::configured_address") and any(x[0] == "call" and x[1].endswith("::next") for x in dev)
            ca = b.calls_to("SubDevice::configured_address")
            okl = okl and len(ca) == 1 and any(x[0] == "call" and x[1].endswith("::next") for x in pr.of_operand(ca[0].args[0]))
            # iterator is iter_mut over self.inner.subdevices with no adaptor
            src = [c for c in b.calls() if (c.decl_s or "").endswith("::iter_mut")]
            okl = okl and len(src) == 1 and has_root(Prov(b).of_operand(src[0].args[0]), "field", "GroupInner", "subdevices")
            adaptors = [c for c in b.calls() if (c.decl_s or "") in ("Iterator::filter", "Iterator::skip", "Iterator::take", "Iterator::step_by", "Iterator::rev", "Iterator::skip_while", "Iterator::take_while")]
            okl = okl and not adaptors
    rep.ob(P, "request-every-member" + tag, okl, "the request loop walks self.inner.subdevices.iter_mut() without adaptors and addresses each request to that element's configured address", loc=b.span, how="dataflow")


def waits(prog, rep, tag):
    P = "C10.timeout"
    for fn in ("SubDeviceGroup::wait_for_state", "MainDevice::wait_for_state", "SubDeviceRef::wait_for_state"):
        b = prog.async_body(fn)
        to = [c for c in b.calls() if (c.decl_s or "").endswith("::timeout") or c.name.endswith("IntoTimeout::timeout")]
        st = b.calls_to("Timeouts::state_transition")
        ok = len(to) == 1 and len(st) == 1 and has_root(Prov(b).of_operand(to[0].args[1]), "call", "Timeouts::state_transition")
        # the awaited future is the timeout wrapper
        polls = b.calls_to("Future::poll")
        ok = ok and len(polls) >= 1 and any(any(x[0] == "call" and x[2] == to[0].bb for x in Prov(b).of_operand(p_.args[0]) if len(x) > 2) for p_ in polls)
        rep.ob(P, "%s%s" % (fn, tag), ok, "%s awaits its poll loop wrapped in .timeout(timeouts.state_transition())" % fn, loc=b.span, how="dataflow")


def wait_loop(prog, rep, tag):
    """SubDeviceGroup::wait_for_state leaves its poll loop with Ok only when is_state returned Ok(true)."""
    P = "C10.waitloop"
    ok = False
    for g in prog.group("SubDeviceGroup::wait_for_state"):
        iss = g.calls_to("SubDeviceGroup::is_state")
        if not iss:
            continue
        pr = Prov(g)
        oks = q.aggregates(g, "Result", "Ok")
        for cd in q.conds(g):
            if cd.kind in ("bool", "int") and hasattr(cd, "operand") and cd.t.get("dty") == "bool":
                r = pr.of_operand(cd.operand)
                if has_root(r, "await", "SubDeviceGroup::is_state"):
                    t = cd.true_target()
                    dom = q.edge_dominated(g, cd.bb, t)
                    ok = bool(oks) and all(x[0] in dom for x in oks)
                    # the desired state handed to is_state is wait_for_state's own argument
                    a = pr.of_operand(iss[0].args[2])
                    ok = ok and any(x[-1] == "desired_state" for x in a if x[0] in ("arg", "upvar"))
    rep.ob(P, "ok-only-if-in-state" + tag, ok, "the poll loop breaks with Ok(()) only on the edge where is_state(desired_state) returned true; errors propagate through `?`", how="path")


def is_state(prog, rep, tag):
    """Idiom-independent form: (1) the comparison is between a decoded response's AlControl.state and the
    desired_state argument; (2) from the point where that comparison came out unequal, every Ok(x)
    that can still be reached has x == false (three-valued flow over bool locals: early return and
    accumulated flag are both accepted, an overwritten flag is not); (3) an Ok(x) with x possibly true
    is only built after the frame loop; (4) between one comparison and the next frame / the final
    Ok(possibly true), control passes through the response iterator's next() again, and that iterator
    is the frame's own into_pdu_iter() without adaptors."""
    P = "C10.is_state"
    b = prog.async_body("SubDeviceGroup::is_state")
    pr = Prov(b)
    d = {}

    def is_desired(r):
        return any(x[-1] == "desired_state" for x in r if x[0] in ("arg", "upvar"))

    # comparison sites: (bb, stmt index after which the result is known, result local, value meaning "unequal")
    sites = []
    callmap = {c.bb: c for c in b.calls()}
    for bi in sorted(b.live_blocks()):
        t = b.term(bi)
        if t["k"] == "call":
            c = callmap.get(bi)
            if c is not None and c.is_("PartialEq::ne", "PartialEq::eq") and t.get("dest") is not None and not t["dest"]["p"]:
                l, r = pr.of_operand(c.args[0]), pr.of_operand(c.args[1])
                if (has_root(l, "field", "AlControl", "state") and is_desired(r)) or (has_root(r, "field", "AlControl", "state") and is_desired(l)):
                    sites.append((t["t"], 0, t["dest"]["l"], 1 if c.is_("PartialEq::ne") else 0, bi))
        for si, st in enumerate(b.stmts(bi)):
            if st["k"] == "assign" and st["rv"]["k"] == "bin" and st["rv"]["op"] in ("Eq", "Ne") and not st["place"]["p"]:
                l, r = pr.of_operand(st["rv"]["a"][0]), pr.of_operand(st["rv"]["a"][1])
                if (has_root(l, "field", "AlControl", "state") and is_desired(r)) or (has_root(r, "field", "AlControl", "state") and is_desired(l)):
                    sites.append((bi, si + 1, st["place"]["l"], 1 if st["rv"]["op"] == "Ne" else 0, bi))
    d["one-comparison"] = len(sites) == 1
    oks = q.aggregates(b, "Result", "Ok")
    if len(sites) == 1 and oks:
        sb, ssi, res, uneq, cmp_bb = sites[0]
        flow = q.BoolFlow(b, sb, ssi, {res: uneq})
        after = {}
        for (bi, si, st) in oks:
            v = flow.value_at(bi, si, st["rv"]["a"][0])
            after["%d" % bi] = v
        d["false-after-unequal"] = all(v in (0, "unreachable") for v in after.values()) and any(v == 0 for v in after.values())
        maybe_true = [x for x in oks if q.const_int(x[2]["rv"]["a"][0]) != 0]
        al = b.calls_to("PduLoop::alloc_frame")
        d["true-only-after-loop"] = bool(al) and bool(maybe_true) and all(al[0].bb not in b.reachable_strict(x[0]) for x in maybe_true)
        # the compared state is decoded from this frame's response iterator, without adaptors
        un = [c for c in b.calls() if c.is_("EtherCrabWireRead::unpack_from_slice") and "AlControl" in (c.res_s or "")]
        it = [c for c in b.calls() if (c.decl_s or "").endswith("Iterator::next") and has_root(pr.of_operand(c.args[0]), "call", "ReceivedFrame::into_pdu_iter")]
        pw = Prov(b, follow_all={"ReceivedPdu::wkc", "ReceivedPdu::maybe_wkc"})
        d["decoded-from-response"] = len(un) == 1 and len(it) == 1 and any(x[0] == "call" and x[1].endswith("::next") for x in pw.of_operand(un[0].args[0]))
        adapt = [c for c in b.calls() if (c.decl_s or "").split("::")[-2:-1] == ["Iterator"] and not (c.decl_s or "").endswith("Iterator::next") and has_root(pr.of_operand(c.args[0]), "call", "ReceivedFrame::into_pdu_iter")]
        d["no-iterator-adaptor"] = not adapt
        if len(it) == 1 and al:
            # from the comparison, the next frame or a possibly-true Ok is only reached through next()
            # (feasible paths: the verdict may travel through a helper's Ok(bool) and a `?` before it is acted on)
            if sb != it[0].bb:
                r_eq = q.BoolFlow(b, sb, ssi, {res: 1 - uneq}, avoid={it[0].bb}).in_state
                r_ne = q.BoolFlow(b, sb, ssi, {res: uneq}, avoid={it[0].bb}).in_state
                reach = set(r_eq) | set(r_ne)
            else:
                reach = set()
            d["every-response-compared"] = al[0].bb not in reach and all(x[0] not in reach for x in maybe_true)
            # and every item the iterator yields reaches the comparison: from the Some edge of next() neither the
            # next item, the next frame nor a possibly-true Ok can be reached around the comparison (an item
            # that is skipped - `continue` on a failed working counter check, say - counts as "in state")
            some_t = None
            for cd in q.conds(b):
                if cd.kind == "discr" and cd.place and cd.place["l"] == it[0].dest["l"] and not cd.place["p"]:
                    some_t = cd.variant_targets(prog).get("Some")
            if some_t is None:
                d["every-item-compared"] = False
            else:
                # paths that go round the comparison may only end in Ok(false): with an accumulated flag the comparison is
                # legitimately short-circuited once the flag is false (`all = all && state == desired`)
                around = q.BoolFlow(b, some_t, 0, {}, avoid={cmp_bb})
                bad_ok = [x for x in maybe_true if x[0] in around.in_state and around.value_at(x[0], x[1], x[2]["rv"]["a"][0]) != 0]
                d["every-item-compared"] = not bad_ok
        else:
            d["every-response-compared"] = False
    ok = bool(d) and all(d.values())
    rep.ob(P, "compare-every-response" + tag, ok, "after a response whose state differs from desired_state every reachable Ok carries false; a possibly-true Ok is built only after the frame loop; every response of every frame is compared; %s" % d, loc=b.span)
    psc = b.calls_to("subdevice_group::push_state_checks")
    ok = len(psc) == 1 and has_root(pr.of_operand(psc[0].args[0]), "field", "GroupInner", "subdevices")
    rep.ob(P, "polls-own-members" + tag, ok, "the status datagrams are pushed for the group's own member list", loc=b.span, how="dataflow")
    # every response is propagated with `?` (a failed datagram is an error, not 'in state')
    rep.ob(P, "no-unwrap" + tag, not [c for c in b.calls() if c.is_("Result::unwrap", "Option::unwrap", "Result::unwrap_or", "Result::unwrap_or_default")], "no response error is swallowed", loc=b.span, how="inventory", nontrivial=False)

def main_wait(prog, rep, tag):
    P = "C10.main_wait"
    grp = prog.group("MainDevice::wait_for_state")
    ok_wkc = ok_err = False
    for b in grp:
        pr = Prov(b)
        for c in b.calls_to("WrappedRead::with_wkc"):
            r = pr.of_operand(c.args[1])
            if any(x[0] == "call" and x[1].endswith("::load") for x in r) or any(x[0] == "upvar" and x[2] == "num_subdevices" for x in r):
                ok_wkc = True
        for cd in q.conds(b):
            if cd.kind in ("bool", "int") and hasattr(cd, "operand"):
                r = pr.of_operand(cd.operand)
                if has_root(r, "field", "AlControl", "error"):
                    t = cd.true_target()
                    errs = [x for x in q.aggregates(b, "Error", "StateTransition")]
                    ok_err = bool(errs) and all(x[0] in q.edge_dominated(b, cd.bb, t) for x in errs)
    rep.ob(P, "expects-all-devices" + tag, ok_wkc, "the broadcast AL status read expects a working counter of num_subdevices", how="dataflow")
    rep.ob(P, "error-bit" + tag, ok_err, "Err(StateTransition) is returned on the edge where the error bit is set", how="dataflow")


def codes(prog, rep, spec, tag):
    P = "C10.codes"
    a = prog.adt("SubDeviceState")
    d = {v["name"]: v.get("discr") for v in a["variants"] if v["name"] != "Other"}
    rep.ob(P, "SubDeviceState" + tag, d == spec["al_states"], "SubDeviceState codes %s equal the AL state codes" % d, how="table")
    # bitflags constants are struct-typed (not evaluable as scalars here); their union is
    alln = [c.get("v") for p_, c in prog.consts.items() if "GroupState as bitflags::Flags>::all_named::ALL_NAMED" in p_]
    rep.ob(P, "GroupState" + tag, alln == [1 | 2 | 4 | 8], "the named GroupState bits are exactly INIT|PRE_OP|SAFE_OP|OP = 0x0F (one bit per AL state code)", how="table", nontrivial=False)
    # AlControl::new(state) / request packs the desired state
    rq = prog.async_body("SubDeviceRef::request_subdevice_state_nowait")
    n = rq.calls_to("AlControl::new")
    ok = len(n) == 1 and any(x[-1] == "desired_state" for x in Prov(rq).of_operand(n[0].args[0]) if x[0] in ("arg", "upvar"))
    rep.ob(P, "request-carries-state" + tag, ok, "the AL control word written carries the desired_state argument", loc=rq.span, how="dataflow")


def summaries(prog, rep, tag):
    """Summary predicates must not be computed from a bitmap in which some reportable state
    contributes no bits (the identity of the OR fold)."""
    P = "C10.summary"
    gs = prog.body("TxRxResponse::group_state")
    lossy = any(s["k"] == "assign" and s["rv"]["k"] == "bin" and s["rv"]["op"] == "BitOr" for g in prog.group("TxRxResponse::group_state") for bi in g.live_blocks() for s in g.stmts(bi))
    wbody = prog.body("<SubDeviceState as EtherCrabWireWrite>::pack_to_slice_unchecked")
    kind, info = wl.enum_write_kind(prog, wbody)
    zero = sorted(v for v, e in (info or {}).items() if e == ("c", 0)) if kind == "match" else []
    for fn in ("TxRxResponse::is_in_state", "TxRxResponse::group_in_single_state", "TxRxResponse::all_op"):
        b = prog.body(fn)
        scope = prog.callees_closure([b], within=lambda x: x.crate == "ethercrab" and x.impl_adt_s == "TxRxResponse")
        uses_bitmap = any(x.root_short == "TxRxResponse::group_state" for x in scope)
        if uses_bitmap and lossy and zero:
            rep.violation(P, "%s|bitmap-loses-%s%s" % (fn, "+".join(zero), tag), "%s is derived from the OR bitmap of group_state(); state %s has code 0 and contributes no bits, so the predicate can hold although a SubDevice reported %s (or did not answer)" % (fn, zero, zero), loc=b.span)
        else:
            # element by element: an all / any over the state list (`all(==)` and `!any(!=)` are the same predicate), or an
            # explicit loop over it, with an (in)equality on SubDeviceState inside
            direct = any((c.decl_s or "").split("::")[-1] in ("all", "any", "find", "position", "next") for x in scope for c in x.calls())
            compares = any(c.is_("PartialEq::eq", "PartialEq::ne") and "SubDeviceState" in (c.res_s or c.decl_s or "") for x in scope for c in x.calls()) or any(cd.kind == "discr" and "SubDeviceState" in (cd.enum_ty or "") for x in scope for cd in q.conds(x))
            rep.ob(P, "%s:element-wise%s" % (fn, tag), direct and compares and not uses_bitmap, "%s compares the reported states element by element, not through the lossy bitmap" % fn, loc=b.span)


def request(prog, rep, tag):
    P = "C10.request"
    b = prog.async_body("SubDeviceRef::request_subdevice_state_nowait")
    pr = Prov(b, follow_all={"SubDeviceRef::write", "SubDeviceRef::read"})
    sr = b.calls_to("WrappedWrite::send_receive")
    ok = len(sr) == 1 and any(r[0] == "agg" and r[2] == "AlControl" for r in pr.of_operand(sr[0].args[0])) and has_root(pr.of_operand(sr[0].args[0]), "via", "SubDeviceRef::write")
    rep.ob(P, "checked-write" + tag, ok, "the state request is a send_receive (working counter checked) to the device's own AlControl register", loc=b.span, how="dataflow")
    errs = q.aggregates(b, "Error", "SubDevice")
    okb = False
    for cd in q.conds(b):
        if hasattr(cd, "operand") and cd.kind in ("bool", "int"):
            if has_root(Prov(b).of_operand(cd.operand), "field", "AlControl", "error"):
                t = cd.true_target()
                oks = q.aggregates(b, "Result", "Ok")
                okb = bool(oks) and all(x[0] not in q.edge_dominated(b, cd.bb, t) for x in oks)
    rep.ob(P, "error-bit-is-error" + tag, okb, "Ok(()) is not returned on the edge where the response's error bit is set", loc=b.span)
