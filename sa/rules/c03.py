"""C03 - frame slots are always returned (S6 + allocator preconditions)."""
from .. import q, slotfsm
from ..core import Prov, has_root, op_const


def run(ctx, rep):
    rep.decided += [
        "S6 every claim is resolved: send_blocking ends in exactly one of mark_sent/release_sending_claim; poll puts back, hands on or releases the FrameBox on every path; Drop impls of CreatedFrame/ReceiveFrameFut/ReceivedFrame exist and release on every path; reset frees every index",
        "allocator: N<=255, N>0, power of two asserted; 2N round-robin attempts; Ok only with a successful claim",
        "the transmit side lets go of a slot only by compare-exchange from Sending, so a slot released by an expired request during the send is never stranded in Sent/Sendable",
    ]
    rep.undecided += ["capacity after arbitrary operation histories", "allocation fails only when all slots are held, under concurrent cursor movement"]
    rep.trusted += ["rustc MIR/callee resolution"]
    for cfg in ctx.configs():
        prog = ctx.prog(cfg)
        tag = "" if cfg == "default" else "@" + cfg
        rep.analysed["bodies" + tag] = len(prog.bodies)
        sites = slotfsm.s1(prog, rep, "C03", tag)
        slotfsm.s6_send(prog, rep, "C03", tag)
        slotfsm.s6_poll(prog, rep, "C03", tag)
        slotfsm.s6_drops(prog, rep, "C03", tag)
        slotfsm.s6_reset(prog, rep, "C03", tag)
        tx_lets_go(prog, rep, sites, tag)
        allocator(prog, rep, tag)


def tx_lets_go(prog, rep, sites, tag, P0="C03"):
    """A request can expire (and its slot be released, even re-allocated) while the transmit side is still
    inside send_blocking.  Whatever the transmit side then writes to the slot state must be conditional on
    the slot still being in Sending - a plain store would leave the slot in Sent/Sendable with no owner:
    no Drop, timeout or response ever returns it to None and the capacity is lost for good."""
    P = P0 + ".tx"
    mine = [s for s in sites if s["fn"].startswith("SendableFrame::")]
    rep.floor(P0 + " transmit-side state changes" + tag, len(mine), 2)
    for s in mine:
        ok = s["kind"] == "cas" and s["frm"] == "Sending"
        rep.ob(P, "conditional:%s->%s%s" % (s["fn"], s["to"], tag), ok,
               "%s moves the slot to %s only by compare-exchange from Sending (%s%s): a slot released by an expired request while the frame was being sent is left alone instead of being stranded without an owner" % (s["fn"], s["to"], s["kind"], " from " + s["frm"] if s["frm"] else ""),
               loc=s["call"].span, how="table")


def allocator(prog, rep, tag):
    P = "C03.alloc"
    new = prog.body("PduStorage::new")
    # assertions: comparisons on the const parameter N followed by a panic on the failing edge
    found = {"le255": False, "gt0": False, "pow2": False}
    for cd in q.conds(new):
        if cd.kind != "cmp":
            continue

        def is_n(op):
            c = op_const(op)
            return c is not None and c.get("tyconst") == "N"

        def cval(op):
            c = op_const(op)
            return None if c is None else c.get("v")

        l, r = cd.lhs, cd.rhs
        # failing edge must reach a panic (diverging call) without returning
        def fails(target):
            blocks = new.reachable_from(target)
            return not any(new.term(x)["k"] == "return" for x in blocks)

        if cd.op == "Le" and is_n(l):
            # N <= u8::MAX as usize
            pr = Prov(new)
            if has_root(pr.of_operand(r), "const", "u8::MAX") or has_root(pr.of_operand(r), "const", 255) or any(x[0] == "const" and x[-1] == 255 for x in pr.of_operand(r)):
                found["le255"] = found["le255"] or fails(cd.false_target())
        if cd.op == "Gt" and is_n(l) and cval(r) == 0:
            found["gt0"] = found["gt0"] or fails(cd.false_target())
        if cd.op == "Eq":
            pr = Prov(new)
            both = pr.of_operand(l) | pr.of_operand(r)
            if any(x[0] == "call" and "count_ones" in x[1] for x in both) and (cval(l) == 1 or cval(r) == 1):
                found["pow2"] = found["pow2"] or fails(cd.false_target())
    rep.ob(P, "new:N<=255" + tag, found["le255"], "PduStorage::new panics at construction unless N <= u8::MAX (slot indices are u8)", loc=new.span)
    rep.ob(P, "new:N>0" + tag, found["gt0"], "PduStorage::new panics at construction unless N > 0", loc=new.span)
    rep.ob(P, "new:power-of-two" + tag, found["pow2"], "PduStorage::new panics unless N is a power of two (the wrapping u8 cursor `fetch_add(1) % N` visits every slot only if 256 % N == 0)", loc=new.span)

    al = prog.body("PduStorageRef::alloc_frame")
    pr = Prov(al)
    rng = q.aggregates(al, "Range")
    ok_rng = False
    for bi, si, s in rng:
        a = pr.of_operand(q.agg_field(s, "start"))
        e = pr.of_operand(q.agg_field(s, "end"))
        if has_root(a, "const", 0) and has_root(e, "field", "PduStorageRef", "num_frames") and has_root(e, "binop", "Mul") and has_root(e, "const", 2):
            ok_rng = True
    rep.ob(P, "alloc:2N-attempts" + tag, ok_rng, "alloc_frame tries num_frames*2 cursor values before giving up", loc=al.span, how="dataflow")
    cl = al.calls_to("CreatedFrame::claim_created")
    ok = len(cl) == 1
    if ok:
        fr = pr.of_operand(cl[0].args[0])
        idx = pr.of_operand(cl[0].args[1])
        fi = al.calls_to("PduStorageRef::frame_at_index")
        ok = has_root(fr, "call", "PduStorageRef::frame_at_index") and len(fi) == 1
        fa = [c for c in al.calls() if (c.decl_s or "").endswith("::fetch_add")]
        ok = ok and len(fa) == 1 and has_root(idx, "binop", "Rem") and has_root(idx, "field", "PduStorageRef", "num_frames") and any(x[0] == "call" and x[1].endswith("::fetch_add") for x in idx)
        if ok:
            i2 = pr.of_operand(fi[0].args[1])
            ok = any(x[0] == "call" and x[1].endswith("::fetch_add") for x in i2) and has_root(i2, "binop", "Rem")
            ok = ok and has_root(pr.of_operand(fa[0].args[0]), "field", "PduStorageRef", "frame_idx") and q.const_int(fa[0].args[1]) == 1
    rep.ob(P, "alloc:cursor" + tag, ok, "the slot tried is frame_at_index(frame_idx.fetch_add(1) % num_frames) and the same index is recorded in the claim", loc=al.span, how="dataflow")
    # Ok(frame) only from a successful claim; Err(SwapState) after the loop
    oks = q.aggregates(al, "Result", "Ok")
    good = bool(oks) and len(cl) == 1
    for bi, si, s in oks:
        r = pr.of_operand(s["rv"]["a"][0])
        good = good and has_root(r, "call", "CreatedFrame::claim_created")
    # Ok block is dominated by the Ok arm of a match on the claim result
    if good:
        good = False
        for cd in q.conds(al):
            if cd.kind == "discr" and has_root(pr.of_place(cd.place), "call", "CreatedFrame::claim_created"):
                vt = cd.variant_targets(prog)
                if vt.get("Ok") is not None:
                    dom = q.edge_dominated(al, cd.bb, vt["Ok"])
                    good = all(bi in dom for bi, _, _ in oks)
    rep.ob(P, "alloc:ok-only-with-claim" + tag, good, "alloc_frame returns Ok only with the CreatedFrame of a successful None->Created claim", loc=al.span)
