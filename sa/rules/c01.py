"""C01 - every response reaches exactly its request, byte-exact (structural clauses)."""
from .. import q, slotfsm
from ..core import TRANSPARENT, Prov, has_root, last_seg, norm, op_place, roots_str

NOGET = TRANSPARENT - {"slice::get", "slice::get_mut", "Index::index", "IndexMut::index_mut"}


def run(ctx, rep):
    rep.decided += [
        "1 receive order: lookup -> claim(index from lookup) -> copy into the claimed buffer -> mark_received",
        "2 no lost wake-up: waker registered before the RxDone test, RxDone set before wake",
        "3 handle validation: Ok(ReceivedPdu) only on the equal edges of command-code and index comparisons with the caller's handle",
        "4 index-key discipline: writers of first_pdu, sentinel > 0xFF, orderings; S8 stale markers cannot shadow a live request",
        "5 view bounds: data_start/len/working_counter roots at every ReceivedPdu construction; front-trim shrinks len by the amount it advances",
        "6 view lifetime: a view never outlives the handle that keeps its slot",
        "7 release-last in ReceivedFrame::drop",
    ]
    rep.undecided += ["that the right bytes arrive for all interleavings and arrival orders", "use sites of views obtained from an iterator that is dropped later ('sto is too coarse)"]
    rep.trusted += ["rustc MIR/callee resolution"]
    for cfg in ctx.configs():
        prog = ctx.prog(cfg)
        tag = "" if cfg == "default" else "@" + cfg
        rep.analysed["bodies" + tag] = len(prog.bodies)
        slotfsm.s4(prog, rep, "C01", tag, parts=("receive_frame", "mark_received", "poll"))
        handle_validation(prog, rep, tag)
        index_key(prog, rep, tag)
        sites = slotfsm.transitions(prog)[0]
        rep.floor("C01 state-change sites" + tag, len(sites), 13)
        slotfsm.s8(prog, rep, "C01", sites, tag)
        view_bounds(prog, rep, tag)
        slotfsm.s5_escape(prog, rep, "C01", tag)
        slotfsm.s5_handle_escape(prog, rep, "C01", tag)
        slotfsm.s5(prog, rep, "C01", tag, fns={"<ReceivedFrame as Drop>::drop"})


def eq_guard(body, block, pa, pb):
    """Is `block` dominated by the equal edge of a comparison whose sides satisfy pa/pb?"""
    for cd in q.conds(body):
        if cd.kind != "cmp" or cd.op not in ("Eq", "Ne"):
            continue
        pr = Prov(body)
        l, r = pr.of_operand(cd.lhs), pr.of_operand(cd.rhs)
        if not ((pa(l) and pb(r)) or (pa(r) and pb(l))):
            continue
        eq_t = cd.true_target() if cd.op == "Eq" else cd.false_target()
        if eq_t is not None and block in q.edge_dominated(body, cd.bb, eq_t):
            return True
    return False


def handle_validation(prog, rep, tag):
    P = "C01.handle"
    n = 0
    for fname in ("ReceivedFrame::first_pdu", "ReceivedFrame::pdu"):
        b = prog.body(fname)
        for bi, si, s in q.aggregates(b, "ReceivedPdu"):
            n += 1
            c1 = eq_guard(b, bi, lambda r: has_root(r, "field", "PduHeader", "command_code"), lambda r: has_root(r, "field", "PduResponseHandle", "command_code"))
            c2 = eq_guard(b, bi, lambda r: has_root(r, "field", "PduHeader", "index"), lambda r: has_root(r, "field", "PduResponseHandle", "pdu_idx"))
            rep.ob(P, "%s:command-code%s" % (fname, tag), c1, "Ok(ReceivedPdu) in %s only where header.command_code == handle.command_code" % fname, loc=q.loc(b, bi, si))
            rep.ob(P, "%s:index%s" % (fname, tag), c2, "Ok(ReceivedPdu) in %s only where header.index == handle.pdu_idx" % fname, loc=q.loc(b, bi, si))
            # the header compared is the one decoded from this slot's buffer
            hdr = [c for c in b.calls() if c.is_("EtherCrabWireRead::unpack_from_slice") and (c.res_s or "").startswith("<PduHeader")]
            c3 = bool(hdr) and all(has_root(Prov(b).of_operand(c.args[0]), "call", "FrameBox::pdu_buf") for c in hdr)
            rep.ob(P, "%s:header-from-own-buffer%s" % (fname, tag), c3, "the header is decoded from this frame's own buffer", loc=q.loc(b, bi, si), how="dataflow")
    rep.floor("C01 validated constructors" + tag, n, 2)
    # single_pdu passes the handle it got from push_pdu for the same frame
    sp = prog.async_body("MainDevice::single_pdu")
    fp = sp.calls_to("ReceivedFrame::first_pdu")
    ok = len(fp) == 1 and has_root(Prov(sp).of_operand(fp[0].args[1]), "call", "CreatedFrame::push_pdu")
    rep.ob(P, "single_pdu:handle-from-push" + tag, ok, "single_pdu validates the response against the handle returned by its own push_pdu", loc=sp.span, how="dataflow")
    # handle fields are what was written into the header
    for fname in ("CreatedFrame::push_pdu", "CreatedFrame::push_pdu_slice_rest"):
        b = prog.body(fname)
        pr = Prov(b)
        hs = q.aggregates(b, "PduHeader")
        hd = q.aggregates(b, "PduResponseHandle")
        ok = len(hs) == 1 and len(hd) == 1
        if ok:
            i1 = pr.of_operand(q.agg_field(hs[0][2], "index"))
            i2 = pr.of_operand(q.agg_field(hd[0][2], "pdu_idx"))
            c1 = pr.of_operand(q.agg_field(hs[0][2], "command_code"))
            c2 = pr.of_operand(q.agg_field(hd[0][2], "command_code"))
            ok = has_root(i1, "call", "FrameBox::next_pdu_idx") and i1 == i2 and has_root(c1, "call", "Command::code") and has_root(c2, "call", "Command::code")
            ok = ok and len(b.calls_to("FrameBox::next_pdu_idx")) == 1
        rep.ob(P, "%s:handle-matches-header%s" % (fname, tag), ok, "the response handle carries the same index (one next_pdu_idx per datagram) and command code as the header written", loc=b.span, how="dataflow")


def index_key(prog, rep, tag):
    P = "C01.key"
    allowed = {
        "FrameElement::first_pdu_is": "load",
        "FrameElement::set_first_pdu": "compare_exchange from the empty sentinel",
        "FrameElement::clear_first_pdu": "store of the sentinel",
        "FrameBox::init": "store of the sentinel after the None->Created claim",
        "<FrameElement as Default>::default": "constructor",
        "<FrameElement as Debug>::fmt": "derive(Debug)",
    }
    n = 0
    for b in prog.bodies:
        if b.crate != "ethercrab":
            continue
        if q.field_accesses(b, "FrameElement", "first_pdu"):
            n += 1
            rep.ob(P, "toucher:%s%s" % (b.root_short, tag), b.root_short in allowed, "FrameElement.first_pdu touched in %s: %s" % (b.root_short, allowed.get(b.root_short, "UNAUDITED")), loc=b.span, how="inventory", nontrivial=False)
    rep.floor("C01 first_pdu touchers" + tag, n, 5)
    v = prog.const_value("FIRST_PDU_EMPTY")
    rep.ob(P, "sentinel>0xFF" + tag, v > 0xFF and v <= 0xFFFF, "FIRST_PDU_EMPTY = %#x can never equal u16::from(u8)" % v, how="table")
    sf = prog.body("FrameElement::set_first_pdu")
    cx = [c for c in sf.calls() if (c.decl_s or "").endswith("::compare_exchange")]
    ok = len(cx) == 1
    if ok:
        pr = Prov(sf)
        cur = pr.of_operand(cx[0].args[1])
        new = pr.of_operand(cx[0].args[2])
        so = slotfsm.ordering_of(sf, cx[0].args[3])
        ok = any(r[0] == "const" and "FIRST_PDU_EMPTY" in str(r[1]) for r in cur) and has_root(new, "arg", 2) and so in ("Release", "AcqRel", "SeqCst")
        ok = ok and has_root(pr.of_operand(cx[0].args[0]), "field", "FrameElement", "first_pdu")
        ok = ok and not [c for c in sf.calls() if (c.decl_s or "").endswith("::store")]
    rep.ob(P, "set_first_pdu:cas-from-sentinel" + tag, ok, "set_first_pdu only replaces the empty sentinel (first datagram wins), Release", loc=sf.span, how="dataflow")
    cl = prog.body("FrameElement::clear_first_pdu")
    st = [c for c in cl.calls() if (c.decl_s or "").endswith("::store")]
    ok = len(st) == 1 and any(r[0] == "const" and "FIRST_PDU_EMPTY" in str(r[1]) for r in Prov(cl).of_operand(st[0].args[1])) and slotfsm.ordering_of(cl, st[0].args[2]) in ("Release", "SeqCst")
    rep.ob(P, "clear_first_pdu:stores-sentinel" + tag, ok, "clear_first_pdu stores the sentinel with Release", loc=cl.span, how="dataflow")
    fi = prog.body("FrameElement::first_pdu_is")
    ld = [c for c in fi.calls() if (c.decl_s or "").endswith("::load")]
    ok = len(ld) >= 1
    if ok:
        c = [x for x in ld if has_root(Prov(fi).of_operand(x.args[0]), "field", "FrameElement", "first_pdu")]
        ok = len(c) == 1 and slotfsm.ordering_of(fi, c[0].args[1]) in ("Acquire", "SeqCst")
        # result = (u16::from(search) == raw)
        pr = Prov(fi)
        ret = frozenset().union(*[pr._of_rvalue(p["rv"]) if k == "assign" else frozenset() for (_, _, k, p) in fi.defs().get(0, [])]) if fi.defs().get(0) else frozenset()
        ok = ok and has_root(ret, "binop", "Eq") and has_root(ret, "arg", 2) and any(r[0] == "call" and r[1].endswith("::load") for r in ret)
    rep.ob(P, "first_pdu_is:acquire-eq" + tag, ok, "first_pdu_is compares an Acquire load of the marker with the searched index for equality", loc=fi.span, how="dataflow")
    # add_pdu records the index of the datagram being added
    ap = prog.body("FrameBox::add_pdu")
    c = ap.calls_to("FrameElement::set_first_pdu")
    ok = len(c) == 1 and has_root(Prov(ap).of_operand(c[0].args[1]), "arg", 3)
    rep.ob(P, "add_pdu:marks-index" + tag, ok, "add_pdu records the datagram index it is given", loc=ap.span, how="dataflow")
    for fname in ("CreatedFrame::push_pdu", "CreatedFrame::push_pdu_slice_rest"):
        b = prog.body(fname)
        c = b.calls_to("FrameBox::add_pdu")
        ok = len(c) == 1 and has_root(Prov(b).of_operand(c[0].args[2]), "call", "FrameBox::next_pdu_idx")
        rep.ob(P, "%s:marks-own-index%s" % (fname, tag), ok, "the marker index is the index written into the datagram header", loc=b.span, how="dataflow")
    # receive side: index searched = byte 1 of the first datagram header
    rf = prog.body("PduRx::receive_frame")
    lk = rf.calls_to("PduStorageRef::frame_index_by_first_pdu_index")
    ok = len(lk) == 1
    if ok:
        pr = Prov(rf, transparent=NOGET)
        r = pr.of_operand(lk[0].args[1])
        gets = [c for c in rf.calls_to("slice::get") if q.const_int(c.args[1]) == 1]
        ok = has_root(r, "call", "slice::get") and len(gets) == 1
    rep.ob(P, "receive_frame:index-byte-1" + tag, ok, "the index looked up is byte 1 of the first datagram (PduHeader.index offset)", loc=rf.span, how="dataflow")


def view_bounds(prog, rep, tag):
    P = "C01.view"
    plen = None
    try:
        plen = [c for p, c in prog.consts.items() if p.endswith("PduHeader as ethercrab_wire::EtherCrabWireSized>::PACKED_LEN")]
        plen = plen[0].get("v") if plen else None
    except Exception:
        plen = None
    n = 0
    for b in prog.bodies:
        if b.crate != "ethercrab":
            continue
        for bi, si, s in q.aggregates(b, "ReceivedPdu"):
            n += 1
            pr = Prov(b, transparent=NOGET)
            ds = pr.of_operand(q.agg_field(s, "data_start"))
            ln = pr.of_operand(q.agg_field(s, "len"))
            wk = pr.of_operand(q.agg_field(s, "working_counter"))
            gets = {c.bb: c for c in b.calls_to("slice::get")}
            # also closures in the group (iterator uses and_then(|b| ..)) - get() itself is in this body
            def rng(c):
                return pr.of_operand(c.args[1])

            hdr_gets = [bb for bb, c in gets.items() if has_root(rng(c), "agg", "RangeFrom") and not has_root(rng(c), "binop", "Add") and any(r[0] == "const" and r[-1] == 10 for r in rng(c))]
            wkc_gets = [bb for bb, c in gets.items() if has_root(rng(c), "agg", "RangeFrom") and has_root(rng(c), "binop", "Add") and has_root(rng(c), "call", "PduFlags::len") and any(r[0] == "const" and r[-1] == 10 for r in rng(c))]
            c1 = any(r[0] == "call" and r[1] == "slice::get" and r[2] in hdr_gets for r in ds)
            c2 = has_root(ln, "call", "PduFlags::len") and not has_root(ln, "binop")
            pr2 = Prov(b, transparent=NOGET | {"EtherCrabWireRead::unpack_from_slice"})
            wk2 = pr2.of_operand(q.agg_field(s, "working_counter"))
            c3 = any(r[0] == "call" and r[1] == "slice::get" and r[2] in wkc_gets for r in wk2)
            key = b.root_short
            rep.ob(P, "%s:data_start%s" % (key, tag), c1, "data_start = buf.get(PduHeader::PACKED_LEN..) of the slot buffer (roots %s)" % roots_str(ds)[:6], loc=q.loc(b, bi, si), how="dataflow")
            rep.ob(P, "%s:len%s" % (key, tag), c2, "len = the header's length field, unmodified", loc=q.loc(b, bi, si), how="dataflow")
            rep.ob(P, "%s:wkc-read-bounds-payload%s" % (key, tag), c3, "working_counter is decoded from buf.get(PACKED_LEN+len..): its success bounds data_start+len inside the buffer", loc=q.loc(b, bi, si), how="dataflow")
    rep.floor("C01 ReceivedPdu constructions" + tag, n, 3)
    from .. import npcommon

    okc, whyc = npcommon.guard_trim_min(prog)
    rep.ob(P, "trim_front:clamped" + tag, okc, "trim_front clamps the requested amount to the view's length before moving the pointer: " + whyc, loc=prog.body("ReceivedPdu::trim_front").span, how="dataflow")
    # pairing: whoever advances data_start shrinks len by the same amount
    for b in prog.bodies:
        if b.crate != "ethercrab" or q.aggregates(b, "ReceivedPdu"):
            continue
        w = [a for a in q.field_accesses(b, "ReceivedPdu", "data_start") if a[2] == "write"]
        if not w:
            continue
        pr = Prov(b)
        adds = [c for c in b.calls() if (c.decl_s or "").endswith("::add") or (c.decl_s or "").endswith("::byte_add") or (c.decl_s or "").endswith("::offset")]
        amount = frozenset().union(*[pr.of_operand(c.args[1]) for c in adds]) if adds else frozenset()
        lw = [a for a in q.field_accesses(b, "ReceivedPdu", "len") if a[2] == "write"]
        ok = False
        for (bi, si, _, _) in lw:
            s = b.stmts(bi)[si]
            r = pr._of_rvalue(s["rv"])
            core_amount = {x for x in amount if x[0] in ("arg", "call")}
            if has_root(r, "binop", "Sub") and has_root(r, "field", "ReceivedPdu", "len") and core_amount and core_amount <= set(r):
                ok = True
        if ok:
            rep.ob(P, "%s:advance-shrinks-len%s" % (b.root_short, tag), True, "%s advances data_start and shrinks len by the same amount" % b.root_short, loc=b.span, how="dataflow")
        else:
            rep.violation(P, "%s|advance-without-shrink%s" % (b.root_short, tag), "%s advances ReceivedPdu.data_start without reducing len by the same amount: after trimming k bytes the view still spans len bytes, i.e. k bytes beyond the datagram's data area (working counter and whatever follows in the buffer)" % b.root_short, loc=b.span)
