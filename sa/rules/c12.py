"""C12 - EEPROM reads are exact and parse to what they encode (structural clauses + SII tables)."""
import os

from .. import q, wirelayout as wl
from ..core import TRANSPARENT, Prov, has_root, last_seg, norm, op_place, roots_str


def run(ctx, rep):
    rep.decided += [
        "EepromRange::read clamps the destination to min(requested, end - position) before the loop and writes only into that sub-slice; the odd-position skip is position % 2; chunks are requested at position / 2 (checked conversion); SiiReadSize::chunk_len is 4/8",
        "SII tables: fixed word addresses (identity 0x0008, mailbox 0x0018, size 0x003E, alias word 4, checksum word 7, first category 0x0040), CategoryType codes, and the declared field offsets of SubDeviceIdentity, DefaultMailbox, SyncManager, Pdo, PdoEntry, FmmuEx, SiiGeneral, SiiControl, SiiRequest against ETG.2010 / the ESC register map (generated code == declaration is C19's part)",
        "category items are read with the category's own range; strings are skipped by their length byte",
    ]
    rep.undecided += ["exact bytes for every (start, length); chunk arithmetic as values"]
    rep.trusted += ["rustc MIR/callee resolution", "tables/spec_etg.json (my transcription of ETG.2010)"]
    spec = ctx.table("spec_etg.json")
    for cfg in ctx.configs():
        prog = ctx.prog(cfg)
        tag = "" if cfg == "default" else "@" + cfg
        rep.analysed["bodies" + tag] = len(prog.bodies)
        reader(prog, rep, tag)
        cursor(prog, rep, tag)
        addresses(prog, rep, spec, tag)
        strings(prog, rep, tag)
        walk_exits(prog, rep, tag)
        byte_ranges(prog, rep, tag, "C12.range")
        structs(ctx, prog, rep, spec, tag)


def reader(prog, rep, tag):
    P = "C12.read"
    b = prog.async_body("<EepromRange as Read>::read")
    pr = Prov(b, follow_all={"Ord::min", "cmp::min", "num::saturating_sub"})
    gm = [c for c in b.calls_to("slice::get_mut") if any(x[0] == "via" and x[1].endswith("::min") for x in pr.of_operand(c.args[1]))]
    ok = len(gm) == 1
    d = {}
    if ok:
        rng = pr.of_operand(gm[0].args[1])
        d["clamp"] = has_root(rng, "via", "num::saturating_sub") and has_root(rng, "field", "EepromRange", "end") and has_root(rng, "field", "EepromRange", "byte_pos") and has_root(rng, "call", "slice::len") and has_root(rng, "const", 0)
        rc = [c for c in b.calls() if c.is_("EepromDataProvider::read_chunk")]
        d["clamp-before-loop"] = len(rc) == 1 and b.dominates(gm[0].bb, rc[0].bb) and gm[0].bb not in b.reachable_strict(rc[0].bb)
        # every write goes into (a suffix of) the clamped slice
        cps = [c for c in b.calls() if (c.decl_s or "").endswith("copy_from_slice")]
        pw = Prov(b, transparent=TRANSPARENT | {"slice::split_at_mut"})
        d["writes-into-clamped"] = len(cps) >= 1 and all(has_root(pw.of_operand(c.args[0]), "arg", 2) or any(x[0] == "upvar" and x[2] == "buf" for x in pw.of_operand(c.args[0])) for c in cps)
        # the loop variable buf is re-assigned only from the clamped slice and its split tails
        d["reads-at-word"] = len(rc) == 1 and has_root(Prov(b).of_operand(rc[0].args[1]), "call", "EepromRange::word_pos")
        ok = all(d.values())
    rep.ob(P, "clamped-destination" + tag, ok, "read() never writes beyond min(buf.len(), end - byte_pos) bytes; %s" % d, loc=b.span)
    # odd skip
    rems = []
    for bi in sorted(b.live_blocks()):
        for s in b.stmts(bi):
            if s["k"] == "assign" and s["rv"]["k"] == "bin" and s["rv"]["op"] == "Rem":
                rems.append(s)
    ok = len(rems) == 1 and q.const_int(rems[0]["rv"]["a"][1]) == 2 and has_root(Prov(b).of_operand(rems[0]["rv"]["a"][0]), "field", "EepromRange", "byte_pos")
    gets = [c for c in b.calls_to("slice::get") if has_root(Prov(b).of_operand(c.args[1]), "agg", "RangeFrom") and has_root(Prov(b).of_operand(c.args[1]), "binop", "Rem")]
    rep.ob(P, "odd-skip" + tag, ok and len(gets) == 1, "chunk.get(byte_pos % 2 ..): an odd position skips exactly the first byte of the word-aligned chunk", loc=b.span, how="dataflow")
    wp = prog.body("EepromRange::word_pos")
    divs = [s for bi in wp.live_blocks() for s in wp.stmts(bi) if s["k"] == "assign" and s["rv"]["k"] == "bin" and s["rv"]["op"] == "Div"]
    ok = len(divs) == 1 and q.const_int(divs[0]["rv"]["a"][1]) == 2 and has_root(Prov(wp).of_operand(divs[0]["rv"]["a"][0]), "field", "EepromRange", "byte_pos") and any(c.is_("TryFrom::try_from") for c in wp.calls())
    rep.ob(P, "word-address" + tag, ok, "the provider is asked for word byte_pos / 2 through a checked u16 conversion", loc=wp.span, how="dataflow")
    nw = prog.body("EepromRange::new")
    ag = q.aggregates(nw, "EepromRange")
    ok = len(ag) == 1
    if ok:
        s = ag[0][2]
        bp = Prov(nw).of_operand(q.agg_field(s, "byte_pos"))
        en = Prov(nw).of_operand(q.agg_field(s, "end"))
        ok = has_root(bp, "arg", 2) and has_root(bp, "binop", "Mul") and has_root(bp, "const", 2) and not has_root(bp, "arg", 3) and has_root(en, "arg", 2) and has_root(en, "arg", 3) and has_root(en, "binop", "Add")
    rep.ob(P, "range-bounds" + tag, ok, "EepromRange::new: byte_pos = 2*start_word, end = 2*start_word + 2*len_words", loc=nw.span, how="dataflow")
    cl = prog.body("SiiReadSize::chunk_len")
    vals = {}
    for cd in q.conds(cl):
        if cd.kind == "discr":
            for var, tgt in cd.variant_targets(prog).items():
                if isinstance(var, str) and var != "otherwise":
                    dom = q.edge_dominated(cl, cd.bb, tgt)
                    for (bi, si, kind, payload) in cl.defs().get(0, []):
                        if bi in dom and kind == "assign":
                            k = q.const_int(payload["rv"]["a"][0]) if payload["rv"].get("a") else None
                            if k is not None:
                                vals[var] = k
    rep.ob(P, "chunk-len" + tag, vals == {"Octets4": 4, "Octets8": 8}, "SiiReadSize::chunk_len: %s" % vals, loc=cl.span, how="table")
    rc = prog.async_body("<DeviceEeprom as EepromDataProvider>::read_chunk")
    rs = rc.calls_to("WrappedRead::receive_slice")
    pf = Prov(rc, follow_all={"SiiReadSize::chunk_len"})
    ok = len(rs) == 1 and has_root(pf.of_operand(rs[0].args[2]), "via", "SiiReadSize::chunk_len") and has_root(pf.of_operand(rs[0].args[2]), "field", "SiiControl", "read_size") and has_root(pf.of_operand(rs[0].args[2]), "await", "DeviceEeprom::wait_while_busy")
    rep.ob(P, "device-chunk" + tag, ok, "DeviceEeprom reads status.read_size.chunk_len() bytes of SiiData after the SII read request for that word", loc=rc.span, how="dataflow")
    sr = prog.body("SiiRequest::read")
    ag = q.aggregates(sr, "SiiRequest")
    ok = len(ag) == 1 and has_root(Prov(sr).of_operand(q.agg_field(ag[0][2], "address")), "arg", 1)
    rep.ob(P, "request-address" + tag, ok, "SiiRequest::read(addr) carries addr", loc=sr.span, how="dataflow")


def addresses(prog, rep, spec, tag):
    P = "C12.addr"
    s = spec["sii"]
    rep.ob(P, "first-category" + tag, prog.const_value("SII_FIRST_CATEGORY_START") == s["first_category_word"], "first category at word 0x0040", how="table")
    want = {"SubDeviceEeprom::identity": s["identity_word"], "SubDeviceEeprom::mailbox_config": s["mailbox_word"], "SubDeviceEeprom::size": s["size_word"]}
    for fn, word in want.items():
        b = prog.async_body(fn)
        st = b.calls_to("SubDeviceEeprom::start_at")
        ok = len(st) == 1 and q.const_int(st[0].args[1]) == word
        rep.ob(P, "%s%s" % (fn, tag), ok, "%s reads from word %#06x" % (fn, word), loc=b.span, how="table")
    ar = [c for p, c in prog.consts.items() if p.endswith("eeprom::STATION_ALIAS_POSITION") or p.endswith("eeprom::CHECKSUM_POSITION")]
    rep.ob(P, "alias-checksum-consts-present" + tag, len(ar) == 2, "STATION_ALIAS_POSITION / CHECKSUM_POSITION exist (values checked by C14)", how="inventory", nontrivial=False)
    ct = prog.adt("CategoryType")
    d = {v["name"]: v.get("discr") for v in ct["variants"]}
    bad = {k: (v, d.get(k)) for k, v in s["categories"].items() if d.get(k) != v}
    rep.ob(P, "category-codes" + tag, not bad, "CategoryType codes equal ETG.2010 (%d checked) %s" % (len(s["categories"]), bad), how="table")
    # each typed query uses the matching category
    pairs = {"SubDeviceEeprom::sync_managers": "SyncManager", "SubDeviceEeprom::fmmus": "Fmmu", "SubDeviceEeprom::fmmu_mappings": "FmmuExtended", "SubDeviceEeprom::general": "General", "SubDeviceEeprom::find_string": "Strings"}
    for fn, cat in pairs.items():
        b = prog.async_body(fn)
        cs = [c for c in b.calls() if c.is_("SubDeviceEeprom::category", "SubDeviceEeprom::items")]
        ok = len(cs) >= 1 and all(any(r[0] == "agg" and r[1] == "CategoryType" and r[2] == cat for r in Prov(b).of_operand(c.args[1])) for c in cs)
        rep.ob(P, "%s:category%s" % (fn, tag), ok, "%s walks category %s" % (fn, cat), loc=b.span, how="table")
    # PdoType -> category
    b = prog.body("<CategoryType as From>::from") if prog.has_body("<CategoryType as From>::from") else None
    # strings: skip by the length byte
    fs = prog.async_body("SubDeviceEeprom::find_string")
    sk = fs.calls_to("EepromRange::skip_ahead_bytes")
    ok = len(sk) == 1 and has_root(Prov(fs).of_operand(sk[0].args[1]), "await", "EepromRange::read_byte")
    rep.ob(P, "strings:skip-by-length" + tag, ok, "find_string skips each earlier string by its own length byte", loc=fs.span, how="dataflow")


def structs(ctx, prog, rep, spec, tag):
    P = "C12.struct"
    decl = wl.declared([os.path.join(ctx.repo, "src")], features=("std", "default"))
    items = {}
    for i in decl["items"]:
        items.setdefault(i["name"], []).append(i)
    n = 0
    for name, want in spec["sii_structs"].items():
        if name.startswith("_"):
            continue
        its = items.get(name, [])
        if len(its) != 1:
            rep.anchor_missing("derive site %s (found %d)" % (name, len(its)))
            continue
        n += 1
        total, ref, problems = wl.ref_layout(its[0])
        w = {k: tuple(v) for k, v in want.items() if not k.startswith("_")}
        got = {k: ref.get(k) for k in w}
        ok = got == w and total == want["_bytes"] * 8 and not problems
        rep.ob(P, "%s%s" % (name, tag), ok, "declared layout of %s %s equals the specification %s" % (name, got, w if not ok else ""), loc="%s:%s" % (os.path.relpath(its[0]["file"], ctx.repo), its[0]["line"]), how="table")
    rep.floor("C12 SII structures" + tag, n, 9)


def _tyconst(op):
    c = op.get("const") if isinstance(op, dict) else None
    return c.get("tyconst") if isinstance(c, dict) else None


def strings(prog, rep, tag):
    """find_string::<N>: a string of every length 0..=N is returned (the too-long error is taken exactly when
    len > N), the bytes read are exactly `len` bytes following the length byte, and exactly index-1 earlier
    strings are skipped."""
    P = "C12.string"
    b = prog.async_body("SubDeviceEeprom::find_string")
    pr = Prov(b)
    d = {}
    errs = q.aggregates(b, "Error", "StringTooLong")
    exact = []
    for cd in q.conds(b):
        if cd.kind != "cmp":
            continue
        for (lhs, rhs, flip) in ((cd.lhs, cd.rhs, False), (cd.rhs, cd.lhs, True)):
            if _tyconst(rhs) == "N" and has_root(pr.of_operand(lhs), "await", "EepromRange::read_byte"):
                # edge on which  len > N  holds, and its complement on which len <= N holds
                gt = "Lt" if flip else "Gt"
                le = "Ge" if flip else "Le"
                for tgt in {cd.true_target(), cd.false_target()} - {None}:
                    if cd.holds_on(tgt, gt):
                        other = cd.false_target() if tgt == cd.true_target() else cd.true_target()
                        if cd.holds_on(other, le):
                            exact.append((cd, tgt, other))
    d["guard-is-len>N"] = len(exact) == 1
    sl = [c for c in b.calls() if (c.decl_s or "").endswith("Vec::set_len") or c.is_("Vec::set_len")]
    rx = [c for c in b.calls() if c.is_("Read::read_exact", "ReadExactFuture::read_exact") or (c.decl_s or "").endswith("::read_exact")]
    if len(exact) == 1 and errs and len(sl) == 1 and rx:
        cd, too_long, fits = exact[0]
        dom_err = q.edge_dominated(b, cd.bb, too_long)
        dom_ok = q.edge_dominated(b, cd.bb, fits)
        d["error-only-when-longer"] = all(e[0] in dom_err for e in errs)
        d["set_len-on-fits-edge"] = sl[0].bb in dom_ok and sl[0].bb not in dom_err
        a = pr.of_operand(sl[0].args[1])
        d["set_len(len)"] = has_root(a, "await", "EepromRange::read_byte") and not has_root(a, "binop", "Sub") and not has_root(a, "binop", "Add")
        d["read-into-buf"] = all(sl[0].bb in b.dominators().get(c.bb, ()) for c in rx)
    else:
        d["anchors"] = False
    rep.ob(P, "exact-fit-accepted" + tag, bool(d) and all(d.values()), "find_string::<N> fails with StringTooLong exactly on the edge len > N; on the other edge buf.set_len(len) and read_exact(buf) read the string's own bytes; %s" % d, loc=b.span)
    # index handling: 0 -> None; skip exactly index-1 strings
    d = {}
    rng = [x for x in q.aggregates(b, "Range") if x[2]["rv"].get("args") == "[u8]"]
    if len(rng) == 1:
        st = rng[0][2]
        end = pr.of_operand(st["rv"]["a"][1])
        d["from-0"] = q.const_int(st["rv"]["a"][0]) == 0
        d["to-index-1"] = has_root(end, "binop", "Sub") and has_root(end, "const", 1) and any(x[0] in ("arg", "upvar") and x[-1] == "search_index" for x in end)
    else:
        d["one-skip-loop"] = False
    nones = [x for x in q.aggregates(b, "Option", "None")]
    zero = [cd for cd in q.conds(b) if cd.kind == "cmp" and cd.op == "Eq" and q.const_int(cd.rhs) == 0 and any(x[0] in ("arg", "upvar") and x[-1] == "search_index" for x in pr.of_operand(cd.lhs))]
    d["index-0-is-none"] = len(zero) == 1 and bool(nones)
    rep.ob(P, "skip-index-minus-one" + tag, all(d.values()), "string index i (1-based) skips exactly i-1 earlier strings (loop 0..i-1, each skipped by its own length byte); index 0 is None; %s" % d, loc=b.span, how="dataflow")


def byte_ranges(prog, rep, tag, P):
    """'for any start word, any length': a range opened with start_at(word, len_bytes) covers exactly
    len_bytes bytes - the length is neither rounded down to whole words nor truncated to 16 bit on the
    way from the public API (eeprom_read_raw / eeprom_read / eeprom_write_dangerously) to the range."""
    sa = prog.body("SubDeviceEeprom::start_at")
    ctor = [c for c in sa.calls() if (c.decl_s or "").startswith("EepromRange::new")]
    d = {}
    if len(ctor) == 1:
        pr = Prov(sa)
        ln = pr.of_operand(ctor[0].args[2])
        d["word-passed-on"] = has_root(pr.of_operand(ctor[0].args[1]), "arg", 2)
        d["length-passed-on-unrounded"] = has_root(ln, "arg", 3) and not any(x[0] == "binop" and x[1] in ("Div", "Shr", "BitAnd", "Sub") for x in ln)
        d["length-is-usize"] = sa.locals[3]["ty"] == "usize"
        t = prog.by_path.get(ctor[0].res) or prog.by_path.get(ctor[0].decl)
        if t is not None:
            ag = q.aggregates(t, "EepromRange")
            if len(ag) == 1:
                pt = Prov(t, follow_all={"num::saturating_add", "num::wrapping_add", "num::checked_add", "TryFrom::try_from", "Result::unwrap_or", "From::from"})
                st = ag[0][2]
                en = q.expr_tree(t, q.agg_field(st, "end"), prov=pt)
                bp = q.expr_tree(t, q.agg_field(st, "byte_pos"), prov=pt)

                def leaf_arg(x, n):
                    return x[0] == "leaf" and any(r[0] == "arg" and r[1] == n for r in x[1])

                def is_start(x):
                    return x[0] == "Mul" and ((leaf_arg(x[1], 2) and x[2] == ("const", 2)) or (leaf_arg(x[2], 2) and x[1] == ("const", 2)))

                d["byte_pos=2*word"] = is_start(bp)
                d["end=2*word+len_bytes"] = en[0] == "Add" and ((is_start(en[1]) and leaf_arg(en[2], 3)) or (is_start(en[2]) and leaf_arg(en[1], 3)))
                d["shape"] = "byte_pos=%s end=%s" % (q.tree_str(bp), q.tree_str(en))
            else:
                d["range-literal"] = False
        else:
            d["ctor-body"] = False
    else:
        d["one-ctor-call"] = False
    rep.ob(P, "start_at:exactly-len-bytes" + tag, all(v for k, v in d.items() if k != "shape"), "start_at(word, len_bytes) opens [2*word, 2*word + len_bytes): odd lengths keep their last byte; %s" % d, loc=sa.span)
    # callers in the public API hand the length over without a narrowing cast
    for fn, what in (("SubDevice::eeprom_read_raw", "slice::len"), ("SubDevice::eeprom_read", None), ("SubDevice::eeprom_write_dangerously", None)):
        b = prog.async_body(fn)
        calls = b.calls_to("SubDeviceEeprom::start_at")
        ok = len(calls) == 1
        why = ""
        if ok:
            narrowing = _narrowing_casts(b, calls[0].args[2])
            ok = not narrowing
            why = "casts on the way: %s" % narrowing if narrowing else "no narrowing cast"
            if what:
                ok = ok and has_root(Prov(b).of_operand(calls[0].args[2]), "call", what)
        rep.ob(P, "%s:length-untruncated%s" % (fn, tag), ok, "%s passes the full length to start_at (%s)" % (fn, why), loc=b.span, how="dataflow")


_WIDTH = {"u8": 8, "u16": 16, "u32": 32, "u64": 64, "usize": 64, "i8": 8, "i16": 16, "i32": 32, "i64": 64, "isize": 64, "u128": 128, "i128": 128}


def _narrowing_casts(b, op, depth=6):
    out = []
    l = q.local_of(op)
    seen = set()
    while l is not None and depth > 0 and l not in seen:
        seen.add(l)
        depth -= 1
        defs = b.defs().get(l, [])
        if len(defs) == 1 and defs[0][2] == "call" and (defs[0][3].decl_s or "").split("::")[-1] in ("from", "into", "try_from", "try_into", "unwrap", "unwrap_or", "unwrap_or_default", "min", "branch") and defs[0][3].args:
            l = q.local_of(defs[0][3].args[0])
            continue
        if len(defs) != 1 or defs[0][2] != "assign":
            break
        rv = defs[0][3]["rv"]
        if rv["k"] == "cast":
            f, t = _WIDTH.get(rv.get("from")), _WIDTH.get(rv.get("to"))
            if f and t and t < f:
                out.append("%s as %s" % (rv.get("from"), rv.get("to")))
        if rv["k"] in ("cast", "use") and rv.get("a"):
            l = q.local_of(rv["a"][0])
        else:
            break
    return out


def walk_exits(prog, rep, tag):
    """The category walk may give up (`Ok(None)`: "this device has no such category") only where the image says so:
    at the End marker, where a length overruns the address space (checked_add failed), or after a *count* of empty
    categories reached the blank-EEPROM threshold.  Any other early exit - stopping at the first empty or unknown
    category, say - hides every category behind it on a well-formed image (name, sync managers, FMMUs, PDOs all read
    as absent), and no captured device has such a category."""
    P = "C12.walk"
    b = prog.async_body("SubDeviceEeprom::category")
    pr = Prov(b)
    nones = []
    for bi, si, st in q.aggregates(b, "Result", "Ok"):
        r = pr.of_operand(st["rv"]["a"][0]) if st["rv"]["a"] else frozenset()
        if any(x[0] == "agg" and x[1] == "Option" and x[2] == "None" for x in r) and not any(x[0] == "agg" and x[1] == "Option" and x[2] == "Some" for x in r):
            nones.append((bi, si))
    conds_ = q.conds(b)
    allowed = []
    # (a) checked_add failed
    for c in b.calls():
        if (c.decl_s or "").endswith("::checked_add"):
            for sw, okt, errt in q.ok_edges(b, c, ok="Some"):
                if errt is not None:
                    allowed.append(("overrun", q.edge_dominated(b, sw, errt)))
    for cd in conds_:
        # (b) the decoded category is the End marker
        if cd.kind == "discr" and cd.enum_ty and "CategoryType" in cd.enum_ty:
            vt = cd.variant_targets(prog)
            if vt.get("End") is not None:
                allowed.append(("end-marker", q.edge_dominated(b, cd.bb, vt["End"])))
        # (c) a counter reached a constant threshold
        if cd.kind == "cmp" and cd.op in ("Ge", "Gt", "Lt", "Le"):
            l, r = pr.of_operand(cd.lhs), pr.of_operand(cd.rhs)
            for cnt, k in ((l, cd.rhs), (r, cd.lhs)):
                kv = q.const_int(k)
                if kv is not None and kv >= 8 and has_root(cnt, "binop", "Add") and has_root(cnt, "const", 1) and not has_root(cnt, "call"):
                    hit = cd.true_target() if (cd.op in ("Ge", "Gt")) == (cnt is l) else cd.false_target()
                    if hit is not None:
                        allowed.append(("empty-count>=%d" % kv, q.edge_dominated(b, cd.bb, hit)))
    for cd in conds_:
        if cd.kind == "call" and cd.call.is_("PartialEq::eq", "PartialEq::ne"):
            both = pr.of_operand(cd.call.args[0]) | pr.of_operand(cd.call.args[1])
            if any(x[0] == "const" and str(x[1]).endswith("CategoryType::End") for x in both) or any(x[0] == "agg" and x[1] == "CategoryType" and x[2] == "End" for x in both):
                t = cd.true_target() if cd.call.is_("PartialEq::eq") else cd.false_target()
                if t is not None:
                    allowed.append(("end-marker", q.edge_dominated(b, cd.bb, t)))
    kinds = []
    bad = []
    for bi, si in nones:
        ks = sorted({k for k, dom in allowed if bi in dom})
        kinds.append(ks)
        if not ks:
            bad.append(q.loc(b, bi, si))
    rep.ob(P, "gives-up-only-where-the-image-ends" + tag, bool(nones) and not bad, "every Ok(None) of the category walk is reached only at the End marker, on an address overrun, or after the empty-category count reached its threshold: %s%s" % (kinds, (" UNAUDITED exits at %s" % bad) if bad else ""), loc=b.span)



def _slice_root(b, op, depth=8):
    """Identity of the slice an operand denotes: through moves, casts and plain reborrows to the local (or projected
    place) it was first bound as.  `let (chunk, _) = chunk.split_at(n)` makes a *new* root."""
    pl = op_place(op)
    if pl is None:
        return None
    proj = [p for p in pl["p"] if p != "*"]
    if proj or depth < 0:
        return (pl["l"], repr(proj))
    ds = b.defs().get(pl["l"], [])
    if len(ds) == 1 and ds[0][2] == "assign":
        rv = ds[0][3]["rv"]
        if rv["k"] in ("use", "cast") and rv.get("a") and op_place(rv["a"][0]) is not None:
            return _slice_root(b, rv["a"][0], depth - 1)
        if rv["k"] == "ref":
            return _slice_root(b, {"copy": rv["place"]}, depth - 1)
    return (pl["l"], "[]")


def _len_sources(b, op, depth=8):
    """Slice roots whose `.len()` feeds an integer operand (through casts, moves, checked-add tuples and sums)."""
    pl = op_place(op)
    if pl is None or depth < 0:
        return set()
    out = set()
    for d in b.defs().get(pl["l"], []):
        if d[2] == "call":
            c = d[3]
            if (c.decl_s or c.name).endswith("slice::len") and c.args:
                r = _slice_root(b, c.args[0])
                if r is not None:
                    out.add(r)
        elif d[2] == "assign" and not d[3]["place"]["p"]:
            rv = d[3]["rv"]
            if rv["k"] in ("use", "cast", "bin"):
                for a in rv.get("a", []):
                    out |= _len_sources(b, a, depth - 1)
    return out


def _int_roots(b, op, depth=8):
    """Locals an integer operand is a plain copy / cast / sum of."""
    pl = op_place(op)
    if pl is None or depth < 0:
        return set()
    ds = b.defs().get(pl["l"], [])
    if len(ds) == 1 and ds[0][2] == "assign" and not ds[0][3]["place"]["p"] and ds[0][3]["rv"]["k"] in ("use", "cast", "bin"):
        out = set()
        for a in ds[0][3]["rv"].get("a", []):
            out |= _int_roots(b, a, depth - 1)
        return out
    return {pl["l"]}


def _split_len(b, root):
    """`root` is the front part of `x.split_at(n)`: -> the operand n (its length by definition), else None."""
    l, proj = root
    if "'f': 0" not in proj or "tuple" not in proj:
        return None
    ds = b.defs().get(l, [])
    if len(ds) == 1 and ds[0][2] == "call" and (ds[0][3].decl_s or ds[0][3].name).endswith(("slice::split_at", "slice::split_at_mut")) and len(ds[0][3].args) == 2:
        return ds[0][3].args[1]
    return None


def cursor(prog, rep, tag):
    """The read position moves by exactly what was delivered: every `byte_pos +=` adds the length of the very slice
    that is copied into the caller's buffer next to it (the truncated last chunk, not the whole chunk it was cut from).
    The bytes returned by *this* call do not depend on it - the next read on the same range does."""
    P = "C12.read"
    b = prog.async_body("<EepromRange as Read>::read")
    incs = []
    for (bi, si, kind, pl) in q.field_accesses(b, "EepromRange", "byte_pos"):
        if kind != "write":
            continue
        st = b.stmts(bi)[si]
        srcs, ints = set(), set()
        for a in st["rv"].get("a", []):
            srcs |= _len_sources(b, a)
            ints |= _int_roots(b, a)
        incs.append((bi, srcs, ints))
    copies = []
    for c in b.calls():
        if (c.decl_s or c.name).endswith("slice::copy_from_slice") and len(c.args) == 2:
            copies.append((c.bb, _slice_root(b, c.args[1]), c))
    inc_blocks = {bi for bi, _, _ in incs}
    ok = bool(incs) and bool(copies)
    why = []

    def by_len_of(srcs, ints, root):
        """the increment adds len(root): literally, or as the n of `root = x.split_at(n).0`"""
        if srcs == {root}:
            return True
        n = _split_len(b, root) if root is not None else None
        if n is not None and not srcs:
            nr = _int_roots(b, n)
            return bool(nr) and nr <= ints
        return False

    for cb, root, c in copies:
        mates = [(bi, srcs, ints) for bi, srcs, ints in incs if (b.dominates(bi, cb) or b.dominates(cb, bi))]
        if not any(by_len_of(srcs, ints, root) for bi, srcs, ints in mates):
            ok = False
            why.append("the copy at %s has no cursor increment by the length of the slice it copies" % c.span)
    for bi, srcs, ints in incs:
        # copies reached from this increment before any other increment
        seen, todo = set(), list(b.succ(bi))
        while todo:
            x = todo.pop()
            if x in seen or x in inc_blocks:
                continue
            seen.add(x)
            todo += b.succ(x)
        for cb, root, c in copies:
            if (cb in seen or cb == bi) and b.dominates(bi, cb) and not by_len_of(srcs, ints, root):
                ok = False
                why.append("the increment in bb%d adds the length of another slice than the one copied at %s" % (bi, c.span))
    rep.ob(P, "cursor-advances-by-bytes-copied" + tag, ok, "every byte_pos increment adds the length of exactly the slice copied out beside it (%d increments, %d copies)%s" % (len(incs), len(copies), ("; " + "; ".join(why)) if why else ""), loc=b.span, how="dataflow")
