"""WAITLOOP - every loop that waits on a device is bounded.

A *source-level await loop* is a natural loop of an async body that contains a `Yield` and at least one call
that is not await plumbing (each `.await` is itself a poll loop; those are skipped).  Loops whose exit is driven
by an iterator (`for`) are bounded by the iterator.  Every other await loop must be one of:

  poll-until    contains an awaited `Timeouts::loop_tick()` (the crate's idiom for "ask again later"): the loop's
                body must be an async block that the enclosing function passes to `.timeout(<Timeouts::x>())` and
                awaits through that wrapper, with the Timeouts accessor listed for that function;
  audited       listed in AUDITED below together with the rule that bounds it (retry counters, progress
                arguments); a new await loop that is neither fails closed as an unaudited instance.

Decides the structural part of "never hangs / returns an error within the configured timeout / finishes after a
bounded number of device accesses" (C10, C11, C13, C14, C16): remove a `.timeout(..)`, wait on the wrong future, or
add a new unbounded poll loop and the rule reports the function."""
from .core import Prov, has_root, short

PLUMBING = ("future::get_context", "Pin::new_unchecked")
SKIP = ("IntoFuture::into_future", "Try::branch", "FromResidual::from_residual")

# function group -> Timeouts accessor its poll loop must run under
POLL_UNTIL = {
    # None: any Timeouts accessor (the property only needs *a* configured bound)
    "DeviceEeprom::wait_while_busy": None,
    "Coe::wait_for_mailboxes": None,
    "Coe::wait_for_mailbox_response": None,
    "MainDevice::wait_for_state": "Timeouts::state_transition",
    "SubDeviceRef::wait_for_state": "Timeouts::state_transition",
    "SubDeviceGroup::wait_for_state": "Timeouts::state_transition",
}
# function group -> why its (non poll-until, non iterator) await loop ends
AUDITED = {
    "<DeviceEeprom as EepromDataProvider>::write_word": "retry loop bounded by a counter compared with a constant (C14.retry|bounded-retry)",
    "<EepromRange as Read>::read": "every iteration consumes at least one byte of the clamped destination (C12.read clamp, C13 NOPANIC)",
    "<EepromRange as Write>::write": "every iteration consumes one or two bytes of the source buffer (C14.write|range-write)",
    "Coe::send_sdo_info_service": "bounded by a checked fragment counter (C16.loop)",
    "Coe::sdo_read": "segment loop: repeats only after progress, bounded by the destination size (C16.loop)",
    "SubDeviceEeprom::category": "category walk: address strictly increases with checked arithmetic and gives up after 32 empty categories (C13)",
    "SubDeviceGroup::is_state": "frame loop: leaves as soon as a frame takes no further state check, every other iteration consumes at least one member of the finite slice iterator (C10.is_state); its callers run it under the state transition timeout",
    "SubDeviceGroup::tx_rx": "cycle loop: repeats only while bytes of the image remain and every iteration sends a non-empty chunk or leaves (C07.cycle)",
    "SubDeviceGroup::tx_rx_sync_system_time": "as tx_rx",
    "SubDeviceGroup::tx_rx_dc": "as tx_rx",
}


def _loops(b):
    dom = b.dominators()
    m = {}
    for u in dom:
        for v in b.succ(u):
            if v in dom[u]:
                body = {v, u}
                st = [u]
                while st:
                    x = st.pop()
                    if x == v:
                        continue
                    for p in b.pred(x):
                        if p not in body and p in dom:
                            body.add(p)
                            st.append(p)
                m.setdefault(v, set()).update(body)
    return m


def await_loops(prog, in_scope=lambda b: True):
    """-> list of dict(body, header, blocks, iter_driven, poll_until)"""
    out = []
    for b in prog.bodies:
        if b.crate != "ethercrab" or b.d.get("is_test") or not in_scope(b):
            continue
        if not any(blk["term"]["k"] == "yield" for blk in b.blocks):
            continue
        allloops = _loops(b)

        def innermost(x):
            best = None
            for hh, bl in allloops.items():
                if x in bl and (best is None or len(bl) < len(allloops[best])):
                    best = hh
            return best

        for h, body in allloops.items():
            if not any(b.term(x)["k"] == "yield" for x in body):
                continue
            cs = [c for c in b.calls() if c.bb in body]
            real = [c for c in cs if c.decl_s not in PLUMBING and not (c.decl_s or "").endswith("Future::poll")]
            if not real:
                continue
            # iterator driven: a `next()` call inside the loop whose result decides an exit of the loop
            it = False
            for c in cs:
                if (c.name.endswith("::next") or c.name.endswith("::next_sub_item")) and innermost(c.bb) == h:
                    it = True
            tick = any(c.is_("Timeouts::loop_tick") for c in cs)
            out.append({"body": b, "header": h, "blocks": body, "iter": it, "tick": tick, "calls": sorted({c.name for c in real if c.decl_s not in SKIP})})
    return out


def _under_timeout(prog, b, want):
    """b: async block body. True iff the parent passes this block to `.timeout(<want>())` and awaits that."""
    par = b.d.get("parent")
    if not par:
        return False, "loop is not inside an async block"
    from .core import norm

    pb = prog.by_path.get(norm(par))
    if pb is None:
        return False, "parent body not found"
    pr = Prov(pb)
    tos = [c for c in pb.calls() if (c.decl_s or "").endswith("::timeout") or c.name.endswith("IntoTimeout::timeout")]
    me = short(b.path)
    for t in tos:
        r0 = pr.of_operand(t.args[0])
        if not any(x[0] == "closure" and x[1] == me for x in r0):
            continue
        dur = pr.of_operand(t.args[1])
        if want is None:
            acc = [x[1] for x in dur if x[0] == "call" and str(x[1]).startswith("Timeouts::") and x[1] not in ("Timeouts::loop_tick", "Timeouts::wait_loop_delay")]
            if not acc:
                return False, "the timeout duration does not come from a Timeouts accessor"
            want = acc[0]
        elif not has_root(dur, "call", want):
            return False, "the timeout duration does not come from %s()" % want
        polls = pb.calls_to("Future::poll")
        if any(any(x[0] == "call" and len(x) > 2 and x[2] == t.bb for x in pr.of_operand(p.args[0])) for p in polls):
            return True, "awaited through .timeout(%s())" % want
        return False, "the .timeout(..) wrapper is built but something else is awaited"
    return False, "the async block holding the loop is not passed to .timeout(..)"


def _callers_wrap_in_timeout(prog, b):
    """b: the coroutine body of an async helper holding a poll-until loop."""
    from .core import norm

    par = b.d.get("parent")
    if not par:
        return False, "loop is not in an async fn"
    ppath = norm(par)
    sites = []
    for x in prog.bodies:
        for c in x.calls():
            if (c.res and norm(c.res) == ppath) or (c.decl and norm(c.decl) == ppath):
                sites.append((x, c))
    if not sites:
        return False, "no caller found"
    for x, c in sites:
        pr = Prov(x)
        tos = [t for t in x.calls() if ((t.decl_s or "").endswith("::timeout") or t.name.endswith("IntoTimeout::timeout")) and any(r[0] == "call" and len(r) > 2 and r[2] == c.bb for r in pr.of_operand(t.args[0]))]
        if len(tos) != 1:
            return False, "%s does not wrap the helper's future in .timeout(..)" % x.root_short
        dur = pr.of_operand(tos[0].args[1])
        if not any(r[0] == "call" and str(r[1]).startswith("Timeouts::") and r[1] not in ("Timeouts::loop_tick", "Timeouts::wait_loop_delay") for r in dur):
            return False, "%s: the timeout duration is not a Timeouts accessor" % x.root_short
        polls = x.calls_to("Future::poll")
        if not any(any(r[0] == "call" and len(r) > 2 and r[2] == tos[0].bb for r in pr.of_operand(p.args[0])) for p in polls):
            return False, "%s builds the .timeout(..) wrapper but awaits something else" % x.root_short
    return True, "%d call site(s), each awaited through .timeout(Timeouts::..)" % len(sites)


def _counter_bounded(b, L):
    """A loop whose continuation depends on `counter <rel> bound` where the counter is only ever incremented by a
    positive constant inside the loop and the bound is not written in the loop: -> description or None."""
    from . import q

    pr = Prov(b)
    body = L["blocks"]
    for cd in q.conds(b):
        if cd.bb not in body or cd.kind != "cmp" or cd.op not in ("Lt", "Le", "Gt", "Ge"):
            continue
        tt, ft = cd.true_target(), cd.false_target()
        if tt is None or ft is None or ((tt in body) == (ft in body)):
            continue  # not an exit test of this loop
        for cnt_op, bound_op, rel in ((cd.lhs, cd.rhs, cd.op), (cd.rhs, cd.lhs, {"Lt": "Gt", "Gt": "Lt", "Le": "Ge", "Ge": "Le"}[cd.op])):
            # stays in the loop while counter < / <= bound
            stay_rel_true = rel in ("Lt", "Le")
            stay = tt if stay_rel_true else ft
            if stay not in body:
                continue
            cl = q.local_of(cnt_op)
            for _ in range(3):
                ds = b.defs().get(cl, []) if cl is not None else []
                if len(ds) == 1 and ds[0][2] == "assign" and ds[0][3]["rv"]["k"] == "use" and q.local_of(ds[0][3]["rv"]["a"][0]) is not None:
                    cl = q.local_of(ds[0][3]["rv"]["a"][0])
                else:
                    break
            if cl is None:
                continue
            stores = b.defs().get(cl, [])
            inside = [d for d in stores if d[0] in body]
            if not inside:
                continue
            okinc = True
            for d in inside:
                if d[2] != "assign":
                    okinc = False
                    break
                r = pr._of_rvalue(d[3]["rv"])
                if not (has_root(r, "binop", "Add") and any(x[0] == "const" and isinstance(x[-1], int) and x[-1] >= 1 for x in r) and not has_root(r, "binop", "Sub")):
                    okinc = False
            bl = q.local_of(bound_op)
            bound_written = bl is not None and any(d[0] in body and d[2] != "assign" for d in b.defs().get(bl, [])) if False else False
            if okinc and not bound_written:
                return "local _%d is compared with its bound on the loop's exit test and only incremented inside the loop" % cl
    return None


def check(prog, rep, pid, in_scope, tag="", floor=None):
    rule = "%s.bounded" % pid
    n = 0
    for L in await_loops(prog, in_scope):
        b = L["body"]
        if L["iter"]:
            continue
        n += 1
        fn = b.root_short
        loc = b.loc(L["header"])
        if L["tick"]:
            want = POLL_UNTIL.get(fn, "-")
            if want == "-":
                # a polling helper the reference tree does not know: fine if *every* caller passes its future to
                # `.timeout(<Timeouts accessor>)` and awaits that wrapper
                okc, whyc = _callers_wrap_in_timeout(prog, b)
                rep.ob(rule, "%s:poll-loop%s" % (fn, tag), okc, ("the poll-until loop of helper %s is bounded at its call sites: %s" % (fn, whyc)) if okc else "UNAUDITED poll-until loop (awaits Timeouts::loop_tick) in %s: %s" % (fn, whyc), loc=loc)
                continue
            ok, why = _under_timeout(prog, b, want)
            rep.ob(rule, "%s:under-timeout%s" % (fn, tag), ok, "the poll-until loop of %s runs under a timeout: %s" % (fn, why), loc=loc, how="dataflow")
        else:
            cb = _counter_bounded(b, L)
            if cb:
                rep.ob(rule, "%s:bounded%s" % (fn, tag), True, "await loop bounded by a counter: %s" % cb, loc=loc, how="path")
                continue
            why = AUDITED.get(fn)
            rep.ob(rule, "%s:bounded%s" % (fn, tag), why is not None, ("audited: " + why) if why else "UNAUDITED await loop without iterator or timeout in %s (calls %s)" % (fn, L["calls"][:6]), loc=loc, how="audit" if why else "path", nontrivial=why is None)
    if floor is not None:
        rep.floor("%s await loops needing a bound%s" % (pid, tag), n, floor)
    return n


def _file(*prefixes):
    return lambda b: any(b.file.startswith(p) for p in prefixes)


def _groups(*names):
    s = set(names)
    return lambda b: b.root_short in s


# property -> (scope, floor = await loops counted on today's tree)
SCOPES = {
    "C10": (_groups("MainDevice::wait_for_state", "SubDeviceRef::wait_for_state", "SubDeviceGroup::wait_for_state", "SubDeviceGroup::transition_to", "SubDeviceGroup::request_into_op", "SubDeviceGroup::is_state"), 4),
    "C13": (_file("src/eeprom/", "src/subdevice/eeprom.rs"), 5),
    "C14": (lambda b: b.file.startswith("src/eeprom/device_provider.rs") or b.root_short in ("<EepromRange as Write>::write", "SubDeviceEeprom::set_station_alias"), 3),
    "C16": (_file("src/mailbox/"), 4),
}


def check_property(ctx, rep, prog, pid, tag=""):
    scope, floor = SCOPES[pid]
    n = check(prog, rep, pid, scope, tag=tag, floor=floor)
    if not tag:
        rep.decided.append("every loop that waits on the device inside this property's functions is bounded: poll-until loops run under .timeout(<the Timeouts accessor recorded for the function>), other await loops are iterator driven or audited against the rule that bounds them")
    return n
