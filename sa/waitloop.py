"""WAITLOOP - every loop that waits on a device is bounded.

A *source-level await loop* is a natural loop of an async body that contains a `Yield` and at least one call
that is not await plumbing (each `.await` is itself a poll loop; those are skipped).  Loops whose exit is driven
by an iterator (`for`) are bounded by the iterator.  Every other await loop must be one of:

  poll-until    contains an awaited `Timeouts::loop_tick()` (the crate's idiom for "ask again later"): the loop's
                body must be an async block that the enclosing function passes to `.timeout(<Timeouts::x>())` and
                awaits through that wrapper, with the Timeouts accessor listed for that function;
  audited       listed in AUDITED below together with the rule that bounds it (retry counters, progress
                arguments); a new await loop that is neither fails closed as an unaudited instance.

Decides the structural part of "never hangs / returns an error within the configured timeout / finishes after a
bounded number of device accesses" (C10, C11, C13, C14, C16): remove a `.timeout(..)`, wait on the wrong future, or
add a new unbounded poll loop and the rule reports the function."""
from .core import Prov, has_root, short

PLUMBING = ("future::get_context", "Pin::new_unchecked")
SKIP = ("IntoFuture::into_future", "Try::branch", "FromResidual::from_residual")

# function group -> Timeouts accessor its poll loop must run under
POLL_UNTIL = {
    # None: any Timeouts accessor (the property only needs *a* configured bound)
    "DeviceEeprom::wait_while_busy": None,
    "Coe::wait_for_mailboxes": None,
    "Coe::wait_for_mailbox_response": None,
    "MainDevice::wait_for_state": "Timeouts::state_transition",
    "SubDeviceRef::wait_for_state": "Timeouts::state_transition",
    "SubDeviceGroup::wait_for_state": "Timeouts::state_transition",
}
# function group -> why its (non poll-until, non iterator) await loop ends
AUDITED = {
    "<DeviceEeprom as EepromDataProvider>::write_word": "retry loop bounded by a counter compared with a constant (C14.retry|bounded-retry)",
    "<EepromRange as Read>::read": "every iteration consumes at least one byte of the clamped destination (C12.read clamp, C13 NOPANIC)",
    "<EepromRange as Write>::write": "every iteration consumes one or two bytes of the source buffer (C14.write|range-write)",
    "Coe::send_sdo_info_service": "bounded by a checked fragment counter (C16.loop)",
    "Coe::sdo_read": "segment loop: repeats only after progress, bounded by the destination size (C16.loop)",
    "SubDeviceEeprom::category": "category walk: address strictly increases with checked arithmetic and gives up after 32 empty categories (C13)",
    "SubDeviceGroup::is_state": "frame loop: leaves as soon as a frame takes no further state check, every other iteration consumes at least one member of the finite slice iterator (C10.is_state); its callers run it under the state transition timeout",
    "SubDeviceGroup::tx_rx": "cycle loop: repeats only while bytes of the image remain and every iteration sends a non-empty chunk or leaves (C07.cycle)",
    "SubDeviceGroup::tx_rx_sync_system_time": "as tx_rx",
    "SubDeviceGroup::tx_rx_dc": "as tx_rx",
}


def _loops(b):
    dom = b.dominators()
    m = {}
    for u in dom:
        for v in b.succ(u):
            if v in dom[u]:
                body = {v, u}
                st = [u]
                while st:
                    x = st.pop()
                    if x == v:
                        continue
                    for p in b.pred(x):
                        if p not in body and p in dom:
                            body.add(p)
                            st.append(p)
                m.setdefault(v, set()).update(body)
    return m


def await_loops(prog, in_scope=lambda b: True):
    """-> list of dict(body, header, blocks, iter_driven, poll_until)"""
    out = []
    for b in prog.bodies:
        if b.crate != "ethercrab" or b.d.get("is_test") or not in_scope(b):
            continue
        if not any(blk["term"]["k"] == "yield" for blk in b.blocks):
            continue
        allloops = _loops(b)

        def innermost(x):
            best = None
            for hh, bl in allloops.items():
                if x in bl and (best is None or len(bl) < len(allloops[best])):
                    best = hh
            return best

        for h, body in allloops.items():
            if not any(b.term(x)["k"] == "yield" for x in body):
                continue
            cs = [c for c in b.calls() if c.bb in body]
            real = [c for c in cs if c.decl_s not in PLUMBING and not (c.decl_s or "").endswith("Future::poll")]
            if not real:
                continue
            # iterator driven: a `next()` call inside the loop whose result decides an exit of the loop
            it = False
            for c in cs:
                if (c.name.endswith("::next") or c.name.endswith("::next_sub_item")) and innermost(c.bb) == h:
                    it = True
            tick = any(c.is_("Timeouts::loop_tick") for c in cs)
            out.append({"body": b, "header": h, "blocks": body, "iter": it, "tick": tick, "calls": sorted({c.name for c in real if c.decl_s not in SKIP})})
    return out


def _under_timeout(prog, b, want):
    """b: async block body. True iff the parent passes this block to `.timeout(<want>())` and awaits that."""
    par = b.d.get("parent")
    if not par:
        return False, "loop is not inside an async block"
    from .core import norm

    pb = prog.by_path.get(norm(par))
    if pb is None:
        return False, "parent body not found"
    pr = Prov(pb)
    tos = [c for c in pb.calls() if (c.decl_s or "").endswith("::timeout") or c.name.endswith("IntoTimeout::timeout")]
    me = short(b.path)
    for t in tos:
        r0 = pr.of_operand(t.args[0])
        if not any(x[0] == "closure" and x[1] == me for x in r0):
            continue
        dur = pr.of_operand(t.args[1])
        if want is None:
            acc = [x[1] for x in dur if x[0] == "call" and str(x[1]).startswith("Timeouts::") and x[1] not in ("Timeouts::loop_tick", "Timeouts::wait_loop_delay")]
            if not acc:
                return False, "the timeout duration does not come from a Timeouts accessor"
            want = acc[0]
        elif not has_root(dur, "call", want):
            return False, "the timeout duration does not come from %s()" % want
        polls = pb.calls_to("Future::poll")
        if any(any(x[0] == "call" and len(x) > 2 and x[2] == t.bb for x in pr.of_operand(p.args[0])) for p in polls):
            return True, "awaited through .timeout(%s())" % want
        return False, "the .timeout(..) wrapper is built but something else is awaited"
    return False, "the async block holding the loop is not passed to .timeout(..)"


def check(prog, rep, pid, in_scope, tag="", floor=None):
    rule = "%s.bounded" % pid
    n = 0
    for L in await_loops(prog, in_scope):
        b = L["body"]
        if L["iter"]:
            continue
        n += 1
        fn = b.root_short
        loc = b.loc(L["header"])
        if L["tick"]:
            want = POLL_UNTIL.get(fn, "-")
            if want == "-":
                rep.ob(rule, "%s:poll-loop%s" % (fn, tag), False, "UNAUDITED poll-until loop (awaits Timeouts::loop_tick) in %s: no timeout is recorded for it" % fn, loc=loc)
                continue
            ok, why = _under_timeout(prog, b, want)
            rep.ob(rule, "%s:under-timeout%s" % (fn, tag), ok, "the poll-until loop of %s runs under a timeout: %s" % (fn, why), loc=loc, how="dataflow")
        else:
            why = AUDITED.get(fn)
            rep.ob(rule, "%s:bounded%s" % (fn, tag), why is not None, ("audited: " + why) if why else "UNAUDITED await loop without iterator or timeout in %s (calls %s)" % (fn, L["calls"][:6]), loc=loc, how="audit" if why else "path", nontrivial=why is None)
    if floor is not None:
        rep.floor("%s await loops needing a bound%s" % (pid, tag), n, floor)
    return n


def _file(*prefixes):
    return lambda b: any(b.file.startswith(p) for p in prefixes)


def _groups(*names):
    s = set(names)
    return lambda b: b.root_short in s


# property -> (scope, floor = await loops counted on today's tree)
SCOPES = {
    "C10": (_groups("MainDevice::wait_for_state", "SubDeviceRef::wait_for_state", "SubDeviceGroup::wait_for_state", "SubDeviceGroup::transition_to", "SubDeviceGroup::request_into_op", "SubDeviceGroup::is_state"), 4),
    "C13": (_file("src/eeprom/", "src/subdevice/eeprom.rs"), 5),
    "C14": (lambda b: b.file.startswith("src/eeprom/device_provider.rs") or b.root_short in ("<EepromRange as Write>::write", "SubDeviceEeprom::set_station_alias"), 3),
    "C16": (_file("src/mailbox/"), 4),
}


def check_property(ctx, rep, prog, pid, tag=""):
    scope, floor = SCOPES[pid]
    n = check(prog, rep, pid, scope, tag=tag, floor=floor)
    if not tag:
        rep.decided.append("every loop that waits on the device inside this property's functions is bounded: poll-until loops run under .timeout(<the Timeouts accessor recorded for the function>), other await loops are iterator driven or audited against the rule that bounds them")
    return n
