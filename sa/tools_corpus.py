"""Deterministic generator of wire-type definitions for C19 (the derive macro is a program
generator; the corpus widens the set of layouts it is checked on).  The generated code is only
compiled (cargo check) and analysed, never executed."""
import random

INT_TYPES = [("u8", 8), ("u16", 16), ("u32", 32), ("u64", 64), ("i8", 8), ("i16", 16), ("i32", 32), ("i64", 64)]
REPRS = [("u8", 8, False), ("u16", 16, False), ("u32", 32, False), ("i8", 8, True), ("i16", 16, True), ("i32", 32, True), ("u64", 64, False)]


def _small_enum(rnd, name, bits):
    nvar = rnd.randint(2, min(1 << bits, 6))
    vals = rnd.sample(range(0, 1 << bits), nvar)
    lines = ["#[derive(Debug, Copy, Clone, PartialEq, Eq, ethercrab_wire::EtherCrabWireReadWrite)]", "#[repr(u8)]", "pub enum %s {" % name]
    for i, v in enumerate(vals):
        lines.append("    V%d = %s," % (i, rnd.choice(["%d" % v, "0x%02x" % v])))
    lines.append("}")
    return "\n".join(lines)


def _enum(rnd, name, shape):
    repr_, bits, signed = rnd.choice(REPRS)
    if shape in ("catch_all", "default", "catch_all_alt", "default_alt") and repr_ == "u64":
        repr_, bits, signed = "u16", 16, False
    nvar = rnd.randint(1, 8)
    lo = -(1 << (bits - 1)) if signed else 0
    hi = (1 << (bits - 1)) - 1 if signed else (1 << bits) - 1
    lo, hi = max(lo, -5000), min(hi, 5000)
    used = set()
    derive = "EtherCrabWireReadWrite" if rnd.random() < 0.7 else rnd.choice(["EtherCrabWireRead", "EtherCrabWireWrite"])
    extra = ""
    lines = []
    body = []
    cur = None
    implicit_mode = shape in ("implicit_all", "implicit_mixed", "implicit_after_alt")
    for i in range(nvar):
        attrs = []
        alts = []
        if shape == "implicit_all":
            val = 0 if cur is None else cur + 1
            text = None
        elif shape in ("implicit_mixed", "implicit_after_alt") and i > 0 and rnd.random() < 0.6:
            val = cur + 1
            text = None
        else:
            for _ in range(50):
                val = rnd.randint(lo, min(hi, lo + 250) if rnd.random() < 0.7 else hi)
                if val not in used and (val + 1) not in used:
                    break
            text = ("-%d" % -val) if val < 0 else rnd.choice(["%d" % val, "0x%x" % val])
        if val in used or val > hi:
            break
        used.add(val)
        cur = val
        want_alt = (shape == "alternatives" and rnd.random() < 0.5) or (shape == "implicit_after_alt" and i == 0) or (shape in ("catch_all_alt", "default_alt") and (i == 1 or rnd.random() < 0.4))
        if want_alt:
            for _ in range(rnd.randint(1, 3)):
                a = rnd.randint(max(lo, 0), min(hi, 4000))
                if a not in used and (a + 1) not in used and (a - 1) not in used:
                    alts.append(a)
                    used.add(a)
            if alts:
                attrs.append("    #[wire(alternatives = [%s])]" % ", ".join(str(a) for a in alts))
        if shape in ("default", "default_alt") and i == 0:
            attrs.append("    #[default]")
        body += attrs
        body.append("    V%d%s," % (i, "" if text is None else " = %s" % text))
    if shape in ("catch_all", "catch_all_alt"):
        body.append("    #[wire(catch_all)]")
        body.append("    Unknown(%s)," % repr_)
    ders = ["Debug", "Copy", "Clone", "PartialEq", "Eq"]
    if shape in ("default", "default_alt"):
        ders.append("Default")
    lines.append("#[derive(%s, ethercrab_wire::%s)]" % (", ".join(ders), derive))
    lines.append("#[repr(%s)]" % repr_)
    lines.append("pub enum %s {" % name)
    lines += body
    lines.append("}")
    return "\n".join(lines)


def _struct(rnd, name, small_enums, nested, allow_f32_default=False):
    """-> (source, total_bytes)"""
    fields = []
    pos = 0
    nfields = rnd.randint(1, 12)
    derive = rnd.choices(["EtherCrabWireReadWrite", "EtherCrabWireRead", "EtherCrabWireWrite"], [0.6, 0.25, 0.15])[0]
    fi = 0
    while fi < nfields:
        kind = rnd.random()
        if kind < 0.45:
            # packed byte: several sub-byte fields
            used = 0
            first = True
            while used < 8 and fi < nfields:
                room = 8 - used
                pre = rnd.randint(0, min(2, room - 1)) if rnd.random() < 0.3 else 0
                room -= pre
                if room <= 0:
                    break
                w = rnd.randint(1, room)
                choice = rnd.random()
                attrs = []
                if pre:
                    attrs.append("pre_skip = %d" % pre)
                if choice < 0.35:
                    ty, w = "bool", 1
                elif choice < 0.8 or not small_enums:
                    ty = "u8"
                    if w == 8 and used + pre > 0:
                        w = room
                else:
                    cands = [(n, b) for n, b in small_enums if b <= room]
                    if not cands:
                        ty = "u8"
                    else:
                        ty, w = rnd.choice(cands)
                attrs.insert(0, "bits = %d" % w)
                used += pre + w
                post = 0
                if used < 8 and (rnd.random() < 0.35 or fi == nfields - 1):
                    post = 8 - used
                    attrs.append("post_skip = %d" % post)
                    used = 8
                fields.append("    #[wire(%s)]\n    pub f%d: %s," % (", ".join(attrs), fi, ty))
                fi += 1
                first = False
            if used < 8:
                # close the byte with a trailing post_skip on the last field of the byte
                last = fields.pop()
                last = last.replace(")]", ", post_skip = %d)]" % (8 - used), 1)
                fields.append(last)
            pos += 1
        else:
            choice = rnd.random()
            attrs = []
            pre_b = rnd.randint(1, 3) if rnd.random() < 0.15 else 0
            if pre_b:
                attrs.append("pre_skip_bytes = %d" % pre_b)
            if choice < 0.5:
                ty, bits = rnd.choice(INT_TYPES)
                nb = bits // 8
                if rnd.random() < 0.5:
                    attrs.insert(0, "bytes = %d" % nb)
                elif nb >= 1 and rnd.random() < 0.3:
                    attrs.insert(0, "bits = %d" % bits)
            elif choice < 0.65:
                nb = rnd.randint(1, 9)
                ty = "[u8; %d]" % nb
                attrs.insert(0, "bytes = %d" % nb)
            elif choice < 0.85 and nested:
                ty, nb = rnd.choice(nested)
                attrs.insert(0, "bytes = %d" % nb)
            elif choice < 0.93:
                ty, nb = "f64", 8
                if rnd.random() < 0.5:
                    attrs.insert(0, "bytes = 8")
            else:
                ty, nb = "f32", 4
                attrs.insert(0, "bytes = 4")  # only u*/i* have a documented default width
            post_b = rnd.randint(1, 2) if rnd.random() < 0.1 else 0
            if post_b:
                attrs.append("post_skip_bytes = %d" % post_b)
            a = ("    #[wire(%s)]\n" % ", ".join(attrs)) if attrs else ""
            fields.append("%s    pub f%d: %s," % (a, fi, ty))
            pos += pre_b + nb + post_b
            fi += 1
        if rnd.random() < 0.06:
            fields.append("    #[wire(skip)]\n    pub s%d: u32," % fi)
    slack = 0  # the macro requires the field widths to add up exactly
    total = pos + slack
    head = "#[derive(Debug, Clone, PartialEq, ethercrab_wire::%s)]\n#[wire(bytes = %d)]\npub struct %s {\n" % (derive, total, name)
    return head + "\n".join(fields) + "\n}", total, derive


def generate(seed, n):
    rnd = random.Random(seed * 7919 + 17)
    out = ["//! generated by sa/tools_corpus.py seed=%d n=%d - never executed, only compiled and analysed" % (seed, n), "#![allow(dead_code, unused, clippy::all)]", ""]
    small = []
    nested = []
    k = 0
    # nested-eligible small enums and structs first
    for bits in (1, 2, 3, 4, 5, 6):
        for j in range(2):
            nm = "Se%d_%d" % (bits, j)
            out.append(_small_enum(rnd, nm, bits))
            small.append((nm, bits))
            k += 1
    # catch_all_alt / default_alt: a fall-through variant *and* variants with alternative values - the write side must
    # still pack each variant's own discriminant, not one of its alternatives
    shapes = ["explicit", "catch_all_alt", "alternatives", "catch_all", "default", "implicit_all", "implicit_mixed", "implicit_after_alt", "default_alt", "explicit"]
    ne = max(10, n // 4)
    for i in range(ne):
        out.append(_enum(rnd, "En%d" % i, shapes[i % len(shapes)]))
        k += 1
    i = 0
    while k < n:
        src, total, derive = _struct(rnd, "St%d" % i, small, nested, allow_f32_default=(i % 25 == 7))
        out.append(src)
        if derive == "EtherCrabWireReadWrite" and total <= 12 and len(nested) < 12 and "skip)]\n    pub s" not in src:
            nested.append(("St%d" % i, total))
        i += 1
        k += 1
    out.append(WITNESSES)
    return "\n\n".join(out) + "\n"


# Fixed witness declarations (always part of the corpus): layouts the derive accepts silently although the
# generated code cannot implement them.  They make the two generator defects recorded as known findings
# (C19.gen|narrow-int-field|..., C19.gen|signed-subbyte-field|...) visible on every run.
WITNESSES = '''#[derive(Debug, Clone, Copy, PartialEq, ethercrab_wire::EtherCrabWireReadWrite)]
#[wire(bytes = 4)]
pub struct WitnessNarrowU32 {
    #[wire(bits = 24)]
    pub v: u32,
    #[wire(bits = 8)]
    pub t: u8,
}

#[derive(Debug, Clone, Copy, PartialEq, ethercrab_wire::EtherCrabWireReadWrite)]
#[wire(bytes = 1)]
pub struct WitnessSignedNibble {
    #[wire(bits = 4)]
    pub a: i8,
    #[wire(bits = 4)]
    pub b: u8,
}'''


if __name__ == "__main__":
    import sys

    print(generate(int(sys.argv[1]) if len(sys.argv) > 1 else 0, int(sys.argv[2]) if len(sys.argv) > 2 else 40))
