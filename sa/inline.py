"""Helper transparency: make refactors that only move code between functions invisible to the rules.

The rules name the functions of *today's* tree (tables/known_fns.json is the frozen list of every function body
of the workspace crates).  A later tree may differ from it by behaviour-preserving moves:

  rename    a known function disappeared and exactly one new function appeared in the same impl / module with the
            same number of arguments: the new one is renamed back (body path, closure paths, every call site);
  extract   a new synchronous function that today's tree does not know (a helper that was split off): its MIR is
            inlined into every caller (arguments become assignments to its parameters, every `return` becomes an
            assignment to the call's destination followed by a goto to the continuation), up to depth 3; closures
            defined inside the helper are attributed to the caller's function group.

After this, a rule looking at `PduRx::receive_frame` sees the same calls, switches and assignments whether or not
part of it now lives in `PduRx::store_response`.  Nothing here decides a property; it only normalises the program
the rules look at, and everything it did is listed in the evidence (`analysed.helpers_inlined / renamed`).
An awaited `async fn` helper is inlined too: its coroutine body replaces the poll of its future (parameters become
fresh locals assigned at the call, `return v` becomes `poll_result = Poll::Ready(v)`)."""
import copy
import json
import os

from .core import norm

VERIF = os.path.dirname(os.path.dirname(os.path.abspath(__file__)))
KNOWN = os.path.join(VERIF, "tables", "known_fns.json")
MAX_DEPTH = 3
MAX_BLOCKS = 400


def _is_fn(bd):
    return bd["kind"] in ("Fn", "AssocFn") and not bd.get("coroutine")


def fn_index(raw):
    out = {}
    for cname, c in raw.items():
        if cname.endswith("#test"):
            continue
        for bd in c["bodies"]:
            if _is_fn(bd):
                out[norm(bd["path"])] = {"crate": cname, "args": bd["arg_count"]}
    return out


def load_known():
    if not os.path.exists(KNOWN):
        return None
    with open(KNOWN) as fh:
        return json.load(fh)["fns"]


# ------------------------------------------------------------------------------------------------
# remapping


def _place(pl, lm):
    return {"l": lm(pl["l"]), "p": [({"idx": lm(p["idx"])} if isinstance(p, dict) and "idx" in p else copy.copy(p)) for p in pl["p"]]}


def _operand(op, lm):
    if "copy" in op:
        return {"copy": _place(op["copy"], lm)}
    if "move" in op:
        return {"move": _place(op["move"], lm)}
    return copy.deepcopy(op)


def _rvalue(rv, lm):
    r = {k: v for k, v in rv.items() if k not in ("a", "place")}
    if "a" in rv:
        r["a"] = [_operand(a, lm) for a in rv["a"]]
    if "place" in rv:
        r["place"] = _place(rv["place"], lm)
    return r


def _stmt(s, lm):
    if s["k"] == "assign":
        r = dict(s)
        r["place"] = _place(s["place"], lm)
        r["rv"] = _rvalue(s["rv"], lm)
        return r
    if s["k"] == "dead":
        return {"k": "dead", "l": lm(s["l"])}
    return copy.deepcopy(s)


def _term(t, lm, bm):
    r = dict(t)
    for k in ("t", "unwind", "otherwise"):
        if isinstance(t.get(k), int):
            r[k] = bm(t[k])
    if "arms" in t:
        r["arms"] = [[a[0], bm(a[1])] for a in t["arms"]]
    if "args" in t:
        r["args"] = [_operand(a, lm) for a in t["args"]]
    if "ops" in t:
        r["ops"] = [_operand(a, lm) for a in t["ops"]]
    for k in ("d", "cond", "v"):
        if isinstance(t.get(k), dict):
            r[k] = _operand(t[k], lm)
    for k in ("dest", "place", "resume_arg"):
        if isinstance(t.get(k), dict) and "l" in t[k]:
            r[k] = _place(t[k], lm)
    return r


def inline_one(caller, bi, callee):
    """Splice `callee` (raw body dict) into `caller` at the call terminating block `bi`."""
    T = caller["blocks"][bi]["term"]
    loff = len(caller["locals"])
    boff = len(caller["blocks"])
    lm = lambda l: l + loff  # noqa: E731
    bm = lambda b: b + boff  # noqa: E731
    caller["locals"] += copy.deepcopy(callee["locals"])
    for e in callee.get("dbg", []):
        pl = e["place"]
        caller.setdefault("dbg", []).append({"n": e["n"], "place": _place(pl, lm)})
    cont = T.get("t")
    for blk in callee["blocks"]:
        nb = {"cleanup": blk.get("cleanup", False), "stmts": [_stmt(s, lm) for s in blk["stmts"]], "inl": callee["path"]}
        t = blk["term"]
        if t["k"] == "return":
            nb["stmts"].append({"k": "assign", "place": copy.deepcopy(T["dest"]), "rv": {"k": "use", "a": [{"move": {"l": lm(0), "p": []}}]}, "sp": T.get("sp"), "expn": None, "inlined_ret": callee["path"]})
            nb["term"] = {"k": "goto", "t": cont} if cont is not None else {"k": "unreachable"}
        elif t["k"] == "resume":
            nb["term"] = {"k": "goto", "t": T["unwind"]} if isinstance(T.get("unwind"), int) else {"k": "resume"}
        else:
            nb["term"] = _term(t, lm, bm)
        if "tsp" in blk:
            nb["tsp"] = blk["tsp"]
        caller["blocks"].append(nb)
    head = caller["blocks"][bi]
    for i, a in enumerate(T["args"]):
        head["stmts"].append({"k": "assign", "place": {"l": lm(1 + i), "p": []}, "rv": {"k": "use", "a": [copy.deepcopy(a)]}, "sp": T.get("sp"), "expn": None, "inlined_arg": callee["path"]})
    head["term"] = {"k": "goto", "t": bm(0)}
    head["inlined_call"] = callee["path"]
    thread_returns(caller, lm(0), T["dest"], cont, boff, callee["path"])


# ------------------------------------------------------------------------------------------------
# jump threading over an inlined helper's return value


def thread_returns(caller, ret_local, dest, cont, first_new, path):
    """After inlining, every `return` of the helper funnels through one block that copies the helper's `_0` into the
    call's destination and jumps to the continuation, where the caller typically branches on it at once
    (`if let Err(e) = helper(..)`, `match helper(..)`, `if helper(..)`).  Path-insensitive rules would see every arm of
    that branch after every return.  Where the helper assigns a *known* variant / bool to its `_0` and reaches its return
    through straight-line blocks, that path is given its own copy of the tail and jumps straight to the arm that
    variant selects."""
    blocks = caller["blocks"]
    if cont is None:
        return 0
    cb = blocks[cont]
    # what does the continuation branch on?
    t = cb["term"]
    try_call = None
    if t["k"] == "call" and t.get("callee") == "std::ops::Try::branch" and isinstance(t.get("t"), int) and not [x for x in cb["stmts"] if x["k"] == "assign"]:
        # `helper(..)?`: the continuation hands the result to Try::branch and the block after that switches on the
        # ControlFlow it returns (Ok/Some -> Continue = 0, Err/None -> Break = 1)
        a0 = t["args"][0].get("move") or t["args"][0].get("copy")
        nb2 = blocks[t["t"]]
        as2 = [x for x in nb2["stmts"] if x["k"] == "assign"]
        sty = t.get("self_ty") or ""
        if (a0 and a0["l"] == dest["l"] and not a0["p"] and not dest["p"] and nb2["term"]["k"] == "switch" and len(as2) == 1 and as2[0]["rv"]["k"] == "discr"
                and as2[0]["rv"]["place"]["l"] == t["dest"]["l"] and not as2[0]["rv"]["place"]["p"]
                and (nb2["term"]["d"].get("move") or nb2["term"]["d"].get("copy") or {}).get("l") == as2[0]["place"]["l"]
                and sty.startswith(("std::result::Result", "core::result::Result", "std::option::Option", "core::option::Option"))):
            try_call = (t, nb2, {0: 0, 1: 1} if "Result" in sty.split("<")[0] else {0: 1, 1: 0})
            t = nb2["term"]
    if t["k"] != "switch":
        return 0
    dpl = t["d"].get("move") or t["d"].get("copy")
    if dpl is None or dpl["p"]:
        return 0
    mode = None
    if try_call is not None:
        mode = "discr"
    elif dpl["l"] == dest["l"] and not dest["p"] and not [x for x in cb["stmts"] if x["k"] == "assign"]:
        mode = "bool"
    else:
        as_ = [x for x in cb["stmts"] if x["k"] == "assign"]
        if len(as_) == 1 and as_[0]["rv"]["k"] == "discr" and as_[0]["place"]["l"] == dpl["l"] and as_[0]["rv"]["place"]["l"] == dest["l"] and not as_[0]["rv"]["place"]["p"] and not dest["p"]:
            mode = "discr"
    if mode is None:
        return 0

    def arm_for(v):
        for a in t["arms"]:
            if a[0] == v:
                return a[1]
        return t["otherwise"]

    n = 0
    nb0 = len(blocks)
    for bi in range(first_new, nb0):
        blk = blocks[bi]
        if blk.get("cleanup") or blk.get("inl") != path:
            continue
        # last assignment to the helper's return local in this block
        val = None
        for st in blk["stmts"]:
            if st["k"] == "assign" and st["place"]["l"] == ret_local and not st["place"]["p"]:
                rv = st["rv"]
                val = None
                if mode == "discr" and rv["k"] == "agg" and rv.get("ak") == "adt" and rv.get("is_enum") and rv.get("vi") is not None:
                    val = rv["vi"]
                elif mode == "bool" and rv["k"] == "use" and isinstance(rv["a"][0].get("const", {}).get("v"), (int, bool)):
                    val = int(rv["a"][0]["const"]["v"])
        if val is None:
            continue
        # follow straight-line successors up to the inlined return block (the one that assigns `dest` and goes to cont)
        chain = []
        cur = blk["term"]
        ok = False
        seen = 0
        while seen < 12:
            seen += 1
            if cur["k"] in ("goto", "drop") and isinstance(cur.get("t"), int):
                nxt = cur["t"]
            else:
                break
            nblk = blocks[nxt]
            if nblk.get("inl") != path or any(st["k"] == "assign" and st["place"]["l"] == ret_local for st in nblk["stmts"]):
                break
            chain.append(nxt)
            if nblk["term"]["k"] == "goto" and nblk["term"].get("t") == cont and any(st.get("inlined_ret") for st in nblk["stmts"]):
                ok = True
                break
            cur = nblk["term"]
        if not ok:
            continue
        # clone the chain, last clone jumps to the selected arm (the continuation's own statements are re-done there)
        prev = bi
        for idx, cbi in enumerate(chain):
            cl = copy.deepcopy(blocks[cbi])
            blocks.append(cl)
            new_i = len(blocks) - 1
            pt = blocks[prev]["term"]
            pt["t"] = new_i
            prev = new_i
        last = blocks[prev]
        last["stmts"] += copy.deepcopy(cb["stmts"])
        if try_call is not None:
            call_t, nb2, vmap = try_call
            blocks.append({"cleanup": False, "inl": path, "stmts": copy.deepcopy(nb2["stmts"]), "term": {"k": "goto", "t": arm_for(vmap.get(val, val))}})
            last["term"] = copy.deepcopy(call_t)
            last["term"]["t"] = len(blocks) - 1
        else:
            last["term"] = {"k": "goto", "t": arm_for(val)}
        n += 1
    return n


def transform(raw):
    """Rename / inline in place.  -> report dict (also stored as raw['ethercrab']['_inline'])."""
    rep = {"renamed": [], "inlined": [], "not_inlined": []}
    known = load_known()
    if known is None:
        return rep
    present = fn_index(raw)
    unknown = {p for p in present if p not in known}
    missing = {p for p in known if p not in present and known[p]["crate"] in raw}
    if not unknown:
        return rep
    # ---- renames
    def parent(p):
        return p.rsplit("::", 1)[0] if "::" in p else ""

    ren = {}
    for u in sorted(unknown):
        cands = [m for m in missing if parent(m) == parent(u) and known[m]["args"] == present[u]["args"]]
        others = [x for x in unknown if x != u and parent(x) == parent(u) and present[x]["args"] == present[u]["args"]]
        if len(cands) == 1 and not others:
            ren[u] = cands[0]
    if ren:
        _apply_renames(raw, ren)
        for u, m in ren.items():
            rep["renamed"].append("%s -> %s" % (u, m))
            unknown.discard(u)
            missing.discard(m)
    # ---- inlining of unknown synchronous helpers
    bodies = {}
    for cname, c in raw.items():
        if cname.endswith("#test"):
            continue
        for bd in c["bodies"]:
            bodies[norm(bd["path"])] = bd
    helpers = {}
    async_helpers = {}
    for u in sorted(unknown):
        bd = bodies.get(u)
        if bd is None:
            continue
        coros = [x for x in raw[present[u]["crate"]]["bodies"] if x.get("coroutine") and x.get("parent") and norm(x["parent"]) == u]
        if coros:
            if len(coros) == 1 and len(coros[0]["blocks"]) <= MAX_BLOCKS:
                async_helpers[u] = (bd, coros[0])
            else:
                rep["not_inlined"].append(u + " (async, too large)")
            continue
        if len(bd["blocks"]) > MAX_BLOCKS:
            rep["not_inlined"].append(u + " (too large)")
            continue
        helpers[u] = bd
    if helpers:
        for depth in range(MAX_DEPTH):
            changed = False
            for cname, c in raw.items():
                if cname.endswith("#test"):
                    continue
                for bd in c["bodies"]:
                    me = norm(bd["path"])
                    for bi in range(len(bd["blocks"])):
                        t = bd["blocks"][bi]["term"]
                        if t["k"] != "call":
                            continue
                        tgt = None
                        for k in ("res", "callee"):
                            if t.get(k) and norm(t[k]) in helpers:
                                tgt = norm(t[k])
                                break
                        if tgt is None or tgt == me or len(bd["blocks"]) > 4 * MAX_BLOCKS:
                            continue
                        inline_one(bd, bi, helpers[tgt])
                        rep["inlined"].append("%s into %s" % (tgt, me))
                        # closures of the helper now belong to the caller's group
                        for x in c["bodies"]:
                            if x is not bd and norm(x["path"]) != tgt and norm(x.get("root", "")) == tgt:
                                x["root"] = bd["root"]
                        changed = True
            if not changed:
                break
        # a helper that is now part of all its callers is not analysed a second time as a function of its own
        still_called = set()
        for cname, c in raw.items():
            for bd in c["bodies"]:
                for blk in bd["blocks"]:
                    t = blk["term"]
                    if t["k"] == "call":
                        for k in ("res", "callee"):
                            if t.get(k) and norm(t[k]) in helpers and norm(bd["path"]) != norm(t[k]):
                                still_called.add(norm(t[k]))
        for cname, c in raw.items():
            if cname.endswith("#test"):
                continue
            c["bodies"] = [bd for bd in c["bodies"] if not (norm(bd["path"]) in helpers and norm(bd["path"]) not in still_called and any(x.startswith(norm(bd["path"]) + " into ") for x in rep["inlined"]))]
    if async_helpers:
        done = set()
        failed = set()
        for depth in range(MAX_DEPTH):
            changed = False
            for cname, c in raw.items():
                if cname.endswith("#test"):
                    continue
                for bd in c["bodies"]:
                    me = norm(bd["path"])
                    for bi in range(len(bd["blocks"])):
                        t = bd["blocks"][bi]["term"]
                        if t["k"] != "call":
                            continue
                        tgt = None
                        for k in ("res", "callee"):
                            if t.get(k) and norm(t[k]) in async_helpers:
                                tgt = norm(t[k])
                                break
                        if tgt is None or me == tgt or me == norm(async_helpers[tgt][1]["path"]) or len(bd["blocks"]) > 6 * MAX_BLOCKS:
                            continue
                        if inline_async_one(bd, bi, async_helpers[tgt][1]):
                            rep["inlined"].append("%s (async) into %s" % (tgt, me))
                            done.add(tgt)
                            cp = norm(async_helpers[tgt][1]["path"])
                            for x in c["bodies"]:
                                if x is not bd and norm(x["path"]) not in (tgt, cp) and norm(x.get("root", "")) == tgt:
                                    x["root"] = bd["root"]
                            changed = True
                        else:
                            failed.add(tgt)
            if not changed:
                break
        for tgt in failed:
            rep["not_inlined"].append(tgt + " (async: await pattern not recognised at some call site)")
        gone = {t for t in done if t not in failed}
        gone_paths = gone | {norm(async_helpers[t][1]["path"]) for t in gone}
        for cname, c in raw.items():
            if cname.endswith("#test"):
                continue
            c["bodies"] = [bd for bd in c["bodies"] if norm(bd["path"]) not in gone_paths]
    for c in raw.values():
        c.setdefault("_inline", rep)
    return rep


# ------------------------------------------------------------------------------------------------
# async helpers: `helper(args).await` inside another async body


def _future_locals(caller, f):
    """Locals the future created in `f` travels through before it is polled (into_future, plain moves)."""
    S = {f}
    changed = True
    while changed:
        changed = False
        for blk in caller["blocks"]:
            for st in blk["stmts"]:
                if st["k"] == "assign" and st["rv"]["k"] == "use" and not st["place"]["p"]:
                    a = st["rv"]["a"][0]
                    pl = a.get("move") or a.get("copy")
                    if pl and not pl["p"] and pl["l"] in S and st["place"]["l"] not in S:
                        S.add(st["place"]["l"])
                        changed = True
            t = blk["term"]
            if t["k"] == "call" and (t.get("callee") or "").endswith("IntoFuture::into_future") and t["args"]:
                a = t["args"][0]
                pl = a.get("move") or a.get("copy")
                if pl and not pl["p"] and pl["l"] in S and t["dest"]["l"] not in S:
                    S.add(t["dest"]["l"])
                    changed = True
    return S


def _poll_of(caller, S, coro_path):
    """Index of the block whose terminator polls the coroutine `coro_path` through a future local in S."""
    refs = {}
    for blk in caller["blocks"]:
        for st in blk["stmts"]:
            if st["k"] == "assign" and st["rv"]["k"] in ("ref", "rawptr") and not st["place"]["p"]:
                src = st["rv"]["place"]["l"]
                refs[st["place"]["l"]] = refs.get(src, src) if st["rv"]["place"]["p"] == ["*"] else src
    for _ in range(3):
        for k, v in list(refs.items()):
            if v in refs:
                refs[k] = refs[v]
    pins = {}
    for blk in caller["blocks"]:
        t = blk["term"]
        if t["k"] == "call" and (t.get("callee") or "").endswith("::new_unchecked") and t["args"]:
            pl = t["args"][0].get("move") or t["args"][0].get("copy")
            if pl and not pl["p"]:
                pins[t["dest"]["l"]] = refs.get(pl["l"], pl["l"])
    for bi, blk in enumerate(caller["blocks"]):
        t = blk["term"]
        if t["k"] == "call" and (t.get("callee") or "").endswith("Future::poll") and t.get("res") and norm(t["res"]) == coro_path and t["args"]:
            pl = t["args"][0].get("move") or t["args"][0].get("copy")
            if pl and not pl["p"] and pins.get(pl["l"]) in S:
                return bi
    return None


def inline_async_one(caller, call_bi, coro):
    """`caller` awaits the async helper whose coroutine body is `coro`: replace the poll of that future by the
    coroutine's blocks.  The helper's parameters (the coroutine's upvars) become fresh locals assigned at the call;
    every `return` of the coroutine becomes `poll_result = Poll::Ready(value)` followed by a goto to the block after
    the poll, so the caller's own Ready / Pending handling stays as it is (the Pending arm is simply dead)."""
    T = caller["blocks"][call_bi]["term"]
    S = _future_locals(caller, T["dest"]["l"])
    pbi = _poll_of(caller, S, norm(coro["path"]))
    if pbi is None:
        return False
    P = caller["blocks"][pbi]["term"]
    # fresh locals for the helper's parameters
    up = {}
    ups = {}
    for blk in coro["blocks"]:
        for st in blk["stmts"]:
            for pl in _places_of_stmt(st):
                _note_upvars(pl, ups)
        for pl in _places_of_term(blk["term"]):
            _note_upvars(pl, ups)
    for k in range(len(T["args"])):
        caller["locals"].append({"ty": ups.get(k, "?")})
        up[k] = len(caller["locals"]) - 1
    loff = len(caller["locals"])
    boff = len(caller["blocks"])
    caller["locals"] += copy.deepcopy(coro["locals"])

    def lm(l):
        return l + loff

    def bm(b):
        return b + boff

    def place(pl):
        if pl["l"] == 1:
            ps = pl["p"]
            i = 0
            while i < len(ps) and ps[i] == "*":
                i += 1
            if i < len(ps) and isinstance(ps[i], dict) and ps[i].get("k") == "upvar" and ps[i]["f"] in up:
                return {"l": up[ps[i]["f"]], "p": [({"idx": lm(p["idx"])} if isinstance(p, dict) and "idx" in p else copy.copy(p)) for p in ps[i + 1:]]}
        return _place(pl, lm)

    def operand(op):
        if "copy" in op:
            return {"copy": place(op["copy"])}
        if "move" in op:
            return {"move": place(op["move"])}
        return copy.deepcopy(op)

    def stmt(st):
        if st["k"] == "assign":
            r = dict(st)
            r["place"] = place(st["place"])
            rv = st["rv"]
            nrv = {k: v for k, v in rv.items() if k not in ("a", "place")}
            if "a" in rv:
                nrv["a"] = [operand(a) for a in rv["a"]]
            if "place" in rv:
                nrv["place"] = place(rv["place"])
            r["rv"] = nrv
            return r
        if st["k"] == "dead":
            return {"k": "dead", "l": lm(st["l"])}
        return copy.deepcopy(st)

    def term(t):
        r = dict(t)
        for k in ("t", "unwind", "otherwise"):
            if isinstance(t.get(k), int):
                r[k] = bm(t[k])
        if "arms" in t:
            r["arms"] = [[a[0], bm(a[1])] for a in t["arms"]]
        if "args" in t:
            r["args"] = [operand(a) for a in t["args"]]
        if "ops" in t:
            r["ops"] = [operand(a) for a in t["ops"]]
        for k in ("d", "cond", "v"):
            if isinstance(t.get(k), dict):
                r[k] = operand(t[k])
        for k in ("dest", "place", "resume_arg"):
            if isinstance(t.get(k), dict) and "l" in t[k]:
                r[k] = place(t[k])
        return r

    for e in coro.get("dbg", []):
        pl = e["place"]
        caller.setdefault("dbg", []).append({"n": e["n"], "place": place(pl)})
    cont = P.get("t")
    for blk in coro["blocks"]:
        nb = {"cleanup": blk.get("cleanup", False), "stmts": [stmt(x) for x in blk["stmts"]], "inl": coro["path"]}
        t = blk["term"]
        if t["k"] == "return":
            nb["stmts"].append({"k": "assign", "place": copy.deepcopy(P["dest"]), "rv": {"k": "agg", "ak": "adt", "adt": "core::task::Poll", "variant": "Ready", "vi": 0, "is_enum": True, "args": "[]", "fields": ["0"], "a": [{"move": {"l": lm(0), "p": []}}]}, "sp": P.get("sp"), "expn": None, "inlined_ret": coro["path"]})
            nb["term"] = {"k": "goto", "t": cont} if cont is not None else {"k": "unreachable"}
        elif t["k"] == "resume":
            nb["term"] = {"k": "goto", "t": P["unwind"]} if isinstance(P.get("unwind"), int) else {"k": "resume"}
        elif t["k"] == "coroutine_drop":
            nb["term"] = {"k": "unreachable"}
        else:
            nb["term"] = term(t)
        if "tsp" in blk:
            nb["tsp"] = blk["tsp"]
        caller["blocks"].append(nb)
    head = caller["blocks"][call_bi]
    for k, a in enumerate(T["args"]):
        head["stmts"].append({"k": "assign", "place": {"l": up[k], "p": []}, "rv": {"k": "use", "a": [copy.deepcopy(a)]}, "sp": T.get("sp"), "expn": None, "inlined_arg": coro["path"]})
    head["term"] = {"k": "goto", "t": T["t"]} if T.get("t") is not None else {"k": "unreachable"}
    head["inlined_call"] = coro["path"]
    caller["blocks"][pbi]["term"] = {"k": "goto", "t": bm(0)}
    # the poll result is always Ready now: cut the Pending arm (it would make the whole inlined body look like the
    # body of the caller's await loop)
    if cont is not None:
        ct = caller["blocks"][cont]["term"]
        if ct["k"] == "switch" and len(ct["arms"]) == 2 and sorted(a[0] for a in ct["arms"]) == [0, 1]:
            caller["blocks"].append({"cleanup": False, "stmts": [], "term": {"k": "unreachable"}, "inl": coro["path"]})
            dead = len(caller["blocks"]) - 1
            ct["arms"] = [[a[0], a[1] if a[0] == 0 else dead] for a in ct["arms"]]
    return True


def _places_of_stmt(st):
    out = []
    if st["k"] == "assign":
        out.append(st["place"])
        rv = st["rv"]
        for a in rv.get("a", []):
            pl = a.get("copy") or a.get("move")
            if pl:
                out.append(pl)
        if "place" in rv:
            out.append(rv["place"])
    return out


def _places_of_term(t):
    out = []
    for a in t.get("args", []) + t.get("ops", []):
        pl = a.get("copy") or a.get("move")
        if pl:
            out.append(pl)
    for k in ("d", "cond", "v"):
        if isinstance(t.get(k), dict):
            pl = t[k].get("copy") or t[k].get("move")
            if pl:
                out.append(pl)
    for k in ("dest", "place", "resume_arg"):
        if isinstance(t.get(k), dict) and "l" in t[k]:
            out.append(t[k])
    return out


def _note_upvars(pl, ups):
    if pl["l"] != 1:
        return
    for p in pl["p"]:
        if p == "*":
            continue
        if isinstance(p, dict) and p.get("k") == "upvar":
            ups.setdefault(p["f"], p.get("ty", "?"))
        break


def _apply_renames(raw, ren):
    """ren: new path -> old path (normalised).  Raw strings carry generics, so match on norm() and rewrite by
    replacing the last path segment."""
    def fix(s):
        if not s:
            return s
        n = norm(s)
        for u, m in ren.items():
            if n == u or n.startswith(u + "::"):
                new_last = u.rsplit("::", 1)[-1]
                old_last = m.rsplit("::", 1)[-1]
                # replace the segment `::new_last` (followed by end, `::` or `<`) once, from the right
                idx = s.rfind("::" + new_last)
                while idx >= 0:
                    end = idx + 2 + len(new_last)
                    if end == len(s) or s[end] in ":<":
                        return s[:idx] + "::" + old_last + s[end:]
                    idx = s.rfind("::" + new_last, 0, idx)
        return s

    for c in raw.values():
        for bd in c["bodies"]:
            for k in ("path", "root", "parent"):
                if bd.get(k):
                    bd[k] = fix(bd[k])
            for blk in bd["blocks"]:
                t = blk["term"]
                if t["k"] == "call":
                    for k in ("callee", "res"):
                        if t.get(k):
                            t[k] = fix(t[k])
                for s in blk["stmts"]:
                    if s["k"] == "assign" and s["rv"]["k"] == "agg" and s["rv"].get("def"):
                        s["rv"]["def"] = fix(s["rv"]["def"])
        for f in c.get("fns", []):
            if f.get("path"):
                f["path"] = fix(f["path"])


def write_known(raw, path=KNOWN, index=None):
    with open(path, "w") as fh:
        json.dump({"_doc": "every function body (not closures) of the workspace crates on the reference tree: normalised path -> crate, argument count. Used by sa/inline.py to recognise helpers that a later tree split off (inlined into their callers) and renamed functions. Regenerate with tools/gen_known_fns.py only when the reference tree changes.", "fns": index if index is not None else fn_index(raw)}, fh, indent=0, sort_keys=True)
