"""Helper transparency: make refactors that only move code between functions invisible to the rules.

The rules name the functions of *today's* tree (tables/known_fns.json is the frozen list of every function body
of the workspace crates).  A later tree may differ from it by behaviour-preserving moves:

  rename    a known function disappeared and exactly one new function appeared in the same impl / module with the
            same number of arguments: the new one is renamed back (body path, closure paths, every call site);
  extract   a new synchronous function that today's tree does not know (a helper that was split off): its MIR is
            inlined into every caller (arguments become assignments to its parameters, every `return` becomes an
            assignment to the call's destination followed by a goto to the continuation), up to depth 3; closures
            defined inside the helper are attributed to the caller's function group.

After this, a rule looking at `PduRx::receive_frame` sees the same calls, switches and assignments whether or not
part of it now lives in `PduRx::store_response`.  Nothing here decides a property; it only normalises the program
the rules look at, and everything it did is listed in the evidence (`analysed.helpers_inlined / renamed`).
Async helpers (a new `async fn`) are not inlined (their body is a separate coroutine); rules then see an opaque
call, as before."""
import copy
import json
import os

from .core import norm

VERIF = os.path.dirname(os.path.dirname(os.path.abspath(__file__)))
KNOWN = os.path.join(VERIF, "tables", "known_fns.json")
MAX_DEPTH = 3
MAX_BLOCKS = 400


def _is_fn(bd):
    return bd["kind"] in ("Fn", "AssocFn") and not bd.get("coroutine")


def fn_index(raw):
    out = {}
    for cname, c in raw.items():
        if cname.endswith("#test"):
            continue
        for bd in c["bodies"]:
            if _is_fn(bd):
                out[norm(bd["path"])] = {"crate": cname, "args": bd["arg_count"]}
    return out


def load_known():
    if not os.path.exists(KNOWN):
        return None
    with open(KNOWN) as fh:
        return json.load(fh)["fns"]


# ------------------------------------------------------------------------------------------------
# remapping


def _place(pl, lm):
    return {"l": lm(pl["l"]), "p": [({"idx": lm(p["idx"])} if isinstance(p, dict) and "idx" in p else copy.copy(p)) for p in pl["p"]]}


def _operand(op, lm):
    if "copy" in op:
        return {"copy": _place(op["copy"], lm)}
    if "move" in op:
        return {"move": _place(op["move"], lm)}
    return copy.deepcopy(op)


def _rvalue(rv, lm):
    r = {k: v for k, v in rv.items() if k not in ("a", "place")}
    if "a" in rv:
        r["a"] = [_operand(a, lm) for a in rv["a"]]
    if "place" in rv:
        r["place"] = _place(rv["place"], lm)
    return r


def _stmt(s, lm):
    if s["k"] == "assign":
        r = dict(s)
        r["place"] = _place(s["place"], lm)
        r["rv"] = _rvalue(s["rv"], lm)
        return r
    if s["k"] == "dead":
        return {"k": "dead", "l": lm(s["l"])}
    return copy.deepcopy(s)


def _term(t, lm, bm):
    r = dict(t)
    for k in ("t", "unwind", "otherwise"):
        if isinstance(t.get(k), int):
            r[k] = bm(t[k])
    if "arms" in t:
        r["arms"] = [[a[0], bm(a[1])] for a in t["arms"]]
    if "args" in t:
        r["args"] = [_operand(a, lm) for a in t["args"]]
    if "ops" in t:
        r["ops"] = [_operand(a, lm) for a in t["ops"]]
    for k in ("d", "cond", "v"):
        if isinstance(t.get(k), dict):
            r[k] = _operand(t[k], lm)
    for k in ("dest", "place", "resume_arg"):
        if isinstance(t.get(k), dict) and "l" in t[k]:
            r[k] = _place(t[k], lm)
    return r


def inline_one(caller, bi, callee):
    """Splice `callee` (raw body dict) into `caller` at the call terminating block `bi`."""
    T = caller["blocks"][bi]["term"]
    loff = len(caller["locals"])
    boff = len(caller["blocks"])
    lm = lambda l: l + loff  # noqa: E731
    bm = lambda b: b + boff  # noqa: E731
    caller["locals"] += copy.deepcopy(callee["locals"])
    for e in callee.get("dbg", []):
        pl = e["place"]
        caller.setdefault("dbg", []).append({"n": e["n"], "place": _place(pl, lm)})
    cont = T.get("t")
    for blk in callee["blocks"]:
        nb = {"cleanup": blk.get("cleanup", False), "stmts": [_stmt(s, lm) for s in blk["stmts"]]}
        t = blk["term"]
        if t["k"] == "return":
            nb["stmts"].append({"k": "assign", "place": copy.deepcopy(T["dest"]), "rv": {"k": "use", "a": [{"move": {"l": lm(0), "p": []}}]}, "sp": T.get("sp"), "expn": None, "inlined_ret": callee["path"]})
            nb["term"] = {"k": "goto", "t": cont} if cont is not None else {"k": "unreachable"}
        elif t["k"] == "resume":
            nb["term"] = {"k": "goto", "t": T["unwind"]} if isinstance(T.get("unwind"), int) else {"k": "resume"}
        else:
            nb["term"] = _term(t, lm, bm)
        if "tsp" in blk:
            nb["tsp"] = blk["tsp"]
        caller["blocks"].append(nb)
    head = caller["blocks"][bi]
    for i, a in enumerate(T["args"]):
        head["stmts"].append({"k": "assign", "place": {"l": lm(1 + i), "p": []}, "rv": {"k": "use", "a": [copy.deepcopy(a)]}, "sp": T.get("sp"), "expn": None, "inlined_arg": callee["path"]})
    head["term"] = {"k": "goto", "t": bm(0)}
    head["inlined_call"] = callee["path"]


def transform(raw):
    """Rename / inline in place.  -> report dict (also stored as raw['ethercrab']['_inline'])."""
    rep = {"renamed": [], "inlined": [], "not_inlined": []}
    known = load_known()
    if known is None:
        return rep
    present = fn_index(raw)
    unknown = {p for p in present if p not in known}
    missing = {p for p in known if p not in present and known[p]["crate"] in raw}
    if not unknown:
        return rep
    # ---- renames
    def parent(p):
        return p.rsplit("::", 1)[0] if "::" in p else ""

    ren = {}
    for u in sorted(unknown):
        cands = [m for m in missing if parent(m) == parent(u) and known[m]["args"] == present[u]["args"]]
        others = [x for x in unknown if x != u and parent(x) == parent(u) and present[x]["args"] == present[u]["args"]]
        if len(cands) == 1 and not others:
            ren[u] = cands[0]
    if ren:
        _apply_renames(raw, ren)
        for u, m in ren.items():
            rep["renamed"].append("%s -> %s" % (u, m))
            unknown.discard(u)
            missing.discard(m)
    # ---- inlining of unknown synchronous helpers
    bodies = {}
    for cname, c in raw.items():
        if cname.endswith("#test"):
            continue
        for bd in c["bodies"]:
            bodies[norm(bd["path"])] = bd
    helpers = {}
    for u in sorted(unknown):
        bd = bodies.get(u)
        if bd is None:
            continue
        is_async = any(x.get("coroutine") and x.get("parent") and norm(x["parent"]) == u for x in raw[present[u]["crate"]]["bodies"])
        if is_async or len(bd["blocks"]) > MAX_BLOCKS:
            rep["not_inlined"].append(u + (" (async)" if is_async else " (too large)"))
            continue
        helpers[u] = bd
    if helpers:
        for depth in range(MAX_DEPTH):
            changed = False
            for cname, c in raw.items():
                if cname.endswith("#test"):
                    continue
                for bd in c["bodies"]:
                    me = norm(bd["path"])
                    for bi in range(len(bd["blocks"])):
                        t = bd["blocks"][bi]["term"]
                        if t["k"] != "call":
                            continue
                        tgt = None
                        for k in ("res", "callee"):
                            if t.get(k) and norm(t[k]) in helpers:
                                tgt = norm(t[k])
                                break
                        if tgt is None or tgt == me or len(bd["blocks"]) > 4 * MAX_BLOCKS:
                            continue
                        inline_one(bd, bi, helpers[tgt])
                        rep["inlined"].append("%s into %s" % (tgt, me))
                        # closures of the helper now belong to the caller's group
                        for x in c["bodies"]:
                            if x is not bd and norm(x["path"]) != tgt and norm(x.get("root", "")) == tgt:
                                x["root"] = bd["root"]
                        changed = True
            if not changed:
                break
        # a helper that is now part of all its callers is not analysed a second time as a function of its own
        still_called = set()
        for cname, c in raw.items():
            for bd in c["bodies"]:
                for blk in bd["blocks"]:
                    t = blk["term"]
                    if t["k"] == "call":
                        for k in ("res", "callee"):
                            if t.get(k) and norm(t[k]) in helpers and norm(bd["path"]) != norm(t[k]):
                                still_called.add(norm(t[k]))
        for cname, c in raw.items():
            if cname.endswith("#test"):
                continue
            c["bodies"] = [bd for bd in c["bodies"] if not (norm(bd["path"]) in helpers and norm(bd["path"]) not in still_called and any(x.startswith(norm(bd["path"]) + " into ") for x in rep["inlined"]))]
    for c in raw.values():
        c.setdefault("_inline", rep)
    return rep


def _apply_renames(raw, ren):
    """ren: new path -> old path (normalised).  Raw strings carry generics, so match on norm() and rewrite by
    replacing the last path segment."""
    def fix(s):
        if not s:
            return s
        n = norm(s)
        for u, m in ren.items():
            if n == u or n.startswith(u + "::"):
                new_last = u.rsplit("::", 1)[-1]
                old_last = m.rsplit("::", 1)[-1]
                # replace the segment `::new_last` (followed by end, `::` or `<`) once, from the right
                idx = s.rfind("::" + new_last)
                while idx >= 0:
                    end = idx + 2 + len(new_last)
                    if end == len(s) or s[end] in ":<":
                        return s[:idx] + "::" + old_last + s[end:]
                    idx = s.rfind("::" + new_last, 0, idx)
        return s

    for c in raw.values():
        for bd in c["bodies"]:
            for k in ("path", "root", "parent"):
                if bd.get(k):
                    bd[k] = fix(bd[k])
            for blk in bd["blocks"]:
                t = blk["term"]
                if t["k"] == "call":
                    for k in ("callee", "res"):
                        if t.get(k):
                            t[k] = fix(t[k])
                for s in blk["stmts"]:
                    if s["k"] == "assign" and s["rv"]["k"] == "agg" and s["rv"].get("def"):
                        s["rv"]["def"] = fix(s["rv"]["def"])
        for f in c.get("fns", []):
            if f.get("path"):
                f["path"] = fix(f["path"])


def write_known(raw, path=KNOWN):
    with open(path, "w") as fh:
        json.dump({"_doc": "every function body (not closures) of the workspace crates on the reference tree: normalised path -> crate, argument count. Used by sa/inline.py to recognise helpers that a later tree split off (inlined into their callers) and renamed functions. Regenerate with tools/gen_known_fns.py only when the reference tree changes.", "fns": fn_index(raw)}, fh, indent=0, sort_keys=True)
