"""Compile-fail witnesses (type-level clauses of C02, C08, C10): run the doc tests of the witness
crate against the repository under test and turn each witness/twin pair into an obligation."""
import os
import re
import subprocess

from . import facts


def run(ctx, rep, P, prefix):
    sh = os.path.join(facts.VERIF, "witness", "run.sh")
    with facts.Lock("witness.lock"):
        r = subprocess.run([sh, ctx.repo], capture_output=True, text=True)
    out = r.stdout + r.stderr
    res = {}
    for m in re.finditer(r"^test src/lib\.rs - (\w+) \(line (\d+)\)( - compile fail| - compile)? \.\.\. (\w+)", out, re.M):
        name, line, kind, verdict = m.group(1), int(m.group(2)), (m.group(3) or "").strip(" -"), m.group(4)
        res.setdefault(name, []).append((kind or "run", verdict))
    n = 0
    for name, lst in sorted(res.items()):
        if not name.startswith(prefix):
            continue
        n += 1
        fails = [v for k, v in lst if k == "compile fail"]
        twins = [v for k, v in lst if k != "compile fail"]
        ok = bool(fails) and bool(twins) and all(v == "ok" for v in fails + twins)
        rep.ob(P + ".witness", name, ok, "compile-fail witness %s: the offending program is rejected with the expected error (%s) and its twin compiles (%s)" % (name, fails, twins), how="witness")
    if n == 0:
        rep.violation(P + ".witness", "none-ran", "no compile-fail witness for %s ran (cargo output tail: %s)" % (prefix, out[-300:].replace("\n", " | ")))
    return n
