#!/usr/bin/env python3
"""Checker self-test: apply each mutant (selftest/mutants.py) to a scratch copy of /repo, make sure
the copy still compiles (the fact extraction is a `cargo check`), run the property's quick check
against the copy and require a VIOLATION whose key contains the expected text; neutral edits must
stay silent.  The scratch copy lives outside /repo and /verif and is removed afterwards.

usage: selftest/run.py [ids or property ids ...]   (no args: all)
"""
import importlib.util
import json
import os
import shutil
import subprocess
import sys
import tempfile

HERE = os.path.dirname(os.path.abspath(__file__))
VERIF = os.path.dirname(HERE)
SCRATCH = "/tmp/ecmut-%d/repo" % os.getpid()  # one scratch copy per runner: concurrent runs must not share it


def load():
    spec = importlib.util.spec_from_file_location("mutants", os.path.join(HERE, "mutants.py"))
    m = importlib.util.module_from_spec(spec)
    spec.loader.exec_module(m)
    return m.MUTANTS


def sync():
    os.makedirs(SCRATCH, exist_ok=True)
    subprocess.check_call(["rsync", "-a", "--delete", "--exclude", "target", "--exclude", ".git", "--exclude", "dumps", "--exclude", "*.pcapng", "/repo/", SCRATCH + "/"])


def apply(edits):
    for f, old, new in edits:
        p = os.path.join(SCRATCH, f)
        s = open(p).read()
        if s.count(old) != 1:
            raise SystemExit("mutant edit does not apply uniquely in %s: %r (count %d)" % (f, old[:60], s.count(old)))
        open(p, "w").write(s.replace(old, new))


def main():
    want = [a for a in sys.argv[1:] if not a.startswith("-")]
    muts = load()
    if want:
        muts = [m for m in muts if m["id"] in want or m["property"] in want or any(m["id"].startswith(w) for w in want)]
    tmp = tempfile.mkdtemp(prefix="ecmut-ev-")
    res = []
    try:
        for m in muts:
            if m.get("skip"):
                continue
            sync()
            apply(m["edits"])
            env = dict(os.environ, VERIF_REPO=SCRATCH, VERIF_EVIDENCE_DIR=tmp + "/ev", VERIF_REPORT_DIR=tmp)
            for prop in ([m["property"]] + [a for a in m.get("also", []) if a not in m.get("also_expect_none", [])]):
                r = subprocess.run([os.path.join(VERIF, "check"), prop], env=env, capture_output=True, text=True)
                out = r.stdout + r.stderr
                viol = "VIOLATION property=" in out
                if "does not compile" in out:
                    verdict = "MUTANT-DOES-NOT-COMPILE"
                elif m.get("neutral"):
                    verdict = "ok-silent" if (r.returncode == 0 and not viol) else "FALSE-ALARM"
                else:
                    exp = m.get("expect", "") if prop == m["property"] else ""
                    hit = viol and (exp in out)
                    verdict = "ok-caught" if hit else ("CAUGHT-BUT-OTHER-KEY" if viol else "MISSED")
                res.append((m["id"], prop, verdict))
                print("%-40s %-4s %s" % (m["id"], prop, verdict), flush=True)
                if verdict not in ("ok-caught", "ok-silent"):
                    print("    " + "\n    ".join(out.strip().splitlines()[-8:]))
    finally:
        shutil.rmtree(tmp, ignore_errors=True)
        shutil.rmtree(os.path.dirname(SCRATCH), ignore_errors=True)
    bad = [r for r in res if r[2] not in ("ok-caught", "ok-silent")]
    print("%d mutants/neutral edits, %d not as expected" % (len(res), len(bad)))
    return 1 if bad else 0


if __name__ == "__main__":
    sys.exit(main())
