"""Mutants (each compiles and passes the pinned suite by construction or was confirmed so) and
neutral edits.  edits: (file, old, new) with `old` unique in the file."""
MUTANTS = [
    # ---------------- C11 ----------------
    {"id": "c11-no-maybe-wkc-receive-slice", "property": "C11", "expect": "C11.flow|WrappedRead::receive_slice",
     "edits": [("src/command/reads.rs", "self.common(maindevice, len).await?.maybe_wkc(self.wkc)", "self.common(maindevice, len).await")]},
    {"id": "c11-wkc-ge", "property": "C11", "expect": "C11.wkc",
     "edits": [("src/pdu_loop/frame_element/received_frame.rs", "if self.working_counter == expected {", "if self.working_counter >= expected {")]},
    {"id": "c11-default-none", "property": "C11", "expect": "C11.default|WrappedRead::new",
     "edits": [("src/command/reads.rs", "            command,\n            wkc: Some(1),", "            command,\n            wkc: None,")]},
    {"id": "c11-ignore-in-read-chunk", "property": "C11", "expect": "C11.optout|ignore_wkc@<DeviceEeprom as EepromDataProvider>::read_chunk",
     "edits": [("src/eeprom/device_provider.rs", "            .receive_slice(self.maindevice, status.read_size.chunk_len())", "            .ignore_wkc()\n            .receive_slice(self.maindevice, status.read_size.chunk_len())")]},
    {"id": "c11-send-receive-none", "property": "C11", "expect": "C11.flow|WrappedWrite::send_receive_slice",
     "edits": [("src/command/writes.rs", "        self.common(maindevice, value, None)\n            .await?\n            .maybe_wkc(self.wkc)\n    }", "        self.common(maindevice, value, None)\n            .await?\n            .maybe_wkc(None)\n    }")]},
    {"id": "c11-maybe-wkc-always-ok", "property": "C11", "expect": "C11.wkc|maybe_wkc",
     "edits": [("src/pdu_loop/frame_element/received_frame.rs", "            Some(expected) => self.wkc(expected),", "            Some(_expected) => Ok(self),")]},
    {"id": "c11-neutral-rename", "property": "C11", "neutral": True,
     "edits": [("src/pdu_loop/frame_element/received_frame.rs", "        if self.working_counter == expected {\n            Ok(self)", "        let got = self.working_counter;\n        if expected == got {\n            Ok(self)")]},
    # ---------------- C02 / SLOTFSM ----------------
    {"id": "c02-swap-state-store", "property": "C02", "expect": "C02.S1",
     "edits": [("src/pdu_loop/frame_element/mod.rs", """            (*addr_of_mut!((*fptr).status)).compare_exchange(
                from,
                to,
                Ordering::AcqRel,
                Ordering::Relaxed,
            )
        }?;""", """            let _ = from;
            (*addr_of_mut!((*fptr).status)).store(to, Ordering::Release)
        };""")]},
    {"id": "c02-claim-sending-store", "property": "C02", "expect": "C02.S1",
     "edits": [("src/pdu_loop/frame_element/mod.rs", "        unsafe { Self::swap_state(this, FrameState::Sendable, FrameState::Sending) }.ok()", "        unsafe { Self::set_state(this, FrameState::Sending) };\n        Some(this)")]},
    {"id": "c02-relaxed-claim", "property": "C02", "expect": "C02.S1|swap_state:success-ordering",
     "edits": [("src/pdu_loop/frame_element/mod.rs", "                Ordering::AcqRel,\n                Ordering::Relaxed,", "                Ordering::Relaxed,\n                Ordering::Relaxed,")]},
    {"id": "c02-mark-before-copy", "property": "C02", "expect": "C02.S4|receive_frame", "also": ["C01"],
     "edits": [("src/pdu_loop/pdu_rx.rs", "        frame_data.copy_from_slice(i);\n\n        frame.mark_received()?;\n", "        frame_data[0] = 0;\n\n        frame.mark_received()?;\n\n        frame.buf_mut()[0..i.len()].copy_from_slice(i);\n")]},
    {"id": "c02-wake-before-cas", "property": "C02", "expect": "C02.S4|mark_received", "also": ["C01"],
     "edits": [("src/pdu_loop/frame_element/receiving_frame.rs", "        self.inner\n            .swap_state(FrameState::RxBusy, FrameState::RxDone)", "        let _ = self.inner.wake();\n\n        self.inner\n            .swap_state(FrameState::RxBusy, FrameState::RxDone)"),
               ("src/pdu_loop/frame_element/receiving_frame.rs", "        let _ = self.inner.wake();\n\n        Ok(())", "        Ok(())")]},
    {"id": "c02-waker-after-test", "property": "C02", "expect": "C02.S4|poll:waker-before-test", "also": ["C01"],
     "edits": [("src/pdu_loop/frame_element/receiving_frame.rs", "        rxin.replace_waker(cx.waker());\n\n", ""),
               ("src/pdu_loop/frame_element/receiving_frame.rs", "            Err(e) => e,\n        };\n", "            Err(e) => e,\n        };\n\n        rxin.replace_waker(cx.waker());\n")]},
    {"id": "c02-handle-without-claim", "property": "C02", "expect": "C02.S2",
     "edits": [("src/pdu_loop/frame_element/sendable_frame.rs", "        let frame = unsafe { FrameElement::claim_sending(frame)? };", "        let frame = unsafe { FrameElement::claim_sending(frame).unwrap_or(frame) };")]},
    {"id": "c02-rx-reads-created", "property": "C02", "expect": "C02.S3",
     "edits": [("src/pdu_loop/frame_element/receiving_frame.rs", "    fn storage_slot_index(&self) -> u8 {\n        self.inner.storage_slot_index()\n    }\n}\n\npub struct ReceiveFrameFut", "    fn storage_slot_index(&self) -> u8 {\n        let _ = self.inner.ethernet_frame();\n        self.inner.storage_slot_index()\n    }\n}\n\npub struct ReceiveFrameFut")]},
    {"id": "c02-clear-after-release", "property": "C02", "expect": "C02.S5", "also": ["C01"],
     "edits": [("src/pdu_loop/frame_element/received_frame.rs", "        self.inner.clear_first_pdu();\n\n        // Invariant", "        // Invariant"),
               ("src/pdu_loop/frame_element/received_frame.rs", "                .swap_state(FrameState::RxProcessing, FrameState::None)\n        );\n", "                .swap_state(FrameState::RxProcessing, FrameState::None)\n        );\n        self.inner.clear_first_pdu();\n")]},
    # ---------------- C03 ----------------
    {"id": "c03-no-drop-future", "property": "C03", "expect": "C03.S6|impl-Drop:ReceiveFrameFut",
     "edits": [("src/pdu_loop/frame_element/receiving_frame.rs", "impl Drop for ReceiveFrameFut<'_> {\n    fn drop(&mut self) {", "impl ReceiveFrameFut<'_> {\n    #[allow(unused)]\n    fn not_drop(&mut self) {")]},
    {"id": "c03-no-release-on-last-timeout", "property": "C03", "expect": "C03.S6|poll", "also": ["C06"],
     "edits": [("src/pdu_loop/frame_element/receiving_frame.rs", "                    Self::release(rxin);\n\n                    return", "                    return")]},
    {"id": "c03-forget-putback", "property": "C03", "expect": "C03.S6|poll:claim-resolved",
     "edits": [("src/pdu_loop/frame_element/receiving_frame.rs", "                self.frame = Some(rxin);\n\n                Poll::Pending", "                Poll::Pending")]},
    {"id": "c03-send-error-keeps-claim", "property": "C03", "expect": "C03.S6|send_blocking",
     "edits": [("src/pdu_loop/frame_element/sendable_frame.rs", "            Err(res) => {\n                self.release_sending_claim();\n", "            Err(res) => {\n")]},
    {"id": "c03-created-drop-noop", "property": "C03", "expect": "C03.S6|CreatedFrame::drop",
     "edits": [("src/pdu_loop/frame_element/created_frame.rs", "        let _ = self.inner.swap_state(FrameState::Created, FrameState::None);", "        let _ = self.inner.swap_state(FrameState::Created, FrameState::Created);")]},
    {"id": "c03-alloc-one-round", "property": "C03", "expect": "C03.alloc|alloc:2N-attempts",
     "edits": [("src/pdu_loop/storage.rs", "for _ in 0..(self.num_frames * 2) {", "for _ in 0..(self.num_frames / 2) {")]},
    {"id": "c03-reset-skips-last", "property": "C03", "expect": "C03.S6|reset",
     "edits": [("src/pdu_loop/storage.rs", "        for i in 0..self.num_frames {\n            let frame = self.frame_at_index(i);", "        for i in 0..(self.num_frames - 1) {\n            let frame = self.frame_at_index(i);")]},
    # ---------------- C06 ----------------
    {"id": "c06-timer-before-done", "property": "C06", "expect": "C06.poll|done-test-before-timer",
     "edits": [("src/pdu_loop/frame_element/receiving_frame.rs", "        rxin.replace_waker(cx.waker());\n", "        rxin.replace_waker(cx.waker());\n        let early = self.timeout_timer.poll(cx).is_ready();\n        if early && self.retries_left == 0 {\n            Self::release(rxin);\n            return Poll::Ready(Err(Error::Timeout(TimeoutError::from_timeout_kind(self.timeout.kind))));\n        }\n")]},
    {"id": "c06-retry-double-decrement", "property": "C06", "expect": "C06.poll|retry-bookkeeping",
     "edits": [("src/pdu_loop/frame_element/receiving_frame.rs", "                self.retries_left -= 1;", "                self.retries_left = self.retries_left.saturating_sub(2);")]},
    {"id": "c06-forever-is-zero", "property": "C06", "expect": "C06.retry_count",
     "edits": [("src/maindevice_config.rs", "RetryBehaviour::Forever => usize::MAX,", "RetryBehaviour::Forever => 0,")]},
    {"id": "c06-retry-without-wake", "property": "C06", "expect": "C06.poll|retry-bookkeeping",
     "edits": [("src/pdu_loop/frame_element/receiving_frame.rs", "                    self.pdu_loop.wake_sender();\n", "")]},
    {"id": "c06-new-store-on-timeout", "property": "C06", "expect": "C06.S7",
     "edits": [("src/pdu_loop/frame_element/receiving_frame.rs", "    fn storage_slot_index(&self) -> u8 {\n        self.inner.storage_slot_index()\n    }\n}\n\npub struct ReceiveFrameFut", "    fn storage_slot_index(&self) -> u8 {\n        self.inner.set_state(FrameState::RxDone);\n        self.inner.storage_slot_index()\n    }\n}\n\npub struct ReceiveFrameFut")]},
    # ---------------- C01 ----------------
    {"id": "c01-no-index-compare", "property": "C01", "expect": "C01.handle|ReceivedFrame::first_pdu:index",
     "edits": [("src/pdu_loop/frame_element/received_frame.rs", """        if pdu_header.index != handle.pdu_idx {
            return Err(Error::Pdu(PduError::InvalidIndex(pdu_header.index)));
        }

        let payload_ptr = unsafe {
            NonNull::new_unchecked(
                buf.get(PduHeader::PACKED_LEN..)
                    .ok_or(Error::Internal)?
                    .as_ptr()
                    .cast_mut(),
            )
        };

        let working_counter = u16::unpack_from_slice(
            buf.get((PduHeader::PACKED_LEN + payload_len)..)
                .ok_or(Error::Internal)?,
        )?;

        Ok(ReceivedPdu {
            data_start: payload_ptr,
            len: payload_len,
            working_counter,
            // Frame""", """        let payload_ptr = unsafe {
            NonNull::new_unchecked(
                buf.get(PduHeader::PACKED_LEN..)
                    .ok_or(Error::Internal)?
                    .as_ptr()
                    .cast_mut(),
            )
        };

        let working_counter = u16::unpack_from_slice(
            buf.get((PduHeader::PACKED_LEN + payload_len)..)
                .ok_or(Error::Internal)?,
        )?;

        Ok(ReceivedPdu {
            data_start: payload_ptr,
            len: payload_len,
            working_counter,
            // Frame""")]},
    {"id": "c01-sentinel-00ff", "property": "C01", "expect": "C01.key|sentinel",
     "edits": [("src/pdu_loop/frame_element/mod.rs", "pub const FIRST_PDU_EMPTY: u16 = 0xff00;", "pub const FIRST_PDU_EMPTY: u16 = 0x00ff;")]},
    {"id": "c01-trim-no-shrink", "property": "C01", "expect": "C01.view|ReceivedPdu::trim_front",
     "edits": [("src/pdu_loop/frame_element/received_frame.rs", "        self.len -= ct;\n", "")]},
    {"id": "c01-lookup-ignores-state", "property": "C01", "expect": "C01.S8",
     "edits": [("src/pdu_loop/storage.rs", "                    && FrameElement::<0>::is_awaiting_response(frame)\n", "")]},
    {"id": "c01-view-drops-frame", "property": "C01", "expect": "C01.S5e",
     "edits": [("src/pdu_loop/frame_element/received_frame.rs", "            _frame: Some(self),", "            _frame: None,")]},
    {"id": "c01-len-plus-two", "property": "C01", "expect": "C01.view|ReceivedFrame::first_pdu:len",
     "edits": [("src/pdu_loop/frame_element/received_frame.rs", "            _frame: Some(self),", "            _frame: Some(self),"), ("src/pdu_loop/frame_element/received_frame.rs", "            len: payload_len,\n            working_counter,\n            // Frame", "            len: payload_len + 2,\n            working_counter,\n            // Frame")]},
    {"id": "c01-marker-overwrite", "property": "C01", "expect": "C01.key|set_first_pdu",
     "edits": [("src/pdu_loop/frame_element/mod.rs", """        let _ = first_pdu.compare_exchange(
            FIRST_PDU_EMPTY,
            u16::from(value),
            Ordering::Release,
            Ordering::Relaxed,
        );""", """        first_pdu.store(u16::from(value), Ordering::Release);""")]},
    {"id": "c01-neutral-log", "property": "C01", "neutral": True, "also": ["C02", "C03", "C06"],
     "edits": [("src/pdu_loop/frame_element/received_frame.rs", "        let payload_len = usize::from(pdu_header.flags.len());\n\n        // If buffer isn't long enough to hold payload and WKC, this is probably a corrupt PDU or\n        // someone is committing epic haxx.\n        if buf.len() < payload_len + 2 {\n            return Err(Error::Pdu(PduError::TooLong));\n        }\n\n        if pdu_header.command_code != handle.command_code {", "        let payload_len = usize::from(pdu_header.flags.len());\n        fmt::trace!(\"payload {}\", payload_len);\n\n        if buf.len() < payload_len + 2 {\n            return Err(Error::Pdu(PduError::TooLong));\n        }\n\n        if handle.command_code != pdu_header.command_code {")]},
    # ---------------- C05 ----------------
    {"id": "c05-index-direct", "property": "C05", "expect": "C05.np|PduRx::receive_frame",
     "edits": [("src/pdu_loop/pdu_rx.rs", "let pdu_idx = *i.get(1).ok_or(Error::Internal)?;", "let pdu_idx = i[1];")]},
    {"id": "c05-no-src-filter", "property": "C05", "expect": "C05.filter|own-source",
     "edits": [("src/pdu_loop/pdu_rx.rs", "if raw_packet.ethertype() != ETHERCAT_ETHERTYPE || raw_packet.src_addr() == self.source_mac\n        {", "if raw_packet.ethertype() != ETHERCAT_ETHERTYPE {")]},
    {"id": "c05-unchecked-ctor", "property": "C05", "expect": "C05",
     "edits": [("src/pdu_loop/pdu_rx.rs", "let raw_packet = EthernetFrame::new_checked(ethernet_frame)?;", "let raw_packet = EthernetFrame::new_unchecked(ethernet_frame);")]},
    {"id": "c05-payload-slice-direct", "property": "C05", "expect": "C05.np|PduRx::receive_frame",
     "edits": [("src/pdu_loop/pdu_rx.rs", """        let i = i
            .get(
                EthercatFrameHeader::PACKED_LEN
                    ..(EthercatFrameHeader::PACKED_LEN + usize::from(frame_header.payload_len)),
            )
            .ok_or_else(|| {
                fmt::error!("Received frame is too short");

                Error::ReceiveFrame
            })?;""", """        let i = &i[EthercatFrameHeader::PACKED_LEN
            ..(EthercatFrameHeader::PACKED_LEN + usize::from(frame_header.payload_len))];""")]},
    {"id": "c05-claim-no-bounds", "property": "C05", "expect": "C05.claim|index-bounds",
     "edits": [("src/pdu_loop/storage.rs", "        if frame_idx >= self.num_frames {\n            return None;\n        }\n", "")]},
    # ---------------- C13 ----------------
    {"id": "c13-unchecked-add2", "property": "C13", "expect": "C13",
     "edits": [("src/subdevice/eeprom.rs", """            let Some(incr) = word_addr.checked_add(2) else {
                fmt::warn!(
                    "Could not find EEPROM category {:?} or end marker. EEPROM could be empty or corrupt.",
                    category
                );

                break Ok(None);
            };

            word_addr = incr;""", """            word_addr += 2;""")]},
    {"id": "c13-category-len-unchecked", "property": "C13", "expect": "C13",
     "edits": [("src/subdevice/eeprom.rs", """            let Some(next) = word_addr.checked_add(len_words) else {
                fmt::warn!(
                    "EEPROM category {:?} length {:#06x} overruns the address space. EEPROM could be empty or corrupt.",
                    category_type,
                    len_words
                );

                break Ok(None);
            };

            word_addr = next;""", """            word_addr += len_words;""")]},
    {"id": "c13-no-string-len-check", "property": "C13", "expect": "C13.np|SubDeviceEeprom::find_string",
     "edits": [("src/subdevice/eeprom.rs", """            if string_len > N {
                return Err(Error::StringTooLong {
                    max_length: N,
                    string_length: string_len,
                });
            }
""", "")]},
    {"id": "c13-size-u16", "property": "C13", "expect": "C13.np|SubDeviceEeprom::size",
     "edits": [("src/subdevice/eeprom.rs", "let len = (usize::from(u16::from_le_bytes(buf)) + 1) * 128;\n\n        Ok(len)", "let len = (u16::from_le_bytes(buf) + 1) * 128;\n\n        Ok(usize::from(len))")]},
    {"id": "c13-sm-len-unchecked", "property": "C13", "expect": "C13.np|configuration::configure_pdos_eeprom",
     "edits": [("src/subdevice/configuration.rs", "let len = pdo.bit_len.checked_mul(oversampling);", "let len = Some(pdo.bit_len * oversampling);")]},
    # ---------------- C16 ----------------
    {"id": "c16-assert-emergency", "property": "C16", "expect": "C16.np|Coe::mailbox_write_read",
     "edits": [("src/mailbox/coe/mod.rs", "        if service_headers.coe_header.service == CoeService::Emergency {", "        assert_ne!(service_headers.coe_header.service, CoeService::Emergency);\n\n        if service_headers.coe_header.service == CoeService::Emergency {")]},
    {"id": "c16-sdo-info-length", "property": "C16", "expect": "C16.np|Coe::send_sdo_info_service",
     "edits": [("src/mailbox/coe/mod.rs", "buf.extend_from_slice(response.get(..length).ok_or(Error::Internal)?)", "buf.extend_from_slice(&response[..length])")]},
    {"id": "c16-segment-minus-3", "property": "C16", "expect": "C16.np|Coe::sdo_read",
     "edits": [("src/mailbox/coe/mod.rs", "usize::from(headers.header.length.checked_sub(3).ok_or(Error::Internal)?);", "usize::from(headers.header.length - 3);")]},
    {"id": "c16-expedited-index", "property": "C16", "expect": "C16.np|Coe::sdo_read",
     "edits": [("src/mailbox/coe/mod.rs", "data.get(0..data_len).ok_or(Error::Internal)?\n        }", "&data[0..data_len]\n        }")]},
    {"id": "c16-trim-unclamped", "property": "C16", "expect": "C16", "also": ["C01"],
     "edits": [("src/pdu_loop/frame_element/received_frame.rs", "        let ct = ct.min(self.len());\n", "")]},
    # ---------------- C17 ----------------
    {"id": "c17-no-free-port-unwrap", "property": "C17", "expect": "C17.np|dc::assign_parent_relationships",
     "edits": [("src/dc.rs", """                .ok_or_else(|| {
                    fmt::error!(
                        "No free ports on parent of SubDevice {:#06x}",
                        subdevice.configured_address()
                    );

                    Error::Topology
                })?;""", """                .unwrap();""")]},
    {"id": "c17-sum-overflow", "property": "C17", "expect": "C17.np|Ports::intermediate_propagation_time_to",
     "edits": [("src/subdevice/ports.rs", ".fold(0u32, |total, delta| total.saturating_add(delta))", ".sum::<u32>()")]},
    {"id": "c17-no-open-port-check", "property": "C17", "expect": "C17.np|guard-broken|ports_nonempty",
     "edits": [("src/subdevice/mod.rs", "        if !ports.0.iter().any(|port| port.active) {", "        if false {")]},
    {"id": "c17-delay-not-monotone", "property": "C17", "expect": "C17.acc",
     "edits": [("src/dc.rs", "    subdevice.propagation_delay = *delay_accum;\n}", "    subdevice.propagation_delay = propagation_delay;\n}")]},
    {"id": "c17-offset-plain-arith", "property": "C17", "expect": "C17.np|dc::write_dc_parameters",
     "edits": [("src/dc.rs", "(now_nanos as i64).wrapping_sub(subdevice.dc_receive_time as i64);", "now_nanos as i64 - subdevice.dc_receive_time as i64;")]},
    # ---------------- C18 ----------------
    {"id": "c18-shift-unchecked", "property": "C18", "expect": "C18",
     "edits": [("src/subdevice_group/mod.rs", "let sync0_shift = u64::from(u32::try_from(sync0_shift.as_nanos())?);", "let sync0_shift = sync0_shift.as_nanos() as u64;")]},
    {"id": "c18-start-time-plain-add", "property": "C18", "expect": "C18.np|SubDeviceGroup::configure_dc_sync",
     "edits": [("src/subdevice_group/mod.rs", "system_time.wrapping_add(first_pulse_delay) / sync0_period * sync0_period;", "(system_time + first_pulse_delay) / sync0_period * sync0_period;")]},
    {"id": "c18-round-other-period", "property": "C18", "expect": "C18.cfg|register-value-table",
     "edits": [("src/subdevice_group/mod.rs", "system_time.wrapping_add(first_pulse_delay) / sync0_period * sync0_period;", "system_time.wrapping_add(first_pulse_delay) / sync0_period * first_pulse_delay.max(1);")]},
    {"id": "c18-sync1-always-on", "property": "C18", "expect": "C18.cfg|flags-per-mode",
     "edits": [("src/subdevice_group/mod.rs", "            } else {\n                SYNC0_ACTIVATE | CYCLIC_OP_ENABLE\n            };", "            } else {\n                SYNC1_ACTIVATE | SYNC0_ACTIVATE | CYCLIC_OP_ENABLE\n            };")]},
    {"id": "c18-no-reference-after-write", "property": "C18", "expect": "C18.cfg|no-reference",
     "edits": [("src/subdevice_group/mod.rs", """        let Some(reference) = maindevice.dc_ref_address() else {
            fmt::error!("No DC reference clock SubDevice present, unable to configure DC");

            return Err(DistributedClockError::NoReference.into());
        };

        let DcConfiguration {""", """        let reference = maindevice.dc_ref_address().unwrap_or(0x1000);

        let DcConfiguration {""")]},
    {"id": "c18-wait-minus-shift", "property": "C18", "expect": "C18.cycle",
     "edits": [("src/subdevice_group/mod.rs", "(self.dc_conf.sync0_period - cycle_start_offset) + self.dc_conf.sync0_shift;", "(self.dc_conf.sync0_period - cycle_start_offset).saturating_sub(self.dc_conf.sync0_shift);")]},
    # ---------------- C04 ----------------
    {"id": "c04-fprd-code", "property": "C04", "expect": "C04.cmd|code:Fprd",
     "edits": [("src/command/mod.rs", "const FPRD: u8 = 0x04;", "const FPRD: u8 = 0x05;")]},
    {"id": "c04-flags-offset-5", "property": "C04", "expect": "C04.layout|CreatedFrame::push_pdu:flags-offset",
     "edits": [("src/pdu_loop/frame_element/created_frame.rs", """        // Frame was added successfully, so now we can update the previous PDU `more_follows` flag to true.
        if let Some(last_header_location) = self.last_header_location.as_mut() {
            // Flags start at 6th bit of header
            let flags_offset = 6usize;

            let last_flags_buf = fmt::unwrap_opt!(
                self.inner
                    .pdu_buf_mut()
                    .get_mut((*last_header_location + flags_offset)..)
            );

            let mut last_flags = fmt::unwrap!(PduFlags::unpack_from_slice(last_flags_buf));

            last_flags.more_follows = true;

            last_flags.pack_to_slice_unchecked(last_flags_buf);

            // Previous header is now the one we just inserted
            *last_header_location = buf_range.start;
        } else {
            self.last_header_location = Some(0);
        }

        Ok(PduResponseHandle {""", """        // Frame was added successfully, so now we can update the previous PDU `more_follows` flag to true.
        if let Some(last_header_location) = self.last_header_location.as_mut() {
            // Flags start at 6th bit of header
            let flags_offset = 5usize;

            let last_flags_buf = fmt::unwrap_opt!(
                self.inner
                    .pdu_buf_mut()
                    .get_mut((*last_header_location + flags_offset)..)
            );

            let mut last_flags = fmt::unwrap!(PduFlags::unpack_from_slice(last_flags_buf));

            last_flags.more_follows = true;

            last_flags.pack_to_slice_unchecked(last_flags_buf);

            // Previous header is now the one we just inserted
            *last_header_location = buf_range.start;
        } else {
            self.last_header_location = Some(0);
        }

        Ok(PduResponseHandle {""")]},
    {"id": "c04-add-pdu-short", "property": "C04", "expect": "C04.push|CreatedFrame::push_pdu:bounded-write",
     "edits": [("src/pdu_loop/frame_element/created_frame.rs", """        self.inner.add_pdu(alloc_size, pdu_idx);

        let index_in_frame = self.pdu_count;

        self.pdu_count += 1;

        // Frame was added successfully, so now we can update the previous PDU `more_follows` flag to true.
        if let Some(last_header_location) = self.last_header_location.as_mut() {
            // Flags start at 6th bit of header
            let flags_offset = 6usize;

            let last_flags_buf = fmt::unwrap_opt!(
                self.inner
                    .pdu_buf_mut()
                    .get_mut((*last_header_location + flags_offset)..)
            );

            let mut last_flags = fmt::unwrap!(PduFlags::unpack_from_slice(last_flags_buf));

            last_flags.more_follows = true;

            last_flags.pack_to_slice_unchecked(last_flags_buf);

            // Previous header is now the one we just inserted
            *last_header_location = buf_range.start;
        } else {
            self.last_header_location = Some(0);
        }

        Ok(PduResponseHandle {""", """        self.inner.add_pdu(data_length_usize + 10, pdu_idx);

        let index_in_frame = self.pdu_count;

        self.pdu_count += 1;

        // Frame was added successfully, so now we can update the previous PDU `more_follows` flag to true.
        if let Some(last_header_location) = self.last_header_location.as_mut() {
            // Flags start at 6th bit of header
            let flags_offset = 6usize;

            let last_flags_buf = fmt::unwrap_opt!(
                self.inner
                    .pdu_buf_mut()
                    .get_mut((*last_header_location + flags_offset)..)
            );

            let mut last_flags = fmt::unwrap!(PduFlags::unpack_from_slice(last_flags_buf));

            last_flags.more_follows = true;

            last_flags.pack_to_slice_unchecked(last_flags_buf);

            // Previous header is now the one we just inserted
            *last_header_location = buf_range.start;
        } else {
            self.last_header_location = Some(0);
        }

        Ok(PduResponseHandle {""")]},
    {"id": "c04-no-zero-fill", "property": "C04", "expect": "C04.init|zero-fill",
     "edits": [("src/pdu_loop/frame_element/frame_box.rs", "        ethernet_frame.payload_mut().fill(0);\n", "")]},
    {"id": "c04-pack-shift-8", "property": "C04", "expect": "C04.cmd|pack:register-address",
     "edits": [("src/command/mod.rs", "u32::to_le_bytes((u32::from(register) << 16) + u32::from(address))", "u32::to_le_bytes((u32::from(register) << 8) + u32::from(address))")]},
    {"id": "c04-header-len-plus-2", "property": "C04", "expect": "C04.hdr|mark_sendable:length",
     "edits": [("src/pdu_loop/frame_element/created_frame.rs", "EthercatFrameHeader::pdu(self.inner.pdu_payload_len() as u16)", "EthercatFrameHeader::pdu(self.inner.max_len_for_test() as u16)"),
               ("src/pdu_loop/frame_element/frame_box.rs", "    pub fn set_state(&self, to: FrameState) {", "    pub fn max_len_for_test(&self) -> usize {\n        self.max_len\n    }\n\n    pub fn set_state(&self, to: FrameState) {")]},
    {"id": "c04-pdu-flags-mask", "property": "C04", "expect": "C04.layout|PduFlags",
     "edits": [("src/pdu_loop/pdu_flags.rs", "            | ((self.circulated as u16) << 14)", "            | ((self.circulated as u16) << 13)")]},
    # ---------------- C07 ----------------
    {"id": "c07-copy-whole-chunk", "property": "C07", "expect": "C07.inputs|range-clamped",
     "edits": [("src/subdevice_group/mod.rs", "            ..(total_bytes_sent + bytes_in_this_chunk).min(self.read_pdi_len);", "            ..(total_bytes_sent + bytes_in_this_chunk).min(self.pdi_len);")]},
    {"id": "c07-lrw-address-no-offset", "property": "C07", "expect": "C07.cycle|SubDeviceGroup::tx_rx:lrw-address",
     "edits": [("src/subdevice_group/mod.rs", """            // Start offset in the EtherCAT address space
            let pushed_chunk = if !chunk.is_empty() {
                let start_addr = self.inner().pdi_start.start_address + total_bytes_sent as u32;""", """            // Start offset in the EtherCAT address space
            let pushed_chunk = if !chunk.is_empty() {
                let start_addr = self.inner().pdi_start.start_address;""")]},
    {"id": "c07-wkc-last-only", "property": "C07", "expect": "C07.cycle|SubDeviceGroup::tx_rx:wkc-accumulator",
     "edits": [("src/subdevice_group/mod.rs", """                total_bytes_sent += bytes_in_this_chunk;
                // The counters are device supplied: don't overflow on bogus values
                lrw_wkc_sum = lrw_wkc_sum.saturating_add(wkc);
            }

            // If there are any more PDUs, these are state checks
            for state_check_pdu in pdus {
                let state_check_pdu = state_check_pdu?;

                let state = AlControl::unpack_from_slice(&state_check_pdu)?;

                let _ = subdevice_states.push(state.state);
            }
        }

        TxRxResponse {
            working_counter: lrw_wkc_sum,
            subdevice_states,
            extra: (),""", """                total_bytes_sent += bytes_in_this_chunk;
                lrw_wkc_sum = wkc;
            }

            // If there are any more PDUs, these are state checks
            for state_check_pdu in pdus {
                let state_check_pdu = state_check_pdu?;

                let state = AlControl::unpack_from_slice(&state_check_pdu)?;

                let _ = subdevice_states.push(state.state);
            }
        }

        TxRxResponse {
            working_counter: lrw_wkc_sum,
            subdevice_states,
            extra: (),""")]},
    {"id": "c07-state-check-wrong-device", "property": "C07", "expect": "C07.checks|member-addressed",
     "edits": [("src/subdevice_group/mod.rs", "            Command::fprd(sd.configured_address(), RegisterAddress::AlStatus.into()).into(),", "            Command::fprd(sd.configured_address().wrapping_add(num_in_this_frame as u16), RegisterAddress::AlStatus.into()).into(),")]},
    # ---------------- C08 ----------------
    {"id": "c08-no-threading", "property": "C08", "expect": "C08.group|offset-threading",
     "edits": [("src/subdevice_group/mod.rs", """            pdi_position = subdevice_config
                .configure_fmmus(
                    pdi_position,""", """            pdi_position = subdevice_config
                .configure_fmmus(
                    inner.pdi_start,""")]},
    {"id": "c08-no-capacity-check", "property": "C08", "expect": "C08.group|capacity-check",
     "edits": [("src/subdevice_group/mod.rs", "        if self.pdi_len > MAX_PDI {", "        if self.pdi_len > MAX_PDI && false {")]},
    {"id": "c08-group-no-advance", "property": "C08", "expect": "C08.thread|into_pre_op",
     "edits": [("src/subdevice_group/handle.rs", "        Ok(pdi_position.increment(self.max_pdi_len as u16))", "        Ok(pdi_position.increment(self.inner.subdevices.len() as u16))")]},
    {"id": "c08-fmmu-offset-after", "property": "C08", "expect": "C08.dev|write_fmmu_config:window",
     "edits": [("src/subdevice/configuration.rs", "                logical_start_address: global_offset.start_address,", "                logical_start_address: global_offset.increment_byte_aligned(sm_bit_len).start_address,")]},
    {"id": "c08-write-guard-over-inputs", "property": "C08", "expect": "C08.guard",
     "edits": [("src/subdevice/pdi.rs", "            lock: self.state.pdi.write(),\n            range: self.state.config.io.output.bytes.clone(),", "            lock: self.state.pdi.write(),\n            range: self.state.config.io.input.bytes.clone(),")]},
    # ---------------- C09 ----------------
    {"id": "c09-single-loop", "property": "C09", "expect": "C09.init|two-phase-addressing",
     "edits": [("src/maindevice.rs", """            .send(self, configured_address)
            .await?;
        }

        // Now perform initial configuration for each subdevice. This is done in a separate loop
        // after all configured addresses are set to deal with the case where a powered on SD with a
        // set address is added to the network before init. In this case, two SDs could have the
        // same address which wouldn't have been reset yet when we're half way through a single
        // configuration loop.
        for subdevice_idx in 0..num_subdevices {
            let configured_address = BASE_SUBDEVICE_ADDRESS.wrapping_add(subdevice_idx);
""", """            .send(self, configured_address)
            .await?;
""")]},
    {"id": "c09-push-back-ignored", "property": "C09", "expect": "C09.init|capacity:Deque::push_back",
     "edits": [("src/maindevice.rs", """            subdevices
                .push_back(subdevice)
                .map_err(|_| Error::Capacity(Item::SubDevice))?;""", """            let _ = subdevices.push_back(subdevice);""")]},
    {"id": "c09-no-preop-wait", "property": "C09", "expect": "C09.init|preop-wait",
     "edits": [("src/maindevice.rs", "        self.wait_for_state(SubDeviceState::PreOp).await?;\n\n        Ok(groups)", "        Ok(groups)")]},
    {"id": "c09-base-address", "property": "C09", "expect": "C09.init|base-address",
     "edits": [("src/lib.rs", "const BASE_SUBDEVICE_ADDRESS: u16 = 0x1000;", "const BASE_SUBDEVICE_ADDRESS: u16 = 0x0000;")]},
    # ---------------- C10 ----------------
    {"id": "c10-no-wait", "property": "C10", "expect": "C10.transition|typestate-after-successful-wait",
     "edits": [("src/subdevice_group/mod.rs", "        self.wait_for_state(maindevice, desired_state).await?;\n\n        fmt::debug!(\"--> Group reached state {}\", desired_state);", "        fmt::debug!(\"--> Group reached state {}\", desired_state);")]},
    {"id": "c10-wait-other-state", "property": "C10", "expect": "C10.transition|typestate-after-successful-wait",
     "edits": [("src/subdevice_group/mod.rs", "        self.wait_for_state(maindevice, desired_state).await?;\n\n        fmt::debug!(\"--> Group reached state {}\", desired_state);", "        self.wait_for_state(maindevice, SubDeviceState::PreOp).await?;\n\n        fmt::debug!(\"--> Group reached state {}\", desired_state);")]},
    {"id": "c10-no-timeout", "property": "C10", "expect": "C10.timeout|SubDeviceGroup::wait_for_state",
     "edits": [("src/subdevice_group/mod.rs", """                maindevice.timeouts.loop_tick().await;
            }
        }
        .timeout(maindevice.timeouts.state_transition())
        .await
    }

    /// Transition to a new state.""", """                maindevice.timeouts.loop_tick().await;
            }
        }
        .await
    }

    /// Transition to a new state.""")]},
    {"id": "c10-is-state-any", "property": "C10", "expect": "C10.is_state|compare-every-response",
     "edits": [("src/subdevice_group/mod.rs", "                if result.state != desired_state {\n                    return Ok(false);\n                }", "                if result.state == desired_state {\n                    return Ok(true);\n                }")]},
    {"id": "c10-skip-first-member", "property": "C10", "expect": "C10.transition|request-every-member",
     "edits": [("src/subdevice_group/mod.rs", "        for subdevice in self.inner.get_mut().subdevices.iter_mut() {\n            SubDeviceRef::new(maindevice, subdevice.configured_address(), subdevice)\n                .request_subdevice_state_nowait(desired_state)", "        for subdevice in self.inner.get_mut().subdevices.iter_mut().skip(1) {\n            SubDeviceRef::new(maindevice, subdevice.configured_address(), subdevice)\n                .request_subdevice_state_nowait(desired_state)")]},
    {"id": "c10-summary-bitmap", "property": "C10", "expect": "C10.summary",
     "edits": [("src/subdevice_group/tx_rx_response.rs", """        // Every single SubDevice must have reported the desired state. The `group_state` bitmap
        // cannot be used here as a `None` state contributes no bits to it.
        self.subdevice_states
            .iter()
            .all(|state| *state == desired_state)""", """        self.group_state().bits() == u8::from(desired_state)""")]},
    {"id": "c10-main-wait-ignores-wkc", "property": "C10", "expect": "C10.main_wait|expects-all-devices",
     "edits": [("src/maindevice.rs", "                    .with_wkc(num_subdevices)\n", "                    .ignore_wkc()\n")], "also": ["C11"]},
    # ---------------- C12 ----------------
    {"id": "c12-no-clamp", "property": "C12", "expect": "C12.read|clamped-destination",
     "edits": [("src/eeprom/mod.rs", "            .get_mut(0..requested_read_len.min(max_read))", "            .get_mut(0..requested_read_len)")]},
    {"id": "c12-identity-word", "property": "C12", "expect": "C12.addr|SubDeviceEeprom::identity",
     "edits": [("src/subdevice/eeprom.rs", "self.start_at(0x0008, SubDeviceIdentity::PACKED_LEN)", "self.start_at(0x000a, SubDeviceIdentity::PACKED_LEN)")]},
    {"id": "c12-sm-enable-offset", "property": "C12", "expect": "C12.struct|SyncManager",
     "edits": [("src/eeprom/types.rs", "    #[wire(bytes = 1, post_skip_bytes = 1)]\n    pub(crate) control: sync_manager_channel::Control,\n    #[wire(bytes = 1)]\n    pub(crate) enable: SyncManagerEnable,", "    #[wire(bytes = 1)]\n    pub(crate) control: sync_manager_channel::Control,\n    #[wire(bytes = 1, post_skip_bytes = 1)]\n    pub(crate) enable: SyncManagerEnable,")], "also": ["C19"], "also_expect_none": ["C19"]},
    {"id": "c12-odd-skip-always", "property": "C12", "expect": "C12.read|odd-skip",
     "edits": [("src/eeprom/mod.rs", """            // If position is odd, we must skip the first received byte as the reader operates on
            // WORD addresses.
            let skip = (self.byte_pos % 2) as usize;""", """            // If position is odd, we must skip the first received byte as the reader operates on
            // WORD addresses.
            let skip = (self.byte_pos % 4) as usize;""")]},
    {"id": "c12-category-code", "property": "C12", "expect": "C12.addr|category-codes",
     "edits": [("src/eeprom/types.rs", "    SyncManager = 41,", "    SyncManager = 44,")]},
    # ---------------- C14 ----------------
    {"id": "c14-checksum-before-patch", "property": "C14", "expect": "C14.alias|alias-then-checksum",
     "edits": [("src/subdevice/eeprom.rs", """            chunk[STATION_ALIAS_POSITION].copy_from_slice(&new_alias.to_le_bytes());

            u16::from(STATION_ALIAS_CRC.checksum(&chunk))""", """            let crc = u16::from(STATION_ALIAS_CRC.checksum(&chunk));

            chunk[STATION_ALIAS_POSITION].copy_from_slice(&new_alias.to_le_bytes());

            crc""")]},
    {"id": "c14-crc-init-0", "property": "C14", "expect": "C14.const|crc-parameters",
     "edits": [("src/eeprom/mod.rs", "    poly: 0x07,\n    init: 0xff,", "    poly: 0x07,\n    init: 0x00,")]},
    {"id": "c14-retry-unbounded", "property": "C14", "expect": "C14.retry|bounded-retry",
     "edits": [("src/eeprom/device_provider.rs", "            if retry_count < 20 {", "            if retry_count < usize::MAX {")]},
    {"id": "c14-checksum-word-6", "property": "C14", "expect": "C14.const|checksum-range",
     "edits": [("src/eeprom/mod.rs", "pub const CHECKSUM_POSITION: core::ops::Range<usize> = 14..16;", "pub const CHECKSUM_POSITION: core::ops::Range<usize> = 12..14;")]},
    {"id": "c14-write-past-end", "property": "C14", "expect": "C14.write|range-write",
     "edits": [("src/eeprom/mod.rs", """            // The pointer has reached the end of the chunk
            if self.end.saturating_sub(self.byte_pos) == 0 {
                break;
            }
""", "")]},
    # ---------------- C15 ----------------
    {"id": "c15-abort-before-emergency", "property": "C15", "expect": "C15.triage|order-and-kinds",
     "edits": [("src/mailbox/coe/mod.rs", "        if headers.command == CoeCommand::Abort {", "        if headers.command == CoeCommand::Abort && headers.header.mailbox_type == MailboxType::Coe {")], "skip": True},
    {"id": "c15-one-counter-for-segments", "property": "C15", "expect": "C15.counter|SdoSegmented::upload",
     "edits": [("src/mailbox/coe/mod.rs", """                drop(response);

                loop {
                    let request = SdoSegmented::upload(self.subdevice.mailbox_counter(), toggle);""", """                drop(response);

                let segment_counter = self.subdevice.mailbox_counter();

                loop {
                    let request = SdoSegmented::upload(segment_counter, toggle);""")]},
    {"id": "c15-no-toggle", "property": "C15", "expect": "C15.read|toggle-per-segment",
     "edits": [("src/mailbox/coe/mod.rs", "                    toggle = !toggle;\n", "")]},
    {"id": "c15-no-too-long", "property": "C15", "expect": "C15.read|too-long-guard",
     "edits": [("src/mailbox/coe/mod.rs", "            if complete_size > buf.len() as u32 {", "            if complete_size > buf.len() as u32 && false {")]},
    {"id": "c15-count-first", "property": "C15", "expect": "C15.array|write-array",
     "edits": [("src/mailbox/coe/mod.rs", "        self.sdo_write(index, 0, 0u8).await?;\n\n        for (i, value) in values.iter().enumerate() {", "        self.sdo_write(index, 0, values.len() as u8).await?;\n\n        for (i, value) in values.iter().enumerate() {")]},
    {"id": "c15-counter-cycle-8", "property": "C15", "expect": "C15.counter|cycle-1..7",
     "edits": [("src/subdevice/mod.rs", "if n >= 7 { Some(1) } else { Some(n + 1) }", "if n >= 8 { Some(1) } else { Some(n + 1) }")]},
    {"id": "c15-invalid-response-accepted", "property": "C15", "expect": "C15.triage|order-and-kinds",
     "edits": [("src/mailbox/coe/mod.rs", "            || !request.validate_response(headers.address, headers.sub_index)\n", "")]},
    # ---------------- C19 ----------------
    {"id": "c19-mask-off-by-one", "property": "C19", "expect": "C19.tv|read-field",
     "edits": [("ethercrab-wire-derive/src/generate_struct.rs", """        if field.bits.len() <= 8 {
            let mask = (2u16.pow(field.bits.len() as u32) - 1) << bit_start;""", """        if field.bits.len() <= 8 {
            let mask = (2u16.pow(field.bits.len() as u32 + if bit_start == 5 { 1 } else { 0 }) - 1) << bit_start;""")]},
    {"id": "c19-no-zero-fill", "property": "C19", "expect": "C19.tv|write-zero-fill",
     "edits": [("ethercrab-wire-derive/src/generate_struct.rs", """                unsafe {
                    buf.as_mut_ptr().write_bytes(0u8, buf.len());
                }

                #(#fields_pack)*""", """                #(#fields_pack)*""")]},
    {"id": "c19-enum-implicit-from-1", "property": "C19", "expect": "C19.tv|enum-read|shape:implicit-first-variant",
     "edits": [("ethercrab-wire-derive/src/parse_enum.rs", "None => discriminant_accum.map_or(0, |previous| previous + 1),", "None => discriminant_accum.map_or(1, |previous| previous + 1),")]},
    {"id": "c19-write-shift", "property": "C19", "expect": "C19.tv|write-field",
     "edits": [("ethercrab-wire-derive/src/generate_struct.rs", """            quote! {
                buf[#byte_start] |= ((#field_access as u8) << #bit_start) & #mask;
            }""", """            let bit_start = if bit_start == 3 { 2 } else { bit_start };
            quote! {
                buf[#byte_start] |= ((#field_access as u8) << #bit_start) & #mask;
            }""")]},
    {"id": "c19-u32-be", "property": "C19", "expect": "C19.prim|le-pair|u32",
     "edits": [("ethercrab-wire/src/impls.rs", "                    .map(|chunk| Self::from_le_bytes(*chunk))", "                    .map(|chunk| Self::from_be_bytes(*chunk))")]},
    {"id": "c19-default-as-error", "property": "C19", "expect": "C19.tv|enum-read",
     "edits": [("ethercrab-wire-derive/src/generate_enum.rs", """    } else if let Some(ref default_variant) = parsed.default_variant {
        let default = default_variant.name.clone();

        quote! {
            _other => Ok(Self::#default)
        }
    } else {""", """    } else if let Some(ref _default_variant) = parsed.default_variant {
        quote! {
            _other => { Err(::ethercrab_wire::WireError::InvalidValue) }
        }
    } else {""")]},
    # ---------------- C20 ----------------
    {"id": "c20-cell-in-maindevice", "property": "C20", "expect": "C20.unsafe|MainDevice:Sync",
     "edits": [("src/maindevice.rs", "    pub(crate) config: MainDeviceConfig,\n}", "    pub(crate) config: MainDeviceConfig,\n    #[allow(unused)]\n    scratch: core::cell::Cell<u16>,\n}"),
               ("src/maindevice.rs", "            config,\n        }\n    }", "            config,\n            scratch: core::cell::Cell::new(0),\n        }\n    }")]},
    {"id": "c20-new-unsafe-impl", "property": "C20", "expect": "C20.unsafe|impl:PduLoop:Sync",
     "edits": [("src/pdu_loop/mod.rs", "impl<'sto> PduLoop<'sto> {\n", "unsafe impl Sync for PduLoop<'_> {}\n\nimpl<'sto> PduLoop<'sto> {\n")]},
    {"id": "c20-idx-load-store", "property": "C20", "expect": "C20.words",
     "edits": [("src/pdu_loop/frame_element/frame_box.rs", "        self.pdu_idx.fetch_add(1, Ordering::Relaxed)", "        let v = self.pdu_idx.load(Ordering::Relaxed);\n        self.pdu_idx.store(v.wrapping_add(1), Ordering::Relaxed);\n        v")]},
    {"id": "c20-lock-after-alloc", "property": "C20", "expect": "C20.lock|SubDeviceGroup::tx_rx:own-lock", "also": ["C07"],
     "edits": [("src/subdevice_group/mod.rs", """        let mut pdi_lock = self.pdi.write();

        let mut total_bytes_sent = 0;
        let mut lrw_wkc_sum = 0u16;

        let mut subdevices = self.inner().subdevices.iter();
        let mut total_checks = 0;
        let mut subdevice_states = heapless::Vec::<_, MAX_SUBDEVICES>::new();

        loop {
            let chunk_len = self.pdi_len.saturating_sub(total_bytes_sent);

            if chunk_len == 0 && total_checks >= self.len() {
                break;
            }
""", """        let _probe = maindevice.pdu_loop.alloc_frame()?;
        drop(_probe);
        let mut pdi_lock = self.pdi.write();

        let mut total_bytes_sent = 0;
        let mut lrw_wkc_sum = 0u16;

        let mut subdevices = self.inner().subdevices.iter();
        let mut total_checks = 0;
        let mut subdevice_states = heapless::Vec::<_, MAX_SUBDEVICES>::new();

        loop {
            let chunk_len = self.pdi_len.saturating_sub(total_bytes_sent);

            if chunk_len == 0 && total_checks >= self.len() {
                break;
            }
""")]},
    # ---------------- neutral (behaviour preserving) edits: must stay silent ----------------
    {"id": "c06-late-reply-is-error", "property": "C06", "expect": "C06.rx|lookup-found-nothing:ignored-not-error",
     "edits": [("src/pdu_loop/pdu_rx.rs", """            fmt::trace!("No frame is waiting for PDU {:#04x}, ignoring", pdu_idx);

            return Ok(ReceiveAction::Ignored);""", """            fmt::trace!("No frame is waiting for PDU {:#04x}", pdu_idx);

            return Err(Error::Pdu(crate::error::PduError::Decode));""")]},
    {"id": "c06-timer-poll-discarded", "property": "C06", "expect": "C06.poll|retry-bookkeeping",
     "edits": [("src/pdu_loop/frame_element/receiving_frame.rs", "                cx.waker().wake_by_ref();\n", "                let _ = self.timeout_timer.poll(cx);\n")]},
    {"id": "c06-retry-plain-store", "property": "C06", "expect": "C06.poll|retry-bookkeeping", "also": ["C02"],
     "edits": [("src/pdu_loop/frame_element/receiving_frame.rs", """                if rxin
                    .swap_state(FrameState::Sent, FrameState::Sendable)
                    .is_ok()
                {
                    // Wake frame sender so it picks up this frame we've just marked
                    self.pdu_loop.wake_sender();
                }""", """                rxin.set_state(FrameState::Sendable);
                self.pdu_loop.wake_sender();""")]},
    {"id": "c05-oversize-keeps-claim", "property": "C05", "expect": "C05.S4|receive_frame:claim-resolved-on-every-exit", "also": ["C01"],
     "edits": [("src/pdu_loop/pdu_rx.rs", """        let Some(frame_data) = frame.buf_mut().get_mut(0..i.len()) else {
            frame.release_receiving_claim();

            return Err(Error::Internal);
        };""", """        let Some(frame_data) = frame.buf_mut().get_mut(0..i.len()) else {
            return Err(Error::Internal);
        };""")]},
    {"id": "c16-segment-loop-unbounded", "property": "C16", "expect": "C16.loop|Coe::sdo_read:bounded",
     "edits": [("src/mailbox/coe/mod.rs", """                    if chunk_len == 0 {
                        return Err(Error::Internal);
                    }

""", "")]},
    {"id": "c16-info-loop-unbounded", "property": "C16", "expect": "C16.loop|Coe::send_sdo_info_service:bounded",
     "edits": [("src/mailbox/coe/mod.rs", "            responses_left = responses_left.checked_sub(1).ok_or(Error::Internal)?;\n", "            responses_left = responses_left.saturating_sub(1);\n")]},
    {"id": "c17-raw-latches", "property": "C17", "expect": "C17.wrap|receive-times-rebased",
     "edits": [("src/subdevice/ports.rs", "                port.dc_receive_time = port.dc_receive_time.wrapping_sub(earliest);", "                let _ = earliest;")]},
    {"id": "c17-direct-parent-times", "property": "C17", "expect": "C17.chain|measured-from-dc-capable-upstream",
     "edits": [("src/dc.rs", "        if parent.dc_support().any() {\n            break parent;\n        }", "        if true {\n            break parent;\n        }")]},
    {"id": "c18-sync1-u64", "property": "C18", "expect": "C18.cfg|range-check:sync1_period",
     "edits": [("src/subdevice_group/mod.rs", "                let sync1_period = u64::from(u32::try_from(sync1_period.as_nanos())?);", "                let sync1_period = u64::try_from(sync1_period.as_nanos())?;")]},
    {"id": "c14-retry-exhaustion-ok", "property": "C14", "expect": "C14.retry|bounded-retry",
     "edits": [("src/eeprom/device_provider.rs", "                break Err(Error::Timeout(TimeoutError::Eeprom));", "                let _ = TimeoutError::Eeprom;\n\n                break Ok(());")]},
    {"id": "c14-count-padded-word", "property": "C14", "expect": "C14.write|range-write",
     "edits": [("src/eeprom/mod.rs", "            written += buf.len() - rest.len();", "            written += word.len();")]},
    {"id": "c20-hold-initiate-response", "property": "C20", "expect": "C20.slots|sdo_read:initiate-response-released-before-segments",
     "edits": [("src/mailbox/coe/mod.rs", "                drop(response);\n\n", "")]},
    {"id": "c19-tuple-index", "property": "C19", "expect": "C19.np",
     "edits": [("ethercrab-wire/src/impls.rs", """                            buf = buf
                                .get($name::PACKED_LEN..)
                                .ok_or(WireError::ReadBufferTooShort)?;""", """                            buf = &buf[$name::PACKED_LEN..];""")]},
    {"id": "n-c05-rename-awaiting-helper", "property": "C05", "neutral": True, "also": ["C01", "C20"],
     "edits": [("src/pdu_loop/frame_element/mod.rs", "unsafe fn is_awaiting_response(", "unsafe fn is_sent(", ),
               ("src/pdu_loop/storage.rs", "FrameElement::<0>::is_awaiting_response(frame)", "FrameElement::<0>::is_sent(frame)")]},
    {"id": "c20-lookup-any-claimed-slot", "property": "C20", "expect": "C20.S8|lookup:state-test-too-wide", "also": ["C01", "C05"],
     "edits": [("src/pdu_loop/frame_element/mod.rs", "        state == FrameState::Sent\n", "        state != FrameState::None\n")]},
    {"id": "n-c05-split-filter", "property": "C05", "neutral": True, "also": ["C01", "C02"],
     "edits": [("src/pdu_loop/pdu_rx.rs", """        if raw_packet.ethertype() != ETHERCAT_ETHERTYPE || raw_packet.src_addr() == self.source_mac
        {
            fmt::trace!("Ignore frame");

            return Ok(ReceiveAction::Ignored);
        }""", """        if raw_packet.ethertype() != ETHERCAT_ETHERTYPE {
            return Ok(ReceiveAction::Ignored);
        }

        let from_us = raw_packet.src_addr() == self.source_mac;

        if from_us {
            fmt::trace!("Ignore frame");

            return Ok(ReceiveAction::Ignored);
        }""")]},
    {"id": "n-c03-send-if-else", "property": "C03", "neutral": True, "also": ["C02", "C06"],
     "edits": [("src/pdu_loop/frame_element/sendable_frame.rs", """        match send(self.as_bytes()) {
            Ok(bytes_sent) if bytes_sent == len => {
                self.mark_sent();

                Ok(bytes_sent)
            }
            Ok(bytes_sent) => {
                self.release_sending_claim();

                Err(Error::PartialSend {
                    len,
                    sent: bytes_sent,
                })
            }
            Err(res) => {
                self.release_sending_claim();

                Err(res)
            }
        }""", """        let outcome = send(self.as_bytes());

        let bytes_sent = match outcome {
            Ok(n) => n,
            Err(res) => {
                self.release_sending_claim();

                return Err(res);
            }
        };

        if len == bytes_sent {
            self.mark_sent();

            Ok(bytes_sent)
        } else {
            self.release_sending_claim();

            Err(Error::PartialSend {
                len,
                sent: bytes_sent,
            })
        }""")]},
    {"id": "n-c04-reorder-init", "property": "C04", "neutral": True,
     "edits": [("src/pdu_loop/frame_element/frame_box.rs", "        ethernet_frame.set_src_addr(MAINDEVICE_ADDR);\n        ethernet_frame.set_dst_addr(EthernetAddress::BROADCAST);", "        ethernet_frame.set_dst_addr(EthernetAddress::BROADCAST);\n        ethernet_frame.set_src_addr(MAINDEVICE_ADDR);")]},
    {"id": "c12-string-exact-fit-rejected", "property": "C12", "expect": "C12.string|exact-fit-accepted",
     "edits": [("src/subdevice/eeprom.rs", "            if string_len > N {", "            if string_len >= N {")]},
    {"id": "c12-string-skip-one-more", "property": "C12", "expect": "C12.string|skip-index-minus-one",
     "edits": [("src/subdevice/eeprom.rs", "            for i in 0..search_index {\n                let string_len = reader.read_byte().await?;", "            for i in 0..=search_index {\n                let string_len = reader.read_byte().await?;")]},
    {"id": "c12-string-len-minus-one", "property": "C12", "expect": "C12.string|exact-fit-accepted",
     "edits": [("src/subdevice/eeprom.rs", "            unsafe { buf.set_len(string_len) }", "            unsafe { buf.set_len(string_len.saturating_sub(1)) }")]},
    {"id": "n-c12-string-guard-flipped", "property": "C12", "neutral": True, "also": ["C13"],
     "edits": [("src/subdevice/eeprom.rs", "            if string_len > N {", "            if N < string_len {")]},
    {"id": "n-c12-cmp-min", "property": "C12", "neutral": True, "also": ["C13"],
     "edits": [("src/eeprom/mod.rs", "            .get_mut(0..requested_read_len.min(max_read))", "            .get_mut(0..core::cmp::min(max_read, requested_read_len))")]},
    {"id": "n-c13-match-checked-add", "property": "C13", "neutral": True,
     "edits": [("src/subdevice/eeprom.rs", """            let Some(next) = word_addr.checked_add(len_words) else {
                fmt::warn!(
                    "EEPROM category {:?} length {:#06x} overruns the address space. EEPROM could be empty or corrupt.",
                    category_type,
                    len_words
                );

                break Ok(None);
            };

            word_addr = next;""", """            word_addr = match word_addr.checked_add(len_words) {
                Some(following) => following,
                None => {
                    fmt::warn!(
                        "EEPROM category {:?} length {:#06x} overruns the address space. EEPROM could be empty or corrupt.",
                        category_type,
                        len_words
                    );

                    break Ok(None);
                }
            };""")]},
    {"id": "n-c14-hoist-words", "property": "C14", "neutral": True,
     "edits": [("src/subdevice/eeprom.rs", """        // Write new alias address
        self.start_at((STATION_ALIAS_POSITION.start / 2) as u16, 2)
            .write_all(&new_alias.to_le_bytes())
            .await?;""", """        // Write new alias address
        let alias_word = (STATION_ALIAS_POSITION.start / 2) as u16;
        let alias_bytes = new_alias.to_le_bytes();
        self.start_at(alias_word, 2).write_all(&alias_bytes).await?;""")]},
    {"id": "n-c15-swap-operands", "property": "C15", "neutral": True, "also": ["C16"],
     "edits": [("src/mailbox/coe/mod.rs", "        if headers.command == CoeCommand::Abort {", "        if CoeCommand::Abort == headers.command {")]},
    {"id": "n-c16-if-let-checked-sub", "property": "C16", "neutral": True, "also": ["C15"],
     "edits": [("src/mailbox/coe/mod.rs", """                    let mut chunk_len =
                        usize::from(headers.header.length.checked_sub(3).ok_or(Error::Internal)?);""", """                    let Some(segment_len) = headers.header.length.checked_sub(3) else {
                        return Err(Error::Internal);
                    };
                    let mut chunk_len = usize::from(segment_len);""")]},
    {"id": "c17-parent-any-junction", "property": "C17", "expect": "C17.parent|nearest-junction-with-free-port",
     "edits": [("src/dc.rs", """                .find(|subdevice| {
                    subdevice.ports.topology().is_junction()
                        && subdevice.ports.has_free_downstream_port()
                })""", """                .find(|subdevice| subdevice.ports.topology().is_junction())""")]},
    {"id": "c17-parent-forward-search", "property": "C17", "expect": "C17.parent|nearest-junction-with-free-port",
     "edits": [("src/dc.rs", "    let mut parents_it = parents.iter().rev();\n\n    if let Some(parent) = parents_it.next() {", "    if let Some((parent, ancestors)) = parents.split_last() {\n        let mut parents_it = ancestors.iter();")]},
    {"id": "n-c17-parent-rfind", "property": "C17", "neutral": True,
     "edits": [("src/dc.rs", "    let mut parents_it = parents.iter().rev();\n\n    if let Some(parent) = parents_it.next() {", "    if let Some((parent, ancestors)) = parents.split_last() {"),
               ("src/dc.rs", "            let split_point = parents_it\n                .find(|subdevice| {", "            let split_point = ancestors\n                .iter()\n                .rfind(|subdevice| {")]},
    {"id": "n-c17-rename-fold", "property": "C17", "neutral": True,
     "edits": [("src/subdevice/ports.rs", ".fold(0u32, |total, delta| total.saturating_add(delta))", ".fold(0u32, |sum_so_far, d| sum_so_far.saturating_add(d))")]},
    {"id": "c18-round-terms-separately", "property": "C18", "expect": "C18.cfg|register-value-table",
     "edits": [("src/subdevice_group/mod.rs", "                system_time.wrapping_add(first_pulse_delay) / sync0_period * sync0_period;", "                (system_time / sync0_period * sync0_period).wrapping_add(first_pulse_delay / sync0_period * sync0_period);")]},
    {"id": "n-c18-start-sub-rem", "property": "C18", "neutral": True,
     "edits": [("src/subdevice_group/mod.rs", "            let start_time =\n                system_time.wrapping_add(first_pulse_delay) / sync0_period * sync0_period;", "            let first_pulse = system_time.wrapping_add(first_pulse_delay);\n            let start_time = first_pulse - first_pulse % sync0_period;")]},
    {"id": "n-c18-start-named-sum", "property": "C18", "neutral": True,
     "edits": [("src/subdevice_group/mod.rs", "            let start_time =\n                system_time.wrapping_add(first_pulse_delay) / sync0_period * sync0_period;", "            let first_pulse = system_time.wrapping_add(first_pulse_delay);\n            let cycles = first_pulse / sync0_period;\n            let start_time = sync0_period * cycles;")]},
    {"id": "c14-early-ok-when-alias-unchanged", "property": "C14", "expect": "C14.alias|alias-then-checksum",
     "edits": [("src/subdevice/eeprom.rs", "            chunk[STATION_ALIAS_POSITION].copy_from_slice(&new_alias.to_le_bytes());\n", "            if chunk[STATION_ALIAS_POSITION] == new_alias.to_le_bytes() {\n                return Ok(());\n            }\n\n            chunk[STATION_ALIAS_POSITION].copy_from_slice(&new_alias.to_le_bytes());\n")]},
    {"id": "n-c18-reorder-range-checks", "property": "C18", "neutral": True,
     "edits": [("src/subdevice_group/mod.rs", """        let sync0_period = u64::from(u32::try_from(sync0_period.as_nanos())?);

        let first_pulse_delay = u64::from(u32::try_from(start_delay.as_nanos())?);""", """        let first_pulse_delay = u64::from(u32::try_from(start_delay.as_nanos())?);

        let sync0_period = u64::from(u32::try_from(sync0_period.as_nanos())?);""")]},
    {"id": "n-c09-rename-loop-var", "property": "C09", "neutral": True,
     "edits": [("src/maindevice.rs", """        for subdevice_idx in 0..num_subdevices {
            let configured_address = BASE_SUBDEVICE_ADDRESS.wrapping_add(subdevice_idx);

            let subdevice = SubDevice::new(self, subdevice_idx, configured_address).await?;""", """        for position in 0..num_subdevices {
            let station_address = BASE_SUBDEVICE_ADDRESS.wrapping_add(position);

            fmt::trace!("Reading SubDevice at position {}", position);

            let subdevice = SubDevice::new(self, position, station_address).await?;""")]},
    {"id": "n-c10-accumulator", "property": "C10", "neutral": True,
     "edits": [("src/subdevice_group/mod.rs", "        let mut total_checks = 0;\n\n        // Send as many frames as required to check statuses of all subdevices", "        let mut total_checks = 0;\n        let mut all_in_state = true;\n\n        // Send as many frames as required to check statuses of all subdevices"),
               ("src/subdevice_group/mod.rs", """                // Return from this fn as soon as the first undesired state is found
                if result.state != desired_state {
                    return Ok(false);
                }""", """                // Remember any undesired state; keep polling so the sanity check below always runs
                all_in_state = all_in_state && result.state == desired_state;"""),
               ("src/subdevice_group/mod.rs", "        debug_assert_eq!(total_checks, self.len());\n\n        Ok(true)", "        debug_assert_eq!(total_checks, self.len());\n\n        Ok(all_in_state)")]},
    {"id": "c10-accumulator-overwrite", "property": "C10", "expect": "C10.is_state|compare-every-response",
     "edits": [("src/subdevice_group/mod.rs", "        let mut total_checks = 0;\n\n        // Send as many frames as required to check statuses of all subdevices", "        let mut total_checks = 0;\n        let mut all_in_state = true;\n\n        // Send as many frames as required to check statuses of all subdevices"),
               ("src/subdevice_group/mod.rs", """                // Return from this fn as soon as the first undesired state is found
                if result.state != desired_state {
                    return Ok(false);
                }""", """                // Remember the state; keep polling so the sanity check below always runs
                all_in_state = result.state == desired_state;"""),
               ("src/subdevice_group/mod.rs", "        debug_assert_eq!(total_checks, self.len());\n\n        Ok(true)", "        debug_assert_eq!(total_checks, self.len());\n\n        Ok(all_in_state)")]},
    {"id": "c10-skip-first-response", "property": "C10", "expect": "C10.is_state|compare-every-response",
     "edits": [("src/subdevice_group/mod.rs", "            for pdu in received.into_pdu_iter() {\n                // Each status", "            for pdu in received.into_pdu_iter().skip(1) {\n                // Each status")]},
    {"id": "c10-break-on-first-match", "property": "C10", "expect": "C10.is_state|compare-every-response",
     "edits": [("src/subdevice_group/mod.rs", """                if result.state != desired_state {
                    return Ok(false);
                }""", """                if result.state != desired_state {
                    return Ok(false);
                } else {
                    break;
                }""")]},
    {"id": "n-c10-log-in-transition", "property": "C10", "neutral": True,
     "edits": [("src/subdevice_group/mod.rs", "        fmt::debug!(\"Waiting for group state {}\", desired_state);\n", "        fmt::debug!(\"Waiting for group state {}\", desired_state);\n        fmt::trace!(\"group has {} members\", self.len());\n")]},
    {"id": "n-c07-hoist-start", "property": "C07", "neutral": True, "also": ["C18", "C20"],
     "edits": [("src/subdevice_group/mod.rs", """            // Start offset in the EtherCAT address space
            let pushed_chunk = if !chunk.is_empty() {
                let start_addr = self.inner().pdi_start.start_address + total_bytes_sent as u32;""", """            // Start offset in the EtherCAT address space
            let pushed_chunk = if !chunk.is_empty() {
                let group_start = self.inner().pdi_start.start_address;
                let start_addr = group_start + total_bytes_sent as u32;""")]},
    {"id": "c08-extend-on-device-flag", "property": "C08", "expect": "C08.reconf|extend-only-own-mapping",
     "edits": [("src/subdevice/configuration.rs", "        let fmmu_config = if extend_existing && fmmu_config.enable {", "        let _ = extend_existing;\n        let fmmu_config = if fmmu_config.enable {")]},
    {"id": "c08-flag-always-true", "property": "C08", "expect": "C08.reconf|extend-only-own-mapping",
     "edits": [("src/subdevice/configuration.rs", "                        if mapped_end == sm_config.physical_start_address =>", "                        if mapped_end <= sm_config.physical_start_address =>")]},
    {"id": "n-c08-clear-on-pre-op", "property": "C08", "neutral": True, "also": ["C10"],
     "edits": [("src/subdevice/configuration.rs", "        let fmmu_config = if extend_existing && fmmu_config.enable {", "        let _ = extend_existing;\n        let fmmu_config = if fmmu_config.enable {"),
               ("src/subdevice_group/mod.rs", """        self.transition_to(maindevice, SubDeviceState::PreOp).await
""", """        let self_ = self.transition_to(maindevice, SubDeviceState::PreOp).await?;

        // FMMU mappings are configured again on the way to SAFE-OP: start from blank registers
        for subdevice in self_.inner().subdevices.iter() {
            for fmmu_idx in 0..16u8 {
                Command::fpwr(
                    subdevice.configured_address(),
                    RegisterAddress::fmmu(fmmu_idx).into(),
                )
                .send(maindevice, [0u8; 16])
                .await?;
            }
        }

        Ok(self_)
""")]},
    {"id": "c15-segment-command-missing", "property": "C15", "expect": "C15.seg|response-commands-decodable",
     "edits": [("src/mailbox/coe/headers.rs", "    /// Sent by the SubDevice in response to an [`UploadSegment`](CoeCommand::UploadSegment) request.\n    UploadSegmentResponse = 0x00,\n", "")]},
    {"id": "c15-segment-trim-12", "property": "C15", "expect": "C15.seg|payload-after-own-headers", "also": ["C16"], "also_expect_none": ["C16"],
     "edits": [("src/mailbox/coe/mod.rs", "            response.trim_front(R::PACKED_LEN.min(HeadersRaw::PACKED_LEN));", "            response.trim_front(HeadersRaw::PACKED_LEN);")]},
    {"id": "c15-first-fragment-dropped", "property": "C15", "expect": "C15.seg|first-fragment-kept",
     "edits": [("src/mailbox/coe/mod.rs", "                let mut total_len = first_chunk.len();", "                let mut total_len = 0usize;")]},
    {"id": "c15-emergency-after-sdo-decode", "property": "C15", "expect": "C15.seg|emergency-before-sdo-decode",
     "edits": [("src/mailbox/coe/mod.rs", "            response.trim_front(ServiceHeaders::PACKED_LEN);", "            response.trim_front(HeadersRaw::PACKED_LEN);")]},
    {"id": "c07-ok-without-state-count", "property": "C07", "expect": "C07.states|SubDeviceGroup::tx_rx_dc:one-per-subdevice-or-error",
     "edits": [("src/subdevice_group/mod.rs", """                next_cycle_wait: Duration::from_nanos(time_to_next_iter),
            },
        }
        .with_state_of_each(self.len())""", """                next_cycle_wait: Duration::from_nanos(time_to_next_iter),
            },
        }
        .with_state_of_each(subdevice_states_len)"""),
               ("src/subdevice_group/mod.rs", "        let time_to_next_iter =\n", "        let subdevice_states_len = subdevice_states.len();\n\n        let time_to_next_iter =\n")]},
    {"id": "c07-lock-before-delegating", "property": "C07", "expect": "C07.term|SubDeviceGroup::tx_rx_sync_system_time:no-reacquire-while-held", "also": ["C20"],
     "edits": [("src/subdevice_group/mod.rs", """        if let Some(dc_ref) = maindevice.dc_ref_address() {
            // Only taken here: `tx_rx` below takes the lock itself and it is not reentrant.
            let mut pdi_lock = self.pdi.write();
""", """        let mut pdi_lock = self.pdi.write();

        if let Some(dc_ref) = maindevice.dc_ref_address() {
""")]},
    {"id": "c11-group-poll-no-wkc", "property": "C11", "expect": "C11.raw|SubDeviceGroup::is_state:wkc-before-decode", "also": ["C10"], "also_expect_none": ["C10"],
     "edits": [("src/subdevice_group/mod.rs", "                let pdu = pdu?.wkc(1)?;\n\n                let result = AlControl::unpack_from_slice(&pdu)?;", "                let pdu = pdu?;\n\n                let result = AlControl::unpack_from_slice(&pdu)?;")]},
    {"id": "c01-no-revalidation", "property": "C01", "expect": "C01.S4|receive_frame:marker-revalidated-after-claim", "also": ["C20"],
     "edits": [("src/pdu_loop/pdu_rx.rs", "        if !frame.first_pdu_is(pdu_idx) {", "        if false && !frame.first_pdu_is(pdu_idx) {")]},
    {"id": "c01-wrong-claim-dropped", "property": "C01", "expect": "C01.S4|receive_frame:marker-revalidated-after-claim",
     "edits": [("src/pdu_loop/pdu_rx.rs", "            frame.release_receiving_claim();\n\n            return Ok(ReceiveAction::Ignored);", "            return Ok(ReceiveAction::Ignored);")]},
    {"id": "c03-mark-sent-store", "property": "C03", "expect": "C03.tx|conditional:SendableFrame::mark_sent->Sent", "also": ["C06", "C02"],
     "edits": [("src/pdu_loop/frame_element/sendable_frame.rs", """        let _ = self
            .inner
            .swap_state(FrameState::Sending, FrameState::Sent);""", """        self.inner.set_state(FrameState::Sent);""")]},
    {"id": "c12-range-rounded-to-words", "property": "C12", "expect": "C12.range|start_at:exactly-len-bytes", "also": ["C14"],
     "edits": [("src/subdevice/eeprom.rs", "        EepromRange::new_bytes(self.provider.clone(), word_addr, len_bytes)", "        EepromRange::new_bytes(self.provider.clone(), word_addr, len_bytes / 2 * 2)")]},
    {"id": "c12-read-raw-len-u16", "property": "C12", "expect": "C12.range|SubDevice::eeprom_read_raw:length-untruncated",
     "edits": [("src/subdevice/mod.rs", "            .start_at(start_word, buf.len());", "            .start_at(start_word, usize::from(buf.len() as u16));")]},
    {"id": "c08-fmmu-ex-sm-number", "property": "C08", "expect": "C08.dev|eeprom:fmmu-index-from-FMMU_EX-position",
     "edits": [("src/subdevice/configuration.rs", """                .position(|fmmu| fmmu.sync_manager == sync_manager_index)
                .map(|fmmu_index| fmmu_index as u8)""", """                .find(|fmmu| fmmu.sync_manager == sync_manager_index)
                .map(|fmmu| fmmu.sync_manager)""")]},
    {"id": "n-c08-adjacency-if-let", "property": "C08", "neutral": True,
     "edits": [("src/subdevice/configuration.rs", """                let (fmmu_index, extend_existing) = match current_fmmu {
                    Some((fmmu_index, mapped_end))
                        if mapped_end == sm_config.physical_start_address =>
                    {
                        (fmmu_index, true)
                    }
                    _ => {
                        let fmmu_index = fmmus.next().ok_or(Error::NotFound {
                            item: Item::Fmmu,
                            index: None,
                        })?;

                        (fmmu_index, false)
                    }
                };
""", """                let contiguous = current_fmmu
                    .filter(|(_, mapped_end)| sm_config.physical_start_address == *mapped_end);

                let (fmmu_index, extend_existing) = if let Some((fmmu_index, _)) = contiguous {
                    (fmmu_index, true)
                } else {
                    let fmmu_index = fmmus.next().ok_or(Error::NotFound {
                        item: Item::Fmmu,
                        index: None,
                    })?;

                    (fmmu_index, false)
                };
""")]},
    {"id": "n-c08-rename", "property": "C08", "neutral": True,
     "edits": [("src/subdevice/configuration.rs", "        *global_offset = global_offset.increment_byte_aligned(sm_bit_len);", "        let advanced = global_offset.increment_byte_aligned(sm_bit_len);\n        *global_offset = advanced;")]},
    {"id": "n-c11-log-in-builder", "property": "C11", "neutral": True,
     "edits": [("src/command/reads.rs", "        self.common(maindevice, len).await?.maybe_wkc(self.wkc)", "        let response = self.common(maindevice, len).await?;\n\n        fmt::trace!(\"read {} bytes\", len);\n\n        response.maybe_wkc(self.wkc)"),
               ("src/command/reads.rs", "use crate::{", "use crate::fmt;\nuse crate::{")]},
    {"id": "n-c19-comment-generator", "property": "C19", "neutral": True,
     "edits": [("ethercrab-wire-derive/src/generate_struct.rs", "        // Small optimisation\n        if ty_name == \"u8\" || ty_name == \"bool\" {", "        // Small optimisation (single byte types can be ORed in directly)\n        if ty_name == \"bool\" || ty_name == \"u8\" {")]},
    {"id": "n-c20-reorder-fields", "property": "C20", "neutral": True,
     "edits": [("src/pdu_loop/storage.rs", "    frame_idx: AtomicU8,\n    pdu_idx: AtomicU8,\n    is_split: AtomicBool,", "    pdu_idx: AtomicU8,\n    frame_idx: AtomicU8,\n    is_split: AtomicBool,")]},
    {"id": "c02-init-before-claim", "property": "C02", "expect": "C02.S2|claim_created:init-after-claim",
     "edits": [("src/pdu_loop/frame_element/created_frame.rs", """        let frame = unsafe { FrameElement::claim_created(frame, frame_index)? };

        let mut inner = FrameBox::new(frame, pdu_idx, frame_data_len);

        inner.init();
""", """        let mut inner = FrameBox::new(frame, pdu_idx, frame_data_len);

        inner.init();

        let frame = unsafe { FrameElement::claim_created(frame, frame_index)? };

        let inner = FrameBox::new(frame, pdu_idx, frame_data_len);
""")]},
    {"id": "c02-touch-before-claim", "property": "C02", "expect": "C02.S2|claim_created:claim-before-touch",
     "edits": [("src/pdu_loop/frame_element/mod.rs", """        let this = unsafe { Self::swap_state(this, FrameState::None, FrameState::Created) }
            .map_err(|e| {""", """        unsafe {
            (*addr_of_mut!((*this.as_ptr()).pdu_payload_len)) = 0;
        }

        let this = unsafe { Self::swap_state(this, FrameState::None, FrameState::Created) }
            .map_err(|e| {""")]},
    {"id": "c10-wait-accepts-error", "property": "C10", "expect": "C10.waitloop",
     "edits": [("src/subdevice_group/mod.rs", "                if self.is_state(maindevice, desired_state).await? {\n                    break Ok(());\n                }", "                if self.is_state(maindevice, desired_state).await.unwrap_or(true) {\n                    break Ok(());\n                }")]},
    {"id": "c07-time-read-never-set", "property": "C07", "expect": "C07.cycle|SubDeviceGroup::tx_rx_dc:frmw-first",
     "edits": [("src/subdevice_group/mod.rs", """                time = dc_pdu.and_then(|rx| u64::unpack_from_slice(&rx).map_err(Error::from))?;

                time_read = true;
            }

            // If we pushed a non-zero amount of PDI bytes, process the response
            if let Some((bytes_in_this_chunk, _pdu_handle)) = pushed_chunk {""", """                time = dc_pdu.and_then(|rx| u64::unpack_from_slice(&rx).map_err(Error::from))?;

                let _ = &mut time_read;
            }

            // If we pushed a non-zero amount of PDI bytes, process the response
            if let Some((bytes_in_this_chunk, _pdu_handle)) = pushed_chunk {""")]},
    # ---------------- ERRDROP (error discipline) ----------------
    {"id": "err-c11-eeprom-mode-send-dropped", "property": "C11", "expect": "C11.err|SubDeviceRef::set_eeprom_mode|unused-test:Result::ok",
     "edits": [("src/subdevice/mod.rs", "            .send(self.maindevice, mode)\n            .await?;\n\n        Ok(())", "            .send(self.maindevice, mode)\n            .await\n            .ok();\n\n        Ok(())")]},
    {"id": "err-c09-new-mode-result-ignored", "property": "C09", "expect": "C09.err|SubDevice::new|unused", "also": ["C11"],
     "edits": [("src/subdevice/mod.rs", "        subdevice_ref.set_eeprom_mode(SiiOwner::Master).await?;\n\n        let eeprom = subdevice_ref.eeprom();", "        let _ = subdevice_ref.set_eeprom_mode(SiiOwner::Master).await;\n\n        let eeprom = subdevice_ref.eeprom();")]},
    {"id": "err-c02-mark-received-cas-dropped", "property": "C02", "expect": "C02.err|ReceivingFrame::mark_received", "also": ["C03"],
     "edits": [("src/pdu_loop/frame_element/receiving_frame.rs", "                PduError::InvalidFrameState\n            })?;", "                PduError::InvalidFrameState\n            })\n            .ok();")]},
    {"id": "err-c15-extend-dropped", "property": "C15", "expect": "C15.err|", "also": ["C16"],
     "edits": [("src/mailbox/coe/mod.rs", "                buf.extend_from_slice(response.get(..length).ok_or(Error::Internal)?)\n                    .map_err(|_| Error::Internal)?;", "                let _ = buf.extend_from_slice(response.get(..length).ok_or(Error::Internal)?);")]},
    {"id": "n-err-explicit-match", "property": "C11", "neutral": True, "also": ["C09"],
     "edits": [("src/subdevice/mod.rs", "        subdevice_ref.set_eeprom_mode(SiiOwner::Master).await?;\n\n        let eeprom = subdevice_ref.eeprom();", "        match subdevice_ref.set_eeprom_mode(SiiOwner::Master).await {\n            Ok(()) => {}\n            Err(e) => return Err(e),\n        }\n\n        let eeprom = subdevice_ref.eeprom();")]},
    # ---------------- WAITLOOP ----------------
    {"id": "wait-c13-eeprom-busy-no-timeout", "property": "C13", "expect": "C13.bounded|DeviceEeprom::wait_while_busy:under-timeout", "also": ["C14"],
     "edits": [("src/eeprom/device_provider.rs", "        .timeout(self.maindevice.timeouts.eeprom())\n        .await?;", "        .await?;"),
               ("src/eeprom/device_provider.rs", "                    break Ok(control);", "                    break Ok::<_, Error>(control);")]},
    {"id": "wait-c16-mailbox-response-no-timeout", "property": "C16", "expect": "C16.bounded|Coe::wait_for_mailbox_response:under-timeout",
     "edits": [("src/mailbox/coe/mod.rs", "        .timeout(self.subdevice.maindevice.timeouts.mailbox_response())\n        .await\n        .inspect_err(|&e| {", "        .await\n        .inspect_err(|&e: &Error| {"),
               ("src/mailbox/coe/mod.rs", "                if sm_status.mailbox_full {\n                    break Ok(());", "                if sm_status.mailbox_full {\n                    break Ok::<(), Error>(());")]},
    {"id": "n-wait-c16-other-accessor", "property": "C16", "neutral": True,
     "edits": [("src/mailbox/coe/mod.rs", "        .timeout(self.subdevice.maindevice.timeouts.mailbox_response())", "        .timeout(self.subdevice.maindevice.timeouts.mailbox_echo())")]},
    {"id": "wait-c16-new-poll-loop", "property": "C16", "expect": "C16.bounded|Coe::wait_for_mailboxes",
     "edits": [("src/mailbox/coe/mod.rs", "        for i in 0..10 {\n            let sm_status = self", "        let mut i = 0;\n        loop {\n            i += 1;\n            let sm_status = self")]},
    # round-3 seeds that were missed on arrival, as mutants of the rules added for them
    {"id": "c10-into-op-via-request", "property": "C10", "expect": "C10.ctor|request_into_op:no-internal-caller",
     "edits": [("src/subdevice_group/mod.rs", "        let self_ = self.into_safe_op(maindevice).await?;\n\n        self_.transition_to(maindevice, SubDeviceState::Op).await\n    }\n\n    /// Like [`into_op`](SubDeviceGroup::into_op), however does not wait for all SubDevices to enter", "        let self_ = self.into_safe_op(maindevice).await?;\n\n        self_.request_into_op(maindevice).await\n    }\n\n    /// Like [`into_op`](SubDeviceGroup::into_op), however does not wait for all SubDevices to enter")]},
    {"id": "c15-drain-wrong-mailbox-len", "property": "C15", "expect": "C15.mbox|Coe::wait_for_mailboxes:address-and-length-of-one-mailbox",
     "edits": [("src/mailbox/coe/mod.rs", "                    .receive_slice(self.subdevice.maindevice, read_mailbox.len)\n                    .await?;\n            } else {", "                    .receive_slice(self.subdevice.maindevice, write_mailbox.len)\n                    .await?;\n            } else {")]},
    {"id": "c17-no-parent-exit-keeps-zero", "property": "C17", "expect": "C17.acc|delay-assigned-on-every-exit",
     "edits": [("src/dc.rs", "            subdevice.propagation_delay = *delay_accum;\n\n            return;", "            return;")]},
    {"id": "c12-cursor-by-whole-chunk", "property": "C12", "expect": "C12.read|cursor-advances-by-bytes-copied",
     "edits": [("src/eeprom/mod.rs", "                bytes_read += chunk.len();\n                self.byte_pos += chunk.len() as u32;\n\n                buf.copy_from_slice(chunk);", "                bytes_read += chunk.len();\n                self.byte_pos += (chunk.len() + _rest.len()) as u32;\n\n                buf.copy_from_slice(chunk);")]},
]
