"""Mutants (each compiles and passes the pinned suite by construction or was confirmed so) and
neutral edits.  edits: (file, old, new) with `old` unique in the file."""
MUTANTS = [
    # ---------------- C11 ----------------
    {"id": "c11-no-maybe-wkc-receive-slice", "property": "C11", "expect": "C11.flow|WrappedRead::receive_slice",
     "edits": [("src/command/reads.rs", "self.common(maindevice, len).await?.maybe_wkc(self.wkc)", "self.common(maindevice, len).await")]},
    {"id": "c11-wkc-ge", "property": "C11", "expect": "C11.wkc",
     "edits": [("src/pdu_loop/frame_element/received_frame.rs", "if self.working_counter == expected {", "if self.working_counter >= expected {")]},
    {"id": "c11-default-none", "property": "C11", "expect": "C11.default|WrappedRead::new",
     "edits": [("src/command/reads.rs", "            command,\n            wkc: Some(1),", "            command,\n            wkc: None,")]},
    {"id": "c11-ignore-in-read-chunk", "property": "C11", "expect": "C11.optout|ignore_wkc@<DeviceEeprom as EepromDataProvider>::read_chunk",
     "edits": [("src/eeprom/device_provider.rs", "            .receive_slice(self.maindevice, status.read_size.chunk_len())", "            .ignore_wkc()\n            .receive_slice(self.maindevice, status.read_size.chunk_len())")]},
    {"id": "c11-send-receive-none", "property": "C11", "expect": "C11.flow|WrappedWrite::send_receive_slice",
     "edits": [("src/command/writes.rs", "        self.common(maindevice, value, None)\n            .await?\n            .maybe_wkc(self.wkc)\n    }", "        self.common(maindevice, value, None)\n            .await?\n            .maybe_wkc(None)\n    }")]},
    {"id": "c11-maybe-wkc-always-ok", "property": "C11", "expect": "C11.wkc|maybe_wkc",
     "edits": [("src/pdu_loop/frame_element/received_frame.rs", "            Some(expected) => self.wkc(expected),", "            Some(_expected) => Ok(self),")]},
    {"id": "c11-neutral-rename", "property": "C11", "neutral": True,
     "edits": [("src/pdu_loop/frame_element/received_frame.rs", "        if self.working_counter == expected {\n            Ok(self)", "        let got = self.working_counter;\n        if expected == got {\n            Ok(self)")]},
]
