"""Mutants (each compiles and passes the pinned suite by construction or was confirmed so) and
neutral edits.  edits: (file, old, new) with `old` unique in the file."""
MUTANTS = [
    # ---------------- C11 ----------------
    {"id": "c11-no-maybe-wkc-receive-slice", "property": "C11", "expect": "C11.flow|WrappedRead::receive_slice",
     "edits": [("src/command/reads.rs", "self.common(maindevice, len).await?.maybe_wkc(self.wkc)", "self.common(maindevice, len).await")]},
    {"id": "c11-wkc-ge", "property": "C11", "expect": "C11.wkc",
     "edits": [("src/pdu_loop/frame_element/received_frame.rs", "if self.working_counter == expected {", "if self.working_counter >= expected {")]},
    {"id": "c11-default-none", "property": "C11", "expect": "C11.default|WrappedRead::new",
     "edits": [("src/command/reads.rs", "            command,\n            wkc: Some(1),", "            command,\n            wkc: None,")]},
    {"id": "c11-ignore-in-read-chunk", "property": "C11", "expect": "C11.optout|ignore_wkc@<DeviceEeprom as EepromDataProvider>::read_chunk",
     "edits": [("src/eeprom/device_provider.rs", "            .receive_slice(self.maindevice, status.read_size.chunk_len())", "            .ignore_wkc()\n            .receive_slice(self.maindevice, status.read_size.chunk_len())")]},
    {"id": "c11-send-receive-none", "property": "C11", "expect": "C11.flow|WrappedWrite::send_receive_slice",
     "edits": [("src/command/writes.rs", "        self.common(maindevice, value, None)\n            .await?\n            .maybe_wkc(self.wkc)\n    }", "        self.common(maindevice, value, None)\n            .await?\n            .maybe_wkc(None)\n    }")]},
    {"id": "c11-maybe-wkc-always-ok", "property": "C11", "expect": "C11.wkc|maybe_wkc",
     "edits": [("src/pdu_loop/frame_element/received_frame.rs", "            Some(expected) => self.wkc(expected),", "            Some(_expected) => Ok(self),")]},
    {"id": "c11-neutral-rename", "property": "C11", "neutral": True,
     "edits": [("src/pdu_loop/frame_element/received_frame.rs", "        if self.working_counter == expected {\n            Ok(self)", "        let got = self.working_counter;\n        if expected == got {\n            Ok(self)")]},
    # ---------------- C02 / SLOTFSM ----------------
    {"id": "c02-swap-state-store", "property": "C02", "expect": "C02.S1",
     "edits": [("src/pdu_loop/frame_element/mod.rs", """            (*addr_of_mut!((*fptr).status)).compare_exchange(
                from,
                to,
                Ordering::AcqRel,
                Ordering::Relaxed,
            )
        }?;""", """            let _ = from;
            (*addr_of_mut!((*fptr).status)).store(to, Ordering::Release)
        };""")]},
    {"id": "c02-claim-sending-store", "property": "C02", "expect": "C02.S1",
     "edits": [("src/pdu_loop/frame_element/mod.rs", "        unsafe { Self::swap_state(this, FrameState::Sendable, FrameState::Sending) }.ok()", "        unsafe { Self::set_state(this, FrameState::Sending) };\n        Some(this)")]},
    {"id": "c02-relaxed-claim", "property": "C02", "expect": "C02.S1|swap_state:success-ordering",
     "edits": [("src/pdu_loop/frame_element/mod.rs", "                Ordering::AcqRel,\n                Ordering::Relaxed,", "                Ordering::Relaxed,\n                Ordering::Relaxed,")]},
    {"id": "c02-mark-before-copy", "property": "C02", "expect": "C02.S4|receive_frame", "also": ["C01"],
     "edits": [("src/pdu_loop/pdu_rx.rs", "        let frame_data = frame.buf_mut();", "        frame.mark_received()?;\n\n        let frame_data = frame.buf_mut();"),
               ("src/pdu_loop/pdu_rx.rs", "            .copy_from_slice(i);\n\n        frame.mark_received()?;", "            .copy_from_slice(i);")]},
    {"id": "c02-wake-before-cas", "property": "C02", "expect": "C02.S4|mark_received", "also": ["C01"],
     "edits": [("src/pdu_loop/frame_element/receiving_frame.rs", "        self.inner\n            .swap_state(FrameState::RxBusy, FrameState::RxDone)", "        let _ = self.inner.wake();\n\n        self.inner\n            .swap_state(FrameState::RxBusy, FrameState::RxDone)"),
               ("src/pdu_loop/frame_element/receiving_frame.rs", "        let _ = self.inner.wake();\n\n        Ok(())", "        Ok(())")]},
    {"id": "c02-waker-after-test", "property": "C02", "expect": "C02.S4|poll:waker-before-test", "also": ["C01"],
     "edits": [("src/pdu_loop/frame_element/receiving_frame.rs", "        rxin.replace_waker(cx.waker());\n\n", ""),
               ("src/pdu_loop/frame_element/receiving_frame.rs", "            Err(e) => e,\n        };\n", "            Err(e) => e,\n        };\n\n        rxin.replace_waker(cx.waker());\n")]},
    {"id": "c02-handle-without-claim", "property": "C02", "expect": "C02.S2",
     "edits": [("src/pdu_loop/frame_element/sendable_frame.rs", "        let frame = unsafe { FrameElement::claim_sending(frame)? };", "        let frame = unsafe { FrameElement::claim_sending(frame).unwrap_or(frame) };")]},
    {"id": "c02-rx-reads-created", "property": "C02", "expect": "C02.S3",
     "edits": [("src/pdu_loop/frame_element/receiving_frame.rs", "    fn storage_slot_index(&self) -> u8 {\n        self.inner.storage_slot_index()\n    }\n}\n\npub struct ReceiveFrameFut", "    fn storage_slot_index(&self) -> u8 {\n        let _ = self.inner.ethernet_frame();\n        self.inner.storage_slot_index()\n    }\n}\n\npub struct ReceiveFrameFut")]},
    {"id": "c02-clear-after-release", "property": "C02", "expect": "C02.S5", "also": ["C01"],
     "edits": [("src/pdu_loop/frame_element/received_frame.rs", "        self.inner.clear_first_pdu();\n\n        // Invariant", "        // Invariant"),
               ("src/pdu_loop/frame_element/received_frame.rs", "                .swap_state(FrameState::RxProcessing, FrameState::None)\n        );\n", "                .swap_state(FrameState::RxProcessing, FrameState::None)\n        );\n        self.inner.clear_first_pdu();\n")]},
    # ---------------- C03 ----------------
    {"id": "c03-no-drop-future", "property": "C03", "expect": "C03.S6|impl-Drop:ReceiveFrameFut",
     "edits": [("src/pdu_loop/frame_element/receiving_frame.rs", "impl Drop for ReceiveFrameFut<'_> {\n    fn drop(&mut self) {", "impl ReceiveFrameFut<'_> {\n    #[allow(unused)]\n    fn not_drop(&mut self) {")]},
    {"id": "c03-no-release-on-last-timeout", "property": "C03", "expect": "C03.S6|poll", "also": ["C06"],
     "edits": [("src/pdu_loop/frame_element/receiving_frame.rs", "                    Self::release(rxin);\n\n                    return", "                    return")]},
    {"id": "c03-forget-putback", "property": "C03", "expect": "C03.S6|poll:claim-resolved",
     "edits": [("src/pdu_loop/frame_element/receiving_frame.rs", "                self.frame = Some(rxin);\n\n                Poll::Pending", "                Poll::Pending")]},
    {"id": "c03-send-error-keeps-claim", "property": "C03", "expect": "C03.S6|send_blocking",
     "edits": [("src/pdu_loop/frame_element/sendable_frame.rs", "            Err(res) => {\n                self.release_sending_claim();\n", "            Err(res) => {\n")]},
    {"id": "c03-created-drop-noop", "property": "C03", "expect": "C03.S6|CreatedFrame::drop",
     "edits": [("src/pdu_loop/frame_element/created_frame.rs", "        let _ = self.inner.swap_state(FrameState::Created, FrameState::None);", "        let _ = self.inner.swap_state(FrameState::Created, FrameState::Created);")]},
    {"id": "c03-alloc-one-round", "property": "C03", "expect": "C03.alloc|alloc:2N-attempts",
     "edits": [("src/pdu_loop/storage.rs", "for _ in 0..(self.num_frames * 2) {", "for _ in 0..(self.num_frames / 2) {")]},
    {"id": "c03-reset-skips-last", "property": "C03", "expect": "C03.S6|reset",
     "edits": [("src/pdu_loop/storage.rs", "        for i in 0..self.num_frames {\n            let frame = self.frame_at_index(i);", "        for i in 0..(self.num_frames - 1) {\n            let frame = self.frame_at_index(i);")]},
    # ---------------- C06 ----------------
    {"id": "c06-timer-before-done", "property": "C06", "expect": "C06.poll|done-test-before-timer",
     "edits": [("src/pdu_loop/frame_element/receiving_frame.rs", "        rxin.replace_waker(cx.waker());\n", "        rxin.replace_waker(cx.waker());\n        let early = self.timeout_timer.poll(cx).is_ready();\n        if early && self.retries_left == 0 {\n            Self::release(rxin);\n            return Poll::Ready(Err(Error::Timeout(TimeoutError::from_timeout_kind(self.timeout.kind))));\n        }\n")]},
    {"id": "c06-retry-double-decrement", "property": "C06", "expect": "C06.poll|retry-bookkeeping",
     "edits": [("src/pdu_loop/frame_element/receiving_frame.rs", "                self.retries_left -= 1;", "                self.retries_left = self.retries_left.saturating_sub(2);")]},
    {"id": "c06-forever-is-zero", "property": "C06", "expect": "C06.retry_count",
     "edits": [("src/maindevice_config.rs", "RetryBehaviour::Forever => usize::MAX,", "RetryBehaviour::Forever => 0,")]},
    {"id": "c06-retry-without-wake", "property": "C06", "expect": "C06.poll|retry-bookkeeping",
     "edits": [("src/pdu_loop/frame_element/receiving_frame.rs", "                self.pdu_loop.wake_sender();\n\n                self.retries_left -= 1;", "                self.retries_left -= 1;")]},
    {"id": "c06-new-store-on-timeout", "property": "C06", "expect": "C06.S7",
     "edits": [("src/pdu_loop/frame_element/receiving_frame.rs", "    fn storage_slot_index(&self) -> u8 {\n        self.inner.storage_slot_index()\n    }\n}\n\npub struct ReceiveFrameFut", "    fn storage_slot_index(&self) -> u8 {\n        self.inner.set_state(FrameState::RxDone);\n        self.inner.storage_slot_index()\n    }\n}\n\npub struct ReceiveFrameFut")]},
    # ---------------- C01 ----------------
    {"id": "c01-no-index-compare", "property": "C01", "expect": "C01.handle|ReceivedFrame::first_pdu:index",
     "edits": [("src/pdu_loop/frame_element/received_frame.rs", """        if pdu_header.index != handle.pdu_idx {
            return Err(Error::Pdu(PduError::InvalidIndex(pdu_header.index)));
        }

        let payload_ptr = unsafe {
            NonNull::new_unchecked(
                buf.get(PduHeader::PACKED_LEN..)
                    .ok_or(Error::Internal)?
                    .as_ptr()
                    .cast_mut(),
            )
        };

        let working_counter = u16::unpack_from_slice(
            buf.get((PduHeader::PACKED_LEN + payload_len)..)
                .ok_or(Error::Internal)?,
        )?;

        Ok(ReceivedPdu {
            data_start: payload_ptr,
            len: payload_len,
            working_counter,
            // Frame""", """        let payload_ptr = unsafe {
            NonNull::new_unchecked(
                buf.get(PduHeader::PACKED_LEN..)
                    .ok_or(Error::Internal)?
                    .as_ptr()
                    .cast_mut(),
            )
        };

        let working_counter = u16::unpack_from_slice(
            buf.get((PduHeader::PACKED_LEN + payload_len)..)
                .ok_or(Error::Internal)?,
        )?;

        Ok(ReceivedPdu {
            data_start: payload_ptr,
            len: payload_len,
            working_counter,
            // Frame""")]},
    {"id": "c01-sentinel-00ff", "property": "C01", "expect": "C01.key|sentinel",
     "edits": [("src/pdu_loop/frame_element/mod.rs", "pub const FIRST_PDU_EMPTY: u16 = 0xff00;", "pub const FIRST_PDU_EMPTY: u16 = 0x00ff;")]},
    {"id": "c01-trim-no-shrink", "property": "C01", "expect": "C01.view|ReceivedPdu::trim_front",
     "edits": [("src/pdu_loop/frame_element/received_frame.rs", "        self.len -= ct;\n", "")]},
    {"id": "c01-lookup-ignores-state", "property": "C01", "expect": "C01.S8",
     "edits": [("src/pdu_loop/storage.rs", "                    && FrameElement::<0>::is_awaiting_response(frame)\n", "")]},
    {"id": "c01-view-drops-frame", "property": "C01", "expect": "C01.S5e",
     "edits": [("src/pdu_loop/frame_element/received_frame.rs", "            _frame: Some(self),", "            _frame: None,")]},
    {"id": "c01-len-plus-two", "property": "C01", "expect": "C01.view|ReceivedFrame::first_pdu:len",
     "edits": [("src/pdu_loop/frame_element/received_frame.rs", "            _frame: Some(self),", "            _frame: Some(self),"), ("src/pdu_loop/frame_element/received_frame.rs", "            len: payload_len,\n            working_counter,\n            // Frame", "            len: payload_len + 2,\n            working_counter,\n            // Frame")]},
    {"id": "c01-marker-overwrite", "property": "C01", "expect": "C01.key|set_first_pdu",
     "edits": [("src/pdu_loop/frame_element/mod.rs", """        let _ = first_pdu.compare_exchange(
            FIRST_PDU_EMPTY,
            u16::from(value),
            Ordering::Release,
            Ordering::Relaxed,
        );""", """        first_pdu.store(u16::from(value), Ordering::Release);""")]},
    {"id": "c01-neutral-log", "property": "C01", "neutral": True, "also": ["C02", "C03", "C06"],
     "edits": [("src/pdu_loop/frame_element/received_frame.rs", "        let payload_len = usize::from(pdu_header.flags.len());\n\n        // If buffer isn't long enough to hold payload and WKC, this is probably a corrupt PDU or\n        // someone is committing epic haxx.\n        if buf.len() < payload_len + 2 {\n            return Err(Error::Pdu(PduError::TooLong));\n        }\n\n        if pdu_header.command_code != handle.command_code {", "        let payload_len = usize::from(pdu_header.flags.len());\n        fmt::trace!(\"payload {}\", payload_len);\n\n        if buf.len() < payload_len + 2 {\n            return Err(Error::Pdu(PduError::TooLong));\n        }\n\n        if handle.command_code != pdu_header.command_code {")]},
    # ---------------- C05 ----------------
    {"id": "c05-index-direct", "property": "C05", "expect": "C05.np|PduRx::receive_frame",
     "edits": [("src/pdu_loop/pdu_rx.rs", "let pdu_idx = *i.get(1).ok_or(Error::Internal)?;", "let pdu_idx = i[1];")]},
    {"id": "c05-no-src-filter", "property": "C05", "expect": "C05.filter|own-source",
     "edits": [("src/pdu_loop/pdu_rx.rs", "if raw_packet.ethertype() != ETHERCAT_ETHERTYPE || raw_packet.src_addr() == self.source_mac\n        {", "if raw_packet.ethertype() != ETHERCAT_ETHERTYPE {")]},
    {"id": "c05-unchecked-ctor", "property": "C05", "expect": "C05",
     "edits": [("src/pdu_loop/pdu_rx.rs", "let raw_packet = EthernetFrame::new_checked(ethernet_frame)?;", "let raw_packet = EthernetFrame::new_unchecked(ethernet_frame);")]},
    {"id": "c05-payload-slice-direct", "property": "C05", "expect": "C05.np|PduRx::receive_frame",
     "edits": [("src/pdu_loop/pdu_rx.rs", """        let i = i
            .get(
                EthercatFrameHeader::PACKED_LEN
                    ..(EthercatFrameHeader::PACKED_LEN + usize::from(frame_header.payload_len)),
            )
            .ok_or_else(|| {
                fmt::error!("Received frame is too short");

                Error::ReceiveFrame
            })?;""", """        let i = &i[EthercatFrameHeader::PACKED_LEN
            ..(EthercatFrameHeader::PACKED_LEN + usize::from(frame_header.payload_len))];""")]},
    {"id": "c05-claim-no-bounds", "property": "C05", "expect": "C05.claim|index-bounds",
     "edits": [("src/pdu_loop/storage.rs", "        if frame_idx >= self.num_frames {\n            return None;\n        }\n", "")]},
    # ---------------- C13 ----------------
    {"id": "c13-unchecked-add2", "property": "C13", "expect": "C13",
     "edits": [("src/subdevice/eeprom.rs", """            let Some(incr) = word_addr.checked_add(2) else {
                fmt::warn!(
                    "Could not find EEPROM category {:?} or end marker. EEPROM could be empty or corrupt.",
                    category
                );

                break Ok(None);
            };

            word_addr = incr;""", """            word_addr += 2;""")]},
    {"id": "c13-category-len-unchecked", "property": "C13", "expect": "C13",
     "edits": [("src/subdevice/eeprom.rs", """            let Some(next) = word_addr.checked_add(len_words) else {
                fmt::warn!(
                    "EEPROM category {:?} length {:#06x} overruns the address space. EEPROM could be empty or corrupt.",
                    category_type,
                    len_words
                );

                break Ok(None);
            };

            word_addr = next;""", """            word_addr += len_words;""")]},
    {"id": "c13-no-string-len-check", "property": "C13", "expect": "C13.np|SubDeviceEeprom::find_string",
     "edits": [("src/subdevice/eeprom.rs", """            if string_len > N {
                return Err(Error::StringTooLong {
                    max_length: N,
                    string_length: string_len,
                });
            }
""", "")]},
    {"id": "c13-size-u16", "property": "C13", "expect": "C13.np|SubDeviceEeprom::size",
     "edits": [("src/subdevice/eeprom.rs", "let len = (usize::from(u16::from_le_bytes(buf)) + 1) * 128;\n\n        Ok(len)", "let len = (u16::from_le_bytes(buf) + 1) * 128;\n\n        Ok(usize::from(len))")]},
    {"id": "c13-sm-len-unchecked", "property": "C13", "expect": "C13.np|configuration::configure_pdos_eeprom",
     "edits": [("src/subdevice/configuration.rs", "let len = pdo.bit_len.checked_mul(oversampling);", "let len = Some(pdo.bit_len * oversampling);")]},
    # ---------------- C16 ----------------
    {"id": "c16-assert-emergency", "property": "C16", "expect": "C16.np|Coe::mailbox_write_read",
     "edits": [("src/mailbox/coe/mod.rs", "        if headers.coe_header.service == CoeService::Emergency {", "        assert_ne!(headers.coe_header.service, CoeService::Emergency);\n\n        if headers.coe_header.service == CoeService::Emergency {")]},
    {"id": "c16-sdo-info-length", "property": "C16", "expect": "C16.np|Coe::send_sdo_info_service",
     "edits": [("src/mailbox/coe/mod.rs", "buf.extend_from_slice(response.get(..length).ok_or(Error::Internal)?)", "buf.extend_from_slice(&response[..length])")]},
    {"id": "c16-segment-minus-3", "property": "C16", "expect": "C16.np|Coe::sdo_read",
     "edits": [("src/mailbox/coe/mod.rs", "usize::from(headers.header.length.checked_sub(3).ok_or(Error::Internal)?);", "usize::from(headers.header.length - 3);")]},
    {"id": "c16-expedited-index", "property": "C16", "expect": "C16.np|Coe::sdo_read",
     "edits": [("src/mailbox/coe/mod.rs", "data.get(0..data_len).ok_or(Error::Internal)?\n        }", "&data[0..data_len]\n        }")]},
    {"id": "c16-trim-unclamped", "property": "C16", "expect": "C16", "also": ["C01"],
     "edits": [("src/pdu_loop/frame_element/received_frame.rs", "        let ct = ct.min(self.len());\n", "")]},
    # ---------------- C17 ----------------
    {"id": "c17-no-free-port-unwrap", "property": "C17", "expect": "C17.np|dc::assign_parent_relationships",
     "edits": [("src/dc.rs", """                .ok_or_else(|| {
                    fmt::error!(
                        "No free ports on parent of SubDevice {:#06x}",
                        subdevice.configured_address()
                    );

                    Error::Topology
                })?;""", """                .unwrap();""")]},
    {"id": "c17-sum-overflow", "property": "C17", "expect": "C17.np|Ports::intermediate_propagation_time_to",
     "edits": [("src/subdevice/ports.rs", ".fold(0u32, |total, delta| total.saturating_add(delta))", ".sum::<u32>()")]},
    {"id": "c17-no-open-port-check", "property": "C17", "expect": "C17.np|guard-broken|ports_nonempty",
     "edits": [("src/subdevice/mod.rs", "        if !ports.0.iter().any(|port| port.active) {", "        if false {")]},
    {"id": "c17-delay-not-monotone", "property": "C17", "expect": "C17.acc",
     "edits": [("src/dc.rs", "    subdevice.propagation_delay = *delay_accum;\n}", "    subdevice.propagation_delay = propagation_delay;\n}")]},
    {"id": "c17-offset-plain-arith", "property": "C17", "expect": "C17.np|dc::write_dc_parameters",
     "edits": [("src/dc.rs", "(now_nanos as i64).wrapping_sub(subdevice.dc_receive_time as i64);", "now_nanos as i64 - subdevice.dc_receive_time as i64;")]},
    # ---------------- C18 ----------------
    {"id": "c18-shift-unchecked", "property": "C18", "expect": "C18",
     "edits": [("src/subdevice_group/mod.rs", "let sync0_shift = u64::from(u32::try_from(sync0_shift.as_nanos())?);", "let sync0_shift = sync0_shift.as_nanos() as u64;")]},
    {"id": "c18-start-time-plain-add", "property": "C18", "expect": "C18.np|SubDeviceGroup::configure_dc_sync",
     "edits": [("src/subdevice_group/mod.rs", "system_time.wrapping_add(first_pulse_delay) / sync0_period * sync0_period;", "(system_time + first_pulse_delay) / sync0_period * sync0_period;")]},
    {"id": "c18-round-other-period", "property": "C18", "expect": "C18.cfg|register-value-table",
     "edits": [("src/subdevice_group/mod.rs", "system_time.wrapping_add(first_pulse_delay) / sync0_period * sync0_period;", "system_time.wrapping_add(first_pulse_delay) / sync0_period * first_pulse_delay.max(1);")]},
    {"id": "c18-sync1-always-on", "property": "C18", "expect": "C18.cfg|flags-per-mode",
     "edits": [("src/subdevice_group/mod.rs", "            } else {\n                SYNC0_ACTIVATE | CYCLIC_OP_ENABLE\n            };", "            } else {\n                SYNC1_ACTIVATE | SYNC0_ACTIVATE | CYCLIC_OP_ENABLE\n            };")]},
    {"id": "c18-no-reference-after-write", "property": "C18", "expect": "C18.cfg|no-reference",
     "edits": [("src/subdevice_group/mod.rs", """        let Some(reference) = maindevice.dc_ref_address() else {
            fmt::error!("No DC reference clock SubDevice present, unable to configure DC");

            return Err(DistributedClockError::NoReference.into());
        };

        let DcConfiguration {""", """        let reference = maindevice.dc_ref_address().unwrap_or(0x1000);

        let DcConfiguration {""")]},
    {"id": "c18-wait-minus-shift", "property": "C18", "expect": "C18.cycle",
     "edits": [("src/subdevice_group/mod.rs", "(self.dc_conf.sync0_period - cycle_start_offset) + self.dc_conf.sync0_shift;", "(self.dc_conf.sync0_period - cycle_start_offset).saturating_sub(self.dc_conf.sync0_shift);")]},
]
